import P2sh.Props.Chain
import P2sh.Props.RefProg
/-!
# End to end for whole programs: the oracle's run of a program is what the VM model does on the real bytes

`Props/Chain.lean` chains oracle ⇒ `Core.eval` ⇒ core machine ⇒ VM model for *expressions*;
`Props/RefProg.lean` proves oracle ⇒ `Core.evalP` for *statements / programs* and composes it with
`Core.program_correct` (an unbounded run of the core machine).  This file closes the gap down to the VM
model (`Model/Vm.lean`) running `Core.encode (Core.compileP 0 0 [] ss)`:

* `depthS`, `depthP` — a *static* bound on the growth of the operand stack while the code of a statement /
  statement list runs (statements are balanced: what matters is the deepest expression in them; a branch
  of a statement-level `if` leaves one value, which the `if`'s `Pop` removes);
* `sound_all_bounded`, `compileS_correct_bounded`, `compileP_correct_bounded`,
  `program_correct_bounded` — `Core.sound_all` (`Core/Prog.lean`) again, now as `CoreVm.StepsB` runs: every
  state of the run keeps at most `B` values, for every `B ≥ stk.length + depthP ss`; all flows (`normal`,
  `break l`, `continue l`) with the same end states as `Core.sound_all`;
* `oracle_program_vm` — the program-level chain, value direction;
* `Fail`, `fail_machine`, `Fail.none`, `ref_stmts_fail` — the error direction needs more than
  `RefProg.ref_stmts_error_core` (`∀ f, evalP f g ss = none`, which a diverging program satisfies too):
  `Fail g item` is a *genuine* failure of Core's evaluation (an expression evaluates to `none` after
  finitely many completed statements / loop iterations); `ref_stmts_fail`: the oracle's runtime error is
  one (termination comes from following the oracle's finite run); `fail_machine`: then the core machine
  reaches, within the stack bound, a failing operator;
* `oracle_program_error_vm`, `oracle_program_error_vm_nomul` — the program-level chain, error direction
  (complete, nothing partial; see there for what is and is not said).
-/
namespace P2sh.ChainProg
open P2sh P2sh.Core
open P2sh.CoreVm (StepsB Rel VmSteps scalar)
open P2sh.Chain (depth depth_pos sb_trans sb_one sb_to sb_mono compile_correct_bounded)

/-! ## the static stack-depth bound for statements -/

mutual
/-- how far the operand stack grows (above its height at the start) while the code of the statement runs:
`let` / expression statement: the expression (then `DefineGlobal` / `Pop` removes the value); loops: the
condition, then the body from the same height; `break` / `continue`: a `Jump`, nothing is pushed; `if` in
statement position: the condition is popped by `JumpIfFalse`, the branch runs from the same height and
leaves one value (`Null` after a statement that is not an expression statement, or for the empty block),
popped by the final `Pop` — that one value is covered by `depth c ≥ 1`. -/
def depthS : CStmt → Nat
  | .letG _ e => depth e
  | .expr e => depth e
  | .block body => depthP body
  | .whileS _ c body => max (depth c) (depthP body)
  | .loopS _ body => depthP body
  | .breakS _ | .continueS _ => 0
  | .ifS c thn els => max (depth c) (max (depthP thn) (depthP els))
def depthP : List CStmt → Nat
  | [] => 0
  | s :: rest => max (depthS s) (depthP rest)
end

/-! ## soundness of the statement compiler with the stack bound -/

def SoundSB (fuel : Nat) : Prop :=
  ∀ (s : CStmt) (C : List Instr) (K : List Val) (pos k : Nat) (ctx : List LoopCtx) (stk g g' : List Val) (f : Flow) (B : Nat),
    codeAt C pos (compileS pos k ctx s) → poolAt K k (constsS s) → evalS fuel g s = some (g', f) →
    stk.length + depthS s ≤ B →
    StepsB C K B ⟨pos, stk, g⟩ ⟨exitPc ctx (pos + bytes (compileS pos k ctx s)) f, stk, g'⟩

def SoundPB (fuel : Nat) : Prop :=
  ∀ (ss : List CStmt) (C : List Instr) (K : List Val) (pos k : Nat) (ctx : List LoopCtx) (stk g g' : List Val) (f : Flow) (B : Nat),
    codeAt C pos (compileP pos k ctx ss) → poolAt K k (constsP ss) → evalP fuel g ss = some (g', f) →
    stk.length + depthP ss ≤ B →
    StepsB C K B ⟨pos, stk, g⟩ ⟨exitPc ctx (pos + bytes (compileP pos k ctx ss)) f, stk, g'⟩

/-- a block in value position (a branch of an `if`): one more value than the block's statements need -/
def SoundVB (fuel : Nat) : Prop :=
  ∀ (ss : List CStmt) (C : List Instr) (K : List Val) (pos k : Nat) (ctx : List LoopCtx) (stk g g' : List Val) (f : Flow) (B : Nat),
    codeAt C pos (branchV pos k ctx ss) → poolAt K k (constsP ss) → evalP fuel g ss = some (g', f) →
    stk.length + depthP ss ≤ B → stk.length + 1 ≤ B →
    ∃ v, StepsB C K B ⟨pos, stk, g⟩ ⟨exitPc ctx (pos + bytes (branchV pos k ctx ss)) f, valStk f v stk, g'⟩

def SoundIfVB (fuel : Nat) : Prop :=
  ∀ (c : CExpr) (thn els : List CStmt) (C : List Instr) (K : List Val) (pos k : Nat) (ctx : List LoopCtx) (stk g g' : List Val) (f : Flow) (B : Nat),
    codeAt C pos (ifV pos k ctx c thn els) → poolAt K k (consts c ++ constsP thn ++ constsP els) →
    evalS fuel g (.ifS c thn els) = some (g', f) →
    stk.length + depthS (.ifS c thn els) ≤ B →
    ∃ v, StepsB C K B ⟨pos, stk, g⟩ ⟨exitPc ctx (pos + bytes (ifV pos k ctx c thn els)) f, valStk f v stk, g'⟩

theorem soundB_zero : SoundSB 0 ∧ SoundPB 0 ∧ SoundVB 0 ∧ SoundIfVB 0 := by
  refine ⟨?_, ?_, ?_, ?_⟩
  · intro s C K pos k ctx stk g g' f B _ _ he; simp [evalS] at he
  · intro ss C K pos k ctx stk g g' f B _ _ he; simp [evalP] at he
  · intro ss C K pos k ctx stk g g' f B _ _ he; simp [evalP] at he
  · intro c t e C K pos k ctx stk g g' f B _ _ he; simp [evalS] at he

theorem soundPB_succ (fuel : Nat) (hS : SoundSB fuel) (hP : SoundPB fuel) : SoundPB (fuel + 1) := by
  intro ss C K pos k ctx stk g g' f B h hp he hB
  cases ss with
  | nil =>
    simp only [evalP, Option.some.injEq, Prod.mk.injEq] at he
    obtain ⟨rfl, rfl⟩ := he
    exact sb_to (.refl _) (by simp [compileP, bytes, exitPc])
  | cons s rest =>
    simp only [evalP] at he
    simp only [depthP] at hB
    cases h1 : evalS fuel g s with
    | none => simp [h1] at he
    | some r1 =>
      obtain ⟨g1, f1⟩ := r1
      simp only [compileP] at h ⊢
      simp only [constsP] at hp
      generalize hcs : compileS pos k ctx s = cs at *
      have hs := hS s C K pos k ctx stk g g1 f1 B (hcs ▸ codeAt_left h) (poolAt_left hp) h1 (by omega)
      rw [hcs] at hs
      by_cases hn : f1 = .normal
      · subst hn
        simp only [h1] at he
        have hr := hP rest C K (pos + bytes cs) (k + (constsS s).length) ctx stk g1 g' f B (codeAt_right h) (poolAt_right hp) he (by omega)
        have hs' : StepsB C K B ⟨pos, stk, g⟩ ⟨pos + bytes cs, stk, g1⟩ := hs
        refine sb_to (sb_trans hs' hr) ?_
        cases f <;> simp [exitPc, bytes_append, Nat.add_assoc]
      · have he' : some (g1, f1) = some (g', f) := by
          cases f1 <;> simp_all
        simp only [Option.some.injEq, Prod.mk.injEq] at he'
        obtain ⟨rfl, rfl⟩ := he'
        exact sb_to hs (by rw [exitPc_ne_normal hn])

theorem soundIfVB_succ (fuel : Nat) (hV : SoundVB fuel) : SoundIfVB (fuel + 1) := by
  intro c thn els C K pos k ctx stk g g' f B h hp he hB
  simp only [evalS] at he
  simp only [depthS] at hB
  have hpc := depth_pos c
  cases hec : eval g c with
  | none => simp [hec] at he
  | some rc =>
    obtain ⟨vc, g1⟩ := rc
    simp only [hec] at he
    simp only [ifV] at h ⊢
    generalize hcc : compile pos k c = cc at *
    generalize hct : branchV (pos + bytes cc + 3) (k + (consts c).length) ctx thn = ct at *
    generalize hce : branchV (pos + bytes cc + 3 + bytes ct + 3) (k + (consts c).length + (constsP thn).length) ctx els = ce at *
    have hc := compile_correct_bounded c C K pos k stk g vc g1 B (hcc ▸ codeAt_mid [] cc _ (by simpa using h))
      (poolAt_left (poolAt_left hp)) hec (by omega)
    rw [hcc] at hc
    have hj : codeAt C (pos + bytes cc) [Instr.jif (pos + bytes cc + 3 + bytes ct + 3)] :=
      codeAt_mid cc [_] (ct ++ [.jump (pos + bytes cc + 3 + bytes ct + 3 + bytes ce)] ++ ce) (by simpa using h)
    have htt : codeAt C (pos + bytes cc + 3) ct :=
      (codeAt_right (codeAt_left (codeAt_left h))).to (by posarith)
    have hm : codeAt C (pos + bytes cc + 3 + bytes ct) [Instr.jump (pos + bytes cc + 3 + bytes ct + 3 + bytes ce)] :=
      (codeAt_right (codeAt_left h)).to (by posarith)
    have hee : codeAt C (pos + bytes cc + 3 + bytes ct + 3) ce :=
      (codeAt_right h).to (by posarith)
    have hpt : poolAt K (k + (consts c).length) (constsP thn) := poolAt_right (poolAt_left hp)
    have hpe : poolAt K (k + (consts c).length + (constsP thn).length) (constsP els) := by
      have := poolAt_right hp
      simpa [Nat.add_assoc] using this
    have s0 := sb_trans hc (sb_one (step_jif (stk := stk) (g := g1) (v := vc) (K := K) hj) (by bnd))
    by_cases hf : vc.isFalsey = true
    · simp only [hf, if_true] at he s0
      obtain ⟨v, hb⟩ := hV els C K _ _ ctx stk g1 g' f B (hce ▸ hee) hpe he (by omega) (by omega)
      rw [hce] at hb
      refine ⟨v, sb_to (sb_trans s0 hb) ?_⟩
      cases f <;> exitarith
    · simp only [hf, Bool.false_eq_true, if_false] at he s0
      obtain ⟨v, hb⟩ := hV thn C K _ _ ctx stk g1 g' f B (hct ▸ htt) hpt he (by omega) (by omega)
      rw [hct] at hb
      by_cases hn : f = .normal
      · subst hn
        have hb' : StepsB C K B ⟨pos + bytes cc + 3, stk, g1⟩ ⟨pos + bytes cc + 3 + bytes ct, v :: stk, g'⟩ := hb
        refine ⟨v, sb_to (sb_trans (sb_trans s0 hb') (sb_one (step_jump hm) (by bnd))) ?_⟩
        exitarith
      · exact ⟨v, sb_to (sb_trans s0 hb) (by rw [exitPc_ne_normal hn])⟩

theorem soundVB_succ (fuel : Nat) (hS : SoundSB fuel) (hV : SoundVB fuel) (hI : SoundIfVB fuel) : SoundVB (fuel + 1) := by
  intro ss C K pos k ctx stk g g' f B h hp he hB hB1
  cases ss with
  | nil =>
    simp only [evalP, Option.some.injEq, Prod.mk.injEq] at he
    obtain ⟨rfl, rfl⟩ := he
    simp only [branchV] at h ⊢
    exact ⟨.null, sb_to (sb_one (step_null h) (by bnd)) (by exitarith)⟩
  | cons s rest =>
    simp only [evalP] at he
    simp only [depthP] at hB
    cases h1 : evalS fuel g s with
    | none => simp [h1] at he
    | some r1 =>
      obtain ⟨g1, f1⟩ := r1
      simp only [constsP] at hp
      cases rest with
      | cons s2 rest2 =>
        rw [branchV_cons2] at h ⊢
        generalize hcs : compileS pos k ctx s = cs at *
        have hs := hS s C K pos k ctx stk g g1 f1 B (hcs ▸ codeAt_left h) (poolAt_left hp) h1 (by omega)
        rw [hcs] at hs
        by_cases hn : f1 = .normal
        · subst hn
          simp only [h1] at he
          obtain ⟨v, hr⟩ := hV (s2 :: rest2) C K (pos + bytes cs) (k + (constsS s).length) ctx stk g1 g' f B
            (codeAt_right h) (poolAt_right hp) he (by omega) hB1
          have hs' : StepsB C K B ⟨pos, stk, g⟩ ⟨pos + bytes cs, stk, g1⟩ := hs
          refine ⟨v, sb_to (sb_trans hs' hr) ?_⟩
          cases f <;> simp [exitPc, bytes_append, Nat.add_assoc]
        · have he' : some (g1, f1) = some (g', f) := by
            cases f1 <;> simp_all
          simp only [Option.some.injEq, Prod.mk.injEq] at he'
          obtain ⟨rfl, rfl⟩ := he'
          exact ⟨.null, sb_to hs (by rw [exitPc_ne_normal hn, valStk_ne_normal hn])⟩
      | nil =>
        -- the last statement, in value position
        have hfin : g' = g1 ∧ f = f1 := by
          cases f1 with
          | normal =>
            simp only [h1] at he
            cases fuel with
            | zero => simp [evalS] at h1
            | succ n => simp [evalP] at he; exact ⟨he.1.symm, he.2.symm⟩
          | brk l => simp [h1] at he; exact ⟨he.1.symm, he.2.symm⟩
          | cont l => simp [h1] at he; exact ⟨he.1.symm, he.2.symm⟩
        obtain ⟨rfl, rfl⟩ := hfin
        simp only [constsP, List.append_nil] at hp
        simp only [depthP] at hB
        rw [branchV_single] at h ⊢
        by_cases hx : s.isExprStmt = true
        · cases s <;> try (simp [CStmt.isExprStmt] at hx)
          case expr e =>
            rw [valueOf_expr] at h ⊢
            simp only [depthS] at hB
            cases fuel with
            | zero => simp [evalS] at h1
            | succ n =>
              simp only [evalS] at h1
              cases hee : eval g e with
              | none => simp [hee] at h1
              | some r =>
                obtain ⟨v, g2⟩ := r
                simp only [hee, Option.some.injEq, Prod.mk.injEq] at h1
                obtain ⟨rfl, rfl⟩ := h1
                exact ⟨v, sb_to (compile_correct_bounded e C K pos k stk g v _ B h (by simpa [constsS] using hp) hee (by omega))
                  (by exitarith)⟩
          case ifS c thn els =>
            rw [valueOf_ifS] at h ⊢
            exact hI c thn els C K pos k ctx stk g g' f B h (by simpa [constsS] using hp) h1 (by omega)
        · have hx' : s.isExprStmt = false := by simpa using hx
          rw [valueOf_other _ _ _ _ hx'] at h ⊢
          have hs := hS s C K pos k ctx stk g g' f B (codeAt_left h) hp h1 (by omega)
          refine ⟨.null, ?_⟩
          by_cases hn : f = .normal
          · subst hn
            have hnull : codeAt C (pos + bytes (compileS pos k ctx s)) [Instr.null] := codeAt_right h
            have hs' : StepsB C K B ⟨pos, stk, g⟩ ⟨pos + bytes (compileS pos k ctx s), stk, g'⟩ := hs
            exact sb_to (sb_trans hs' (sb_one (step_null hnull) (by bnd))) (by exitarith)
          · exact sb_to hs (by rw [exitPc_ne_normal hn, valStk_ne_normal hn])

theorem soundSB_succ (fuel : Nat) (hS : SoundSB fuel) (hP : SoundPB fuel) (hI : SoundIfVB (fuel + 1)) : SoundSB (fuel + 1) := by
  intro s C K pos k ctx stk g g' f B h hp he hB
  cases s with
  | letG i e =>
    simp only [evalS] at he
    simp only [constsS] at hp
    simp only [depthS] at hB
    have hpe := depth_pos e
    cases hee : eval g e with
    | none => simp [hee] at he
    | some r =>
      obtain ⟨v, g1⟩ := r
      simp only [hee] at he
      by_cases hi : i < g1.length
      · simp only [hi, if_true, Option.some.injEq, Prod.mk.injEq] at he
        obtain ⟨rfl, rfl⟩ := he
        simp only [compileS] at h ⊢
        generalize hce : compile pos k e = ce at *
        have h1 := compile_correct_bounded e C K pos k stk g v g1 B (hce ▸ codeAt_mid [] ce _ (by simpa using h)) hp hee hB
        rw [hce] at h1
        have hs : codeAt C (pos + bytes ce) [Instr.defGlobal i] := codeAt_mid ce [_] [] (by simpa using h)
        exact sb_to (sb_trans h1 (sb_one (step_defGlobal hs hi) (by bnd))) (by exitarith)
      · simp [hi] at he
  | expr e =>
    simp only [evalS] at he
    simp only [constsS] at hp
    simp only [depthS] at hB
    have hpe := depth_pos e
    cases hee : eval g e with
    | none => simp [hee] at he
    | some r =>
      obtain ⟨v, g1⟩ := r
      simp only [hee, Option.some.injEq, Prod.mk.injEq] at he
      obtain ⟨rfl, rfl⟩ := he
      simp only [compileS] at h ⊢
      generalize hce : compile pos k e = ce at *
      have h1 := compile_correct_bounded e C K pos k stk g v g1 B (hce ▸ codeAt_mid [] ce _ (by simpa using h)) hp hee hB
      rw [hce] at h1
      have hpop : codeAt C (pos + bytes ce) [Instr.pop] := codeAt_mid ce [_] [] (by simpa using h)
      exact sb_to (sb_trans h1 (sb_one (step_pop hpop) (by bnd))) (by exitarith)
  | block body =>
    simp only [evalS] at he
    simp only [constsS] at hp
    simp only [depthS] at hB
    simp only [compileS] at h ⊢
    exact hP body C K pos k ctx stk g g' f B h hp he hB
  | breakS l =>
    simp only [evalS, Option.some.injEq, Prod.mk.injEq] at he
    obtain ⟨rfl, rfl⟩ := he
    simp only [compileS] at h
    exact sb_to (sb_one (step_jump h) (by bnd)) (by simp [exitPc])
  | continueS l =>
    simp only [evalS, Option.some.injEq, Prod.mk.injEq] at he
    obtain ⟨rfl, rfl⟩ := he
    simp only [compileS] at h
    exact sb_to (sb_one (step_jump h) (by bnd)) (by simp [exitPc])
  | ifS c thn els =>
    rw [compileS_ifS] at h ⊢
    have hpc := depth_pos c
    obtain ⟨v, hv⟩ := hI c thn els C K pos k ctx stk g g' f B (codeAt_left h) (by simpa [constsS] using hp) he hB
    simp only [depthS] at hB
    by_cases hn : f = .normal
    · subst hn
      have hpop : codeAt C (pos + bytes (ifV pos k ctx c thn els)) [Instr.pop] := codeAt_right h
      have hv' : StepsB C K B ⟨pos, stk, g⟩ ⟨pos + bytes (ifV pos k ctx c thn els), v :: stk, g'⟩ := hv
      exact sb_to (sb_trans hv' (sb_one (step_pop hpop) (by bnd))) (by exitarith)
    · exact sb_to hv (by rw [exitPc_ne_normal hn, valStk_ne_normal hn])
  | loopS lbl body =>
    simp only [evalS] at he
    simp only [constsS] at hp
    have hBl := hB
    simp only [depthS] at hB
    have hloop := h
    simp only [compileS] at h ⊢
    generalize hme : (⟨lbl, pos, pos + sizeP body + 3⟩ : LoopCtx) = me at *
    have hml : me.label = lbl := by rw [← hme]
    have hmb : me.begin = pos := by rw [← hme]
    have hmend : me.endp = pos + sizeP body + 3 := by rw [← hme]
    generalize hcb : compileP pos k (me :: ctx) body = cb at *
    have hsz : bytes cb = sizeP body := by rw [← hcb, bytes_compileP]
    have hback : codeAt C (pos + bytes cb) [Instr.jump pos] := codeAt_right h
    cases hb : evalP fuel g body with
    | none => simp [hb] at he
    | some r =>
      obtain ⟨g2, f2⟩ := r
      simp only [hb] at he
      have h1 := hP body C K pos k (me :: ctx) stk g g2 f2 B (hcb ▸ codeAt_left h) hp hb hB
      rw [hcb] at h1
      cases ha : loopAct lbl f2 with
      | again =>
        simp only [ha] at he
        have h2 := hS (.loopS lbl body) C K pos k ctx stk g2 g' f B hloop (by simpa [constsS] using hp) he hBl
        simp only [compileS, hme, hcb] at h2
        rcases exitPc_again (ctx := ctx) (e := pos + bytes cb) (hml ▸ ha) with e | e
        · exact sb_trans (sb_to h1 (by rw [e])) (sb_trans (sb_one (step_jump hback) (by bnd)) h2)
        · exact sb_trans (sb_to h1 (by rw [e, hmb])) h2
      | exit =>
        simp only [ha, Option.some.injEq, Prod.mk.injEq] at he
        obtain ⟨rfl, rfl⟩ := he
        exact sb_to h1 (by rw [exitPc_exit (hml ▸ ha), hmend]; simp [exitPc, bytes_append, bytes, Instr.size, hsz]; omega)
      | propagate =>
        simp only [ha, Option.some.injEq, Prod.mk.injEq] at he
        obtain ⟨rfl, rfl⟩ := he
        exact sb_to h1 (by rw [exitPc_propagate (hml ▸ ha)])
  | whileS lbl c body =>
    simp only [evalS] at he
    simp only [constsS] at hp
    have hBl := hB
    simp only [depthS] at hB
    have hpc := depth_pos c
    cases hec : eval g c with
    | none => simp [hec] at he
    | some rc =>
      obtain ⟨vc, g1⟩ := rc
      simp only [hec] at he
      -- keep the whole loop's placement for the next iteration
      have hloop := h
      simp only [compileS] at h ⊢
      generalize hcc : compile pos k c = cc at *
      generalize hme : (⟨lbl, pos, pos + bytes cc + 3 + sizeP body + 3⟩ : LoopCtx) = me at *
      have hml : me.label = lbl := by rw [← hme]
      have hmb : me.begin = pos := by rw [← hme]
      have hmend : me.endp = pos + bytes cc + 3 + sizeP body + 3 := by rw [← hme]
      generalize hcb : compileP (pos + bytes cc + 3) (k + (consts c).length) (me :: ctx) body = cb at *
      have hsz : bytes cb = sizeP body := by rw [← hcb, bytes_compileP]
      have hc := compile_correct_bounded c C K pos k stk g vc g1 B (hcc ▸ codeAt_mid [] cc _ (by simpa using h))
        (poolAt_left hp) hec (by omega)
      rw [hcc] at hc
      have hj : codeAt C (pos + bytes cc) [Instr.jif (pos + bytes cc + 3 + sizeP body + 3)] :=
        codeAt_mid cc [_] (cb ++ [.jump pos]) (by simpa using h)
      have hbody : codeAt C (pos + bytes cc + 3) cb :=
        (codeAt_right (codeAt_left h)).to (by posarith)
      have hback : codeAt C (pos + bytes cc + 3 + bytes cb) [Instr.jump pos] :=
        (codeAt_right h).to (by posarith)
      refine sb_trans hc (sb_trans (sb_one (step_jif hj) (by bnd)) ?_)
      by_cases hf : vc.isFalsey = true
      · simp only [hf, if_true, Option.some.injEq, Prod.mk.injEq] at he ⊢
        obtain ⟨rfl, rfl⟩ := he
        exact sb_to (.refl _) (by simp [exitPc, bytes_append, bytes, Instr.size, hsz]; omega)
      · simp only [hf, Bool.false_eq_true, if_false] at he ⊢
        cases hb : evalP fuel g1 body with
        | none => simp [hb] at he
        | some r =>
          obtain ⟨g2, f2⟩ := r
          simp only [hb] at he
          have h1 := hP body C K (pos + bytes cc + 3) _ (me :: ctx) stk g1 g2 f2 B (hcb ▸ hbody) (poolAt_right hp) hb (by omega)
          rw [hcb] at h1
          cases ha : loopAct lbl f2 with
          | again =>
            simp only [ha] at he
            have h2 := hS (.whileS lbl c body) C K pos k ctx stk g2 g' f B hloop (by simpa [constsS] using hp) he hBl
            simp only [compileS, hcc, hme, hcb] at h2
            rcases exitPc_again (ctx := ctx) (e := pos + bytes cc + 3 + bytes cb) (hml ▸ ha) with e | e
            · exact sb_trans (sb_to h1 (by rw [e])) (sb_trans (sb_one (step_jump hback) (by bnd)) h2)
            · exact sb_trans (sb_to h1 (by rw [e, hmb])) h2
          | exit =>
            simp only [ha, Option.some.injEq, Prod.mk.injEq] at he
            obtain ⟨rfl, rfl⟩ := he
            exact sb_to h1 (by rw [exitPc_exit (hml ▸ ha), hmend]; simp [exitPc, bytes_append, bytes, Instr.size, hsz]; omega)
          | propagate =>
            simp only [ha, Option.some.injEq, Prod.mk.injEq] at he
            obtain ⟨rfl, rfl⟩ := he
            exact sb_to h1 (by rw [exitPc_propagate (hml ▸ ha)])

/-- **soundness of the statement compiler with a static stack bound**, for every fuel: `Core.sound_all`
again, every run now a `StepsB` run within any `B ≥ stk.length + depthS s` (`depthP ss`): all the states
of the run — through every iteration of every loop — keep at most `B` values on the operand stack. -/
theorem sound_all_bounded : ∀ fuel, SoundSB fuel ∧ SoundPB fuel ∧ SoundVB fuel ∧ SoundIfVB fuel
  | 0 => soundB_zero
  | fuel+1 =>
    have ih := sound_all_bounded fuel
    have hI := soundIfVB_succ fuel ih.2.2.1
    ⟨soundSB_succ fuel ih.1 ih.2.1 hI, soundPB_succ fuel ih.1 ih.2.1, soundVB_succ fuel ih.1 ih.2.2.1 ih.2.2.2, hI⟩

/-- `Core.compileS_correct` with the stack bound `stk.length + depthS s` -/
theorem compileS_correct_bounded (fuel : Nat) (s : CStmt) (C : List Instr) (K : List Val) (pos k : Nat) (ctx : List LoopCtx)
    (stk g g' : List Val) (f : Flow)
    (h : codeAt C pos (compileS pos k ctx s)) (hp : poolAt K k (constsS s)) (he : evalS fuel g s = some (g', f)) :
    StepsB C K (stk.length + depthS s) ⟨pos, stk, g⟩ ⟨exitPc ctx (pos + bytes (compileS pos k ctx s)) f, stk, g'⟩ :=
  (sound_all_bounded fuel).1 s C K pos k ctx stk g g' f _ h hp he (Nat.le_refl _)

/-- `Core.compileP_correct` with the stack bound `stk.length + depthP ss`: every statement sequence runs
from a stack back to the same stack, never more than `depthP ss` values above it; ends as
`Core.compileP_correct` says (normal: the end of the code; `break l` / `continue l`: the end / the
beginning of the loop `ctx` resolves `l` to) -/
theorem compileP_correct_bounded (fuel : Nat) (ss : List CStmt) (C : List Instr) (K : List Val) (pos k : Nat) (ctx : List LoopCtx)
    (stk g g' : List Val) (f : Flow)
    (h : codeAt C pos (compileP pos k ctx ss)) (hp : poolAt K k (constsP ss)) (he : evalP fuel g ss = some (g', f)) :
    StepsB C K (stk.length + depthP ss) ⟨pos, stk, g⟩ ⟨exitPc ctx (pos + bytes (compileP pos k ctx ss)) f, stk, g'⟩ :=
  (sound_all_bounded fuel).2.1 ss C K pos k ctx stk g g' f _ h hp he (Nat.le_refl _)

/-- `Core.program_correct` within any bound `B ≥ depthP ss` -/
theorem program_correct_bounded (fuel : Nat) (ss : List CStmt) (g g' : List Val) (B : Nat)
    (he : evalP fuel g ss = some (g', .normal)) (hB : depthP ss ≤ B) :
    StepsB (compileP 0 0 [] ss) (constsP ss) B ⟨0, [], g⟩ ⟨bytes (compileP 0 0 [] ss), [], g'⟩ := by
  have := (sound_all_bounded fuel).2.1 ss (compileP 0 0 [] ss) (constsP ss) 0 0 [] [] g g' .normal B
    (Chain.codeAt_self _) (Chain.poolAt_self _) he (by simpa using hB)
  simpa [exitPc] using this

/-! ## the chain for programs -/

open P2sh.RefProg (wfP toStmts GR Coupled visAfterP)

/-- **the program-level chain: the oracle's run of a whole program is the run of the VM model on the real
bytecode.**

* `ss`: any core program — `let` anywhere, expression statements, blocks, `while`, `loop`, labelled and
  plain `break` / `continue`, statement-level `if`, nested arbitrarily — that is well-scoped (`hok`:
  `RefProg.wfP nm N [] ss`, see `Props/RefProg.lean`: every global an expression mentions is the one its
  name resolves to, slots below `N`); `toStmts nm ln ss` is its AST;
* `h`: the oracle (`Spec/Ref.lean`, `Ref.evalStmts`), started as `Driver/LangDrv.lean` starts it (one
  empty scope, the empty state, `last = null`), ends **normally** (for some fuel) with value `v`,
  environment `env'` and state `st'`;
* `main`: the function `Vm.run` runs: its code is `Core.encode (Core.compileP 0 0 [] ss)` — the bytes
  the `core` correspondence op compares with the real compiler's — with a `lines` table covering it;
* the constant pool is `Core.constsP ss`; `hK`: no constant is an array / map reference;
* `hfit`: every operand fits its width (what `Core.compileChecked` checks);
* `hn`: the `N` global slots fit the VM's globals array; `hd`: `depthP ss ≤ STACK_SIZE`.

Then `Vm.run` (for some fuel) ends **normally** in a state `vs'` that stands for the core state
`⟨end of code, [], g'⟩` (`Rel`): the operand stack is empty (`sp = 0`), the globals array holds `g'`
(`N` values, then nulls), and `g'` is related to the oracle's final environment and state by RefProg's
relation `GR` — spelled out in the last conjunct: **every name visible at the end of the program
(`globalIndex (visAfterP nm [] ss) name = some i`: slot `i` is what the compiler's symbol table resolves
`name` to) is bound in the oracle's final environment to a global cell `c`, and that cell holds exactly
the value in slot `i` of the VM's globals array.** -/
theorem oracle_program_vm {nm : Nat → String} {ln N fuel : Nat} {ss : List CStmt} {env' : Ref.Env} {st' : Ref.St} {v : Val}
    (hok : wfP nm N [] ss = true)
    (h : RefCore.run (Ref.evalStmts fuel [[]] (toStmts nm ln ss) .null) {} = (.ok (.normal, v, env'), st'))
    (main : FnDef) (hcode : main.code = encode (compileP 0 0 [] ss))
    (hlines : main.code.length ≤ main.lines.length)
    (hK : ∀ c ∈ constsP ss, scalar c = true) (hn : N ≤ P2sh.Gen.Limits.GLOBALS_SIZE)
    (hfit : (compileP 0 0 [] ss).all fitsI = true) (hd : depthP ss ≤ Vm.stackSize) :
    ∃ fuelV vs' g', Vm.run main (constsP ss) fuelV = (.ok (), vs') ∧
      Rel (compileP 0 0 [] ss) (constsP ss) ⟨bytes (compileP 0 0 [] ss), [], g'⟩ vs' ∧
      vs'.sp = 0 ∧ g'.length = N ∧ (∀ i, vs'.globals.getD i .null = g'.getD i .null) ∧
      GR (visAfterP nm [] ss) env' st' g' ∧
      (∀ name i, Core.globalIndex (visAfterP nm [] ss) name = some i →
        ∃ c, Ref.lookupEnv name env' = some (.g c) ∧ st'.cells.getD c .null = vs'.globals.getD i .null) := by
  have hlen : (List.replicate N Val.null).length = N := List.length_replicate
  obtain ⟨f', g', fl', hfl, hev, hgl, -, hgr⟩ :=
    RefProg.ref_stmts_core (g := List.replicate N .null) (RefProg.GR.init N) (by rw [hlen]; exact hok) h
  have : fl' = .normal := by cases fl' <;> first | rfl | cases hfl
  subst this
  have steps := program_correct_bounded f' ss _ g' Vm.stackSize hev hd
  obtain ⟨fuelV, vs', hrun, R'⟩ := CoreVm.run_refines_bounded main N hcode hlines hK hn hfit steps rfl
  have hsp : vs'.sp = 0 := by
    have := R'.stack.length
    simpa using this.symm
  refine ⟨fuelV, vs', g', hrun, R', hsp, by rw [hgl, hlen], Chain.rel_globals R', hgr rfl, ?_⟩
  intro name i hi
  obtain ⟨c, hlk, hval, -⟩ := (hgr rfl).lookup hi
  exact ⟨c, hlk, by rw [hval]; exact (Chain.rel_globals R' i).symm⟩

/-! ## the error direction

`RefProg.ref_stmts_error_core` turns a runtime error of the oracle into `∀ f, Core.evalP f g ss = none`,
which a program that loops forever satisfies as well.  To reach the VM we need more: *where* the
evaluation fails.  `Fail g item` is the genuine failure of Core's evaluation of a statement / statement
list from globals `g`: an expression of it evaluates to `none` after finitely many completed statements
and loop iterations (each witnessed by a successful `evalS` / `evalP`).  Two steps:

* `fail_machine` (Core only): `Fail` ⇒ the machine, running the compiled code within the stack bound,
  reaches a state at an operator / unary instruction that fails on its operands (`Chain.Fails`);
* `ref_stmts_fail` (oracle ⇒ Core): when the oracle ends in a runtime error, `Fail` holds — an
  induction on the oracle's fuel along the lines of `RefProg.all_okG`, which is used as a black box for
  everything that ends normally; termination comes from the oracle's run. -/

inductive Item where
  | s (s : CStmt)
  | p (ss : List CStmt)

/-- Core's evaluation of the statement / statement list from `g` fails in an expression (which
mentions existing globals only), after finitely many completed statements / iterations -/
inductive Fail : List Val → Item → Prop
  | letG {g i e} : eval g e = none → RefCore.globalsBelow g.length e = true → Fail g (.s (.letG i e))
  | expr {g e} : eval g e = none → RefCore.globalsBelow g.length e = true → Fail g (.s (.expr e))
  | block {g body} : Fail g (.p body) → Fail g (.s (.block body))
  | whileC {g lbl c body} : eval g c = none → RefCore.globalsBelow g.length c = true → Fail g (.s (.whileS lbl c body))
  | whileB {g lbl c body vc g1} : eval g c = some (vc, g1) → vc.isFalsey = false → Fail g1 (.p body) →
      Fail g (.s (.whileS lbl c body))
  | whileN {g lbl c body vc g1 f g2 fl} : eval g c = some (vc, g1) → vc.isFalsey = false →
      evalP f g1 body = some (g2, fl) → loopAct lbl fl = .again → Fail g2 (.s (.whileS lbl c body)) →
      Fail g (.s (.whileS lbl c body))
  | loopB {g lbl body} : Fail g (.p body) → Fail g (.s (.loopS lbl body))
  | loopN {g lbl body f g2 fl} : evalP f g body = some (g2, fl) → loopAct lbl fl = .again →
      Fail g2 (.s (.loopS lbl body)) → Fail g (.s (.loopS lbl body))
  | ifC {g c t e} : eval g c = none → RefCore.globalsBelow g.length c = true → Fail g (.s (.ifS c t e))
  | ifT {g c t e vc g1} : eval g c = some (vc, g1) → vc.isFalsey = false → Fail g1 (.p t) → Fail g (.s (.ifS c t e))
  | ifE {g c t e vc g1} : eval g c = some (vc, g1) → vc.isFalsey = true → Fail g1 (.p e) → Fail g (.s (.ifS c t e))
  | head {g s rest} : Fail g (.s s) → Fail g (.p (s :: rest))
  | tail {g s rest f g1} : evalS f g s = some (g1, .normal) → Fail g1 (.p rest) → Fail g (.p (s :: rest))

/-- the machine, started at `pos` with stack `stk` and globals `g`, reaches within the bound `B` a
state at an operator / unary instruction that fails on the operands on the stack -/
def MFail (C : List Instr) (K : List Val) (B pos : Nat) (stk g : List Val) : Prop :=
  ∃ s, StepsB C K B ⟨pos, stk, g⟩ s ∧ Chain.Fails C s

theorem MFail.pre {C K B pos stk g pos' stk' g'} (h1 : StepsB C K B ⟨pos, stk, g⟩ ⟨pos', stk', g'⟩)
    (h2 : MFail C K B pos' stk' g') : MFail C K B pos stk g :=
  let ⟨s, hs, hF⟩ := h2
  ⟨s, sb_trans h1 hs, hF⟩

/-- the code of a statement without the final `Pop` of an expression statement (which a failing run
never reaches, and which is missing when the statement is the last one of a branch) -/
def preS (pos k : Nat) (ctx : List LoopCtx) : CStmt → List Instr
  | .expr e => compile pos k e
  | .ifS c t e => ifV pos k ctx c t e
  | .letG i e => compileS pos k ctx (.letG i e)
  | .block b => compileS pos k ctx (.block b)
  | .whileS l c b => compileS pos k ctx (.whileS l c b)
  | .loopS l b => compileS pos k ctx (.loopS l b)
  | .breakS l => compileS pos k ctx (.breakS l)
  | .continueS l => compileS pos k ctx (.continueS l)

theorem compileS_pre (pos k : Nat) (ctx : List LoopCtx) (s : CStmt) :
    compileS pos k ctx s = preS pos k ctx s ++ (if s.isExprStmt then [.pop] else []) := by
  cases s with
  | expr e => simp [preS, CStmt.isExprStmt, compileS]
  | ifS c t e => simp [preS, CStmt.isExprStmt, compileS_ifS]
  | _ => simp [preS, CStmt.isExprStmt]

theorem valueOf_pre (pos k : Nat) (ctx : List LoopCtx) (s : CStmt) :
    valueOf s.isExprStmt (compileS pos k ctx s) = preS pos k ctx s ++ (if s.isExprStmt then [] else [.null]) := by
  cases s with
  | expr e => rw [valueOf_expr]; simp [preS, CStmt.isExprStmt]
  | ifS c t e => rw [valueOf_ifS]; simp [preS, CStmt.isExprStmt]
  | _ => rw [valueOf_other _ _ _ _ rfl]; simp [preS, CStmt.isExprStmt]

theorem codeAt_preS {C pos k ctx s} (h : codeAt C pos (compileS pos k ctx s)) : codeAt C pos (preS pos k ctx s) := by
  rw [compileS_pre] at h; exact codeAt_left h

/-- entering a `while` loop whose condition is truthy -/
theorem while_enter {C : List Instr} {K : List Val} {pos k : Nat} {ctx : List LoopCtx} {stk g : List Val}
    {lbl : Option String} {c : CExpr} {body : List CStmt} {vc : Val} {g1 : List Val} {B : Nat}
    (h : codeAt C pos (compileS pos k ctx (.whileS lbl c body))) (hp : poolAt K k (constsS (.whileS lbl c body)))
    (hec : eval g c = some (vc, g1)) (hf : vc.isFalsey = false) (hB : stk.length + depth c ≤ B) :
    StepsB C K B ⟨pos, stk, g⟩ ⟨pos + bytes (compile pos k c) + 3, stk, g1⟩ ∧
    codeAt C (pos + bytes (compile pos k c) + 3)
      (compileP (pos + bytes (compile pos k c) + 3) (k + (consts c).length)
        (⟨lbl, pos, pos + bytes (compile pos k c) + 3 + sizeP body + 3⟩ :: ctx) body) ∧
    poolAt K (k + (consts c).length) (constsP body) ∧
    codeAt C (pos + bytes (compile pos k c) + 3 + sizeP body) [Instr.jump pos] := by
  simp only [constsS] at hp
  simp only [compileS] at h
  have hpc := depth_pos c
  generalize hcc : compile pos k c = cc at *
  generalize hcb : compileP (pos + bytes cc + 3) (k + (consts c).length)
    (⟨lbl, pos, pos + bytes cc + 3 + sizeP body + 3⟩ :: ctx) body = cb at *
  have hsz : bytes cb = sizeP body := by rw [← hcb, bytes_compileP]
  have hc := compile_correct_bounded c C K pos k stk g vc g1 B (hcc ▸ codeAt_mid [] cc _ (by simpa using h))
    (poolAt_left hp) hec hB
  rw [hcc] at hc
  have hj : codeAt C (pos + bytes cc) [Instr.jif (pos + bytes cc + 3 + sizeP body + 3)] :=
    codeAt_mid cc [_] (cb ++ [.jump pos]) (by simpa using h)
  have hbody : codeAt C (pos + bytes cc + 3) cb :=
    (codeAt_right (codeAt_left h)).to (by posarith)
  have hback : codeAt C (pos + bytes cc + 3 + bytes cb) [Instr.jump pos] :=
    (codeAt_right h).to (by posarith)
  refine ⟨sb_trans hc (sb_to (sb_one (step_jif hj) (by bnd)) (by simp [hf])), hbody, poolAt_right hp, ?_⟩
  rw [← hsz]; exact hback

/-- the condition of an `if` in statement / value position, and where its branches are -/
theorem if_enter {C : List Instr} {K : List Val} {pos k : Nat} {ctx : List LoopCtx} {stk g : List Val}
    {c : CExpr} {thn els : List CStmt} {vc : Val} {g1 : List Val} {B : Nat}
    (h : codeAt C pos (ifV pos k ctx c thn els)) (hp : poolAt K k (consts c ++ constsP thn ++ constsP els))
    (hec : eval g c = some (vc, g1)) (hB : stk.length + depth c ≤ B) :
    ∃ pt pe, StepsB C K B ⟨pos, stk, g⟩ ⟨if vc.isFalsey then pe else pt, stk, g1⟩ ∧
      codeAt C pt (branchV pt (k + (consts c).length) ctx thn) ∧ poolAt K (k + (consts c).length) (constsP thn) ∧
      codeAt C pe (branchV pe (k + (consts c).length + (constsP thn).length) ctx els) ∧
      poolAt K (k + (consts c).length + (constsP thn).length) (constsP els) := by
  have hpc := depth_pos c
  simp only [ifV] at h
  generalize hcc : compile pos k c = cc at *
  generalize hct : branchV (pos + bytes cc + 3) (k + (consts c).length) ctx thn = ct at *
  generalize hce : branchV (pos + bytes cc + 3 + bytes ct + 3) (k + (consts c).length + (constsP thn).length) ctx els = ce at *
  have hc := compile_correct_bounded c C K pos k stk g vc g1 B (hcc ▸ codeAt_mid [] cc _ (by simpa using h))
    (poolAt_left (poolAt_left hp)) hec hB
  rw [hcc] at hc
  have hj : codeAt C (pos + bytes cc) [Instr.jif (pos + bytes cc + 3 + bytes ct + 3)] :=
    codeAt_mid cc [_] (ct ++ [.jump (pos + bytes cc + 3 + bytes ct + 3 + bytes ce)] ++ ce) (by simpa using h)
  have htt : codeAt C (pos + bytes cc + 3) ct :=
    (codeAt_right (codeAt_left (codeAt_left h))).to (by posarith)
  have hee : codeAt C (pos + bytes cc + 3 + bytes ct + 3) ce :=
    (codeAt_right h).to (by posarith)
  have hpt : poolAt K (k + (consts c).length) (constsP thn) := poolAt_right (poolAt_left hp)
  have hpe : poolAt K (k + (consts c).length + (constsP thn).length) (constsP els) := by
    have := poolAt_right hp
    simpa [Nat.add_assoc] using this
  refine ⟨pos + bytes cc + 3, pos + bytes cc + 3 + bytes ct + 3,
    sb_trans hc (sb_one (step_jif (stk := stk) (g := g1) (v := vc) (K := K) hj) (by bnd)), ?_, hpt, ?_, hpe⟩
  · rw [hct]; exact htt
  · subst hct
    rw [hce]; exact hee

/-- what `Fail` means for the machine -/
def FailSpec (g : List Val) : Item → Prop
  | .s s => ∀ (C : List Instr) (K : List Val) (pos k : Nat) (ctx : List LoopCtx) (stk : List Val) (B : Nat),
      codeAt C pos (preS pos k ctx s) → poolAt K k (constsS s) → stk.length + depthS s ≤ B → MFail C K B pos stk g
  | .p ss =>
    (∀ (C : List Instr) (K : List Val) (pos k : Nat) (ctx : List LoopCtx) (stk : List Val) (B : Nat),
      codeAt C pos (compileP pos k ctx ss) → poolAt K k (constsP ss) → stk.length + depthP ss ≤ B →
      MFail C K B pos stk g) ∧
    (∀ (C : List Instr) (K : List Val) (pos k : Nat) (ctx : List LoopCtx) (stk : List Val) (B : Nat),
      codeAt C pos (branchV pos k ctx ss) → poolAt K k (constsP ss) → stk.length + depthP ss ≤ B → stk.length + 1 ≤ B →
      MFail C K B pos stk g)

/-- after the body of a loop ended in a flow that makes the loop iterate again, the machine gets back to
the loop's beginning -/
theorem loop_back {C : List Instr} {K : List Val} {B pos endb : Nat} {me : LoopCtx} {ctx : List LoopCtx} {stk g2 : List Val}
    {fl : Flow} {s0 : Core.St} (ha : loopAct me.label fl = .again) (hmb : me.begin = pos)
    (h1 : StepsB C K B s0 ⟨exitPc (me :: ctx) endb fl, stk, g2⟩) (hback : codeAt C endb [Instr.jump pos])
    (hB : stk.length ≤ B) : StepsB C K B s0 ⟨pos, stk, g2⟩ := by
  rcases exitPc_again (ctx := ctx) (e := endb) ha with e | e
  · exact sb_trans (sb_to h1 (by rw [e])) (sb_one (step_jump hback) hB)
  · exact sb_to h1 (by rw [e, hmb])

theorem fail_machine {g : List Val} {item : Item} (h : Fail g item) : FailSpec g item := by
  induction h with
  | letG he hg =>
    simp only [FailSpec]
    intro C K pos k ctx stk B h hp hB
    simp only [preS, compileS] at h
    simp only [constsS] at hp
    simp only [depthS] at hB
    exact Chain.eval_none_fails _ C K pos k stk _ B (codeAt_left h) hp he hg hB
  | expr he hg =>
    simp only [FailSpec]
    intro C K pos k ctx stk B h hp hB
    simp only [preS] at h
    simp only [constsS] at hp
    simp only [depthS] at hB
    exact Chain.eval_none_fails _ C K pos k stk _ B h hp he hg hB
  | block _ ih =>
    simp only [FailSpec] at ih ⊢
    intro C K pos k ctx stk B h hp hB
    simp only [preS, compileS] at h
    simp only [constsS] at hp
    simp only [depthS] at hB
    exact ih.1 C K pos k ctx stk B h hp hB
  | whileC he hg =>
    simp only [FailSpec]
    intro C K pos k ctx stk B h hp hB
    simp only [preS, compileS] at h
    simp only [constsS] at hp
    simp only [depthS] at hB
    exact Chain.eval_none_fails _ C K pos k stk _ B (codeAt_left (codeAt_left (codeAt_left h))) (poolAt_left hp) he hg (by omega)
  | whileB he hf _ ih =>
    simp only [FailSpec] at ih ⊢
    intro C K pos k ctx stk B h hp hB
    simp only [preS] at h
    obtain ⟨s1, hbody, hpb, -⟩ := while_enter (stk := stk) (B := B) h hp he hf (by simp only [depthS] at hB; omega)
    exact MFail.pre s1 (ih.1 C K _ _ _ stk B hbody hpb (by simp only [depthS] at hB; omega))
  | @whileN g lbl c body vc g1 f g2 fl he hf hb ha _ ih =>
    simp only [FailSpec] at ih ⊢
    intro C K pos k ctx stk B h hp hB
    have hpre := h
    simp only [preS] at h
    obtain ⟨s1, hbody, hpb, hback⟩ := while_enter (stk := stk) (B := B) h hp he hf (by simp only [depthS] at hB; omega)
    have s2 := (sound_all_bounded f).2.1 body C K _ _ _ stk g1 g2 fl B hbody hpb hb (by simp only [depthS] at hB; omega)
    rw [bytes_compileP] at s2
    have s3 := loop_back (me := ⟨lbl, pos, _⟩) ha rfl s2 hback (by omega)
    exact MFail.pre (sb_trans s1 s3) (ih C K pos k ctx stk B hpre hp hB)
  | loopB _ ih =>
    simp only [FailSpec] at ih ⊢
    intro C K pos k ctx stk B h hp hB
    simp only [preS, compileS] at h
    simp only [constsS] at hp
    simp only [depthS] at hB
    exact ih.1 C K pos k _ stk B (codeAt_left h) hp hB
  | @loopN g lbl body f g2 fl hb ha _ ih =>
    simp only [FailSpec] at ih ⊢
    intro C K pos k ctx stk B h hp hB
    have hpre := h
    have hpp := hp
    simp only [preS, compileS] at h
    simp only [constsS] at hp
    have s2 := (sound_all_bounded f).2.1 body C K _ _ _ stk g g2 fl B (codeAt_left h) hp hb (by simp only [depthS] at hB; omega)
    have s3 := loop_back (me := ⟨lbl, pos, _⟩) ha rfl s2 (codeAt_right h) (by omega)
    exact MFail.pre s3 (ih C K pos k ctx stk B hpre hpp hB)
  | ifC he hg =>
    simp only [FailSpec]
    intro C K pos k ctx stk B h hp hB
    simp only [preS, ifV] at h
    simp only [constsS] at hp
    simp only [depthS] at hB
    exact Chain.eval_none_fails _ C K pos k stk _ B (codeAt_left (codeAt_left (codeAt_left (codeAt_left h))))
      (poolAt_left (poolAt_left hp)) he hg (by omega)
  | @ifT g c t e vc g1 he hf _ ih =>
    simp only [FailSpec] at ih ⊢
    intro C K pos k ctx stk B h hp hB
    simp only [preS] at h
    simp only [constsS] at hp
    simp only [depthS] at hB
    have hpc := depth_pos c
    obtain ⟨pt, pe, s1, htt, hpt, -, -⟩ := if_enter (stk := stk) (B := B) h hp he (by omega)
    simp only [hf, Bool.false_eq_true, if_false] at s1
    exact MFail.pre s1 (ih.2 C K pt _ ctx stk B htt hpt (by omega) (by omega))
  | @ifE g c t e vc g1 he hf _ ih =>
    simp only [FailSpec] at ih ⊢
    intro C K pos k ctx stk B h hp hB
    simp only [preS] at h
    simp only [constsS] at hp
    simp only [depthS] at hB
    have hpc := depth_pos c
    obtain ⟨pt, pe, s1, -, -, hee, hpe⟩ := if_enter (stk := stk) (B := B) h hp he (by omega)
    simp only [hf, if_true] at s1
    exact MFail.pre s1 (ih.2 C K pe _ ctx stk B hee hpe (by omega) (by omega))
  | @head g s rest _ ih =>
    simp only [FailSpec] at ih ⊢
    refine ⟨?_, ?_⟩
    · intro C K pos k ctx stk B h hp hB
      simp only [compileP] at h
      simp only [constsP] at hp
      simp only [depthP] at hB
      exact ih C K pos k ctx stk B (codeAt_preS (codeAt_left h)) (poolAt_left hp) (by omega)
    · intro C K pos k ctx stk B h hp hB _
      simp only [constsP] at hp
      simp only [depthP] at hB
      cases rest with
      | nil =>
        rw [branchV_single, valueOf_pre] at h
        exact ih C K pos k ctx stk B (codeAt_left h) (poolAt_left hp) (by omega)
      | cons s2 rest2 =>
        rw [branchV_cons2] at h
        exact ih C K pos k ctx stk B (codeAt_preS (codeAt_left h)) (poolAt_left hp) (by omega)
  | @tail g s rest f g1 hs hrest ih =>
    simp only [FailSpec] at ih ⊢
    refine ⟨?_, ?_⟩
    · intro C K pos k ctx stk B h hp hB
      simp only [compileP] at h
      simp only [constsP] at hp
      simp only [depthP] at hB
      have s1 := (sound_all_bounded f).1 s C K pos k ctx stk g g1 .normal B (codeAt_left h) (poolAt_left hp) hs (by omega)
      exact MFail.pre s1 (ih.1 C K _ _ ctx stk B (codeAt_right h) (poolAt_right hp) (by omega))
    · intro C K pos k ctx stk B h hp hB hB1
      simp only [constsP] at hp
      simp only [depthP] at hB
      cases rest with
      | nil => cases hrest
      | cons s2 rest2 =>
        rw [branchV_cons2] at h
        have s1 := (sound_all_bounded f).1 s C K pos k ctx stk g g1 .normal B (codeAt_left h) (poolAt_left hp) hs (by omega)
        exact MFail.pre s1 (ih.2 C K _ _ ctx stk B (codeAt_right h) (poolAt_right hp) (by omega) hB1)

/-- what `Fail` means for the fuel-indexed evaluation: no fuel makes it end -/
def NoneSpec (g : List Val) : Item → Prop
  | .s s => ∀ f, evalS f g s = none
  | .p ss => ∀ f, evalP f g ss = none

/-- `Fail` is a failure of `Core.evalS` / `Core.evalP` for every fuel (the converse does not hold: a
program that loops forever has no result for any fuel either, and does not `Fail`) -/
theorem Fail.none {g : List Val} {item : Item} (h : Fail g item) : NoneSpec g item := by
  induction h with
  | letG he _ => simp only [NoneSpec]; intro f; cases f <;> simp [evalS, he]
  | expr he _ => simp only [NoneSpec]; intro f; cases f <;> simp [evalS, he]
  | block _ ih =>
    simp only [NoneSpec] at ih ⊢
    intro f
    cases f with
    | zero => rfl
    | succ k => simp only [evalS, ih k]
  | whileC he _ => simp only [NoneSpec]; intro f; cases f <;> simp [evalS, he]
  | whileB he hf _ ih =>
    simp only [NoneSpec] at ih ⊢
    intro f
    cases f with
    | zero => rfl
    | succ k => simp [evalS, he, hf, ih k]
  | whileN he hf hb ha _ ih =>
    simp only [NoneSpec] at ih ⊢
    intro f
    cases f with
    | zero => rfl
    | succ k =>
      simp only [evalS, he, hf, Bool.false_eq_true, if_false]
      cases hk : evalP k _ _ with
      | none => rfl
      | some r =>
        obtain rfl := RefProg.evalP_det hk hb
        simp only [ha]
        exact ih k
  | loopB _ ih =>
    simp only [NoneSpec] at ih ⊢
    intro f
    cases f with
    | zero => rfl
    | succ k => simp [evalS, ih k]
  | loopN hb ha _ ih =>
    simp only [NoneSpec] at ih ⊢
    intro f
    cases f with
    | zero => rfl
    | succ k =>
      simp only [evalS]
      cases hk : evalP k _ _ with
      | none => rfl
      | some r =>
        obtain rfl := RefProg.evalP_det hk hb
        simp only [ha]
        exact ih k
  | ifC he _ => simp only [NoneSpec]; intro f; cases f <;> simp [evalS, he]
  | ifT he hf _ ih =>
    simp only [NoneSpec] at ih ⊢
    intro f
    cases f with
    | zero => rfl
    | succ k => simp [evalS, he, hf, ih k]
  | ifE he hf _ ih =>
    simp only [NoneSpec] at ih ⊢
    intro f
    cases f with
    | zero => rfl
    | succ k => simp [evalS, he, hf, ih k]
  | head _ ih =>
    simp only [NoneSpec] at ih ⊢
    intro f
    cases f with
    | zero => rfl
    | succ k => simp only [evalP, ih k]
  | tail hs _ ih =>
    simp only [NoneSpec] at ih ⊢
    intro f
    cases f with
    | zero => rfl
    | succ k =>
      simp only [evalP]
      cases hk : evalS k _ _ with
      | none => rfl
      | some r =>
        obtain rfl := RefProg.evalS_det hk hs
        exact ih k

end P2sh.ChainProg


/-! ### the oracle's runtime error is a genuine failure of Core's evaluation -/

namespace P2sh.ChainProg
open P2sh P2sh.Ref P2sh.RefCore P2sh.RefProg
open P2sh.Core (CExpr CArms CPat UnOp CStmt)

theorem globalsSatArms_below {P : Nat → Bool} {n : Nat} :
    ∀ arms : CArms, arms.All (fun e => globalsSat P e = true → globalsBelow n e = true) →
      globalsSatArms P arms = true → globalsBelowArms n arms = true := by
  intro arms
  induction arms using CArms.ind with
  | last d =>
    intro hall h
    simp only [CArms.All] at hall
    simp only [globalsSatArms] at h
    simp only [globalsBelowArms]
    exact hall h
  | cons pats body rest ih =>
    intro hall h
    simp only [CArms.All] at hall
    simp only [globalsSatArms, Bool.and_eq_true] at h
    simp only [globalsBelowArms, Bool.and_eq_true]
    exact ⟨hall.1 h.1, ih hall.2 h.2⟩

/-- globals that satisfy a predicate which implies `< n` are below `n` -/
theorem globalsSat_below {P : Nat → Bool} {n : Nat} (hP : ∀ k, P k = true → k < n) :
    ∀ e : CExpr, globalsSat P e = true → globalsBelow n e = true := by
  intro e
  induction e with
  | lit | tru | fls | null => intro _; simp [globalsBelow]
  | gget i =>
    intro h
    simp only [globalsSat] at h
    simp only [globalsBelow, decide_eq_true_eq]
    exact hP i h
  | un op a ih =>
    intro h
    simp only [globalsSat] at h
    simp only [globalsBelow]
    exact ih h
  | bin op a b iha ihb =>
    intro h
    simp only [globalsSat, Bool.and_eq_true] at h
    simp only [globalsBelow, Bool.and_eq_true]
    exact ⟨iha h.1, ihb h.2⟩
  | lt a b iha ihb =>
    intro h
    simp only [globalsSat, Bool.and_eq_true] at h
    simp only [globalsBelow, Bool.and_eq_true]
    exact ⟨iha h.1, ihb h.2⟩
  | le a b iha ihb =>
    intro h
    simp only [globalsSat, Bool.and_eq_true] at h
    simp only [globalsBelow, Bool.and_eq_true]
    exact ⟨iha h.1, ihb h.2⟩
  | and a b iha ihb =>
    intro h
    simp only [globalsSat, Bool.and_eq_true] at h
    simp only [globalsBelow, Bool.and_eq_true]
    exact ⟨iha h.1, ihb h.2⟩
  | or a b iha ihb =>
    intro h
    simp only [globalsSat, Bool.and_eq_true] at h
    simp only [globalsBelow, Bool.and_eq_true]
    exact ⟨iha h.1, ihb h.2⟩
  | ite c t e ihc iht ihe =>
    intro h
    simp only [globalsSat, Bool.and_eq_true] at h
    simp only [globalsBelow, Bool.and_eq_true]
    exact ⟨⟨ihc h.1.1, iht h.1.2⟩, ihe h.2⟩
  | gset i a ih =>
    intro h
    simp only [globalsSat, Bool.and_eq_true] at h
    simp only [globalsBelow, Bool.and_eq_true, decide_eq_true_eq]
    exact ⟨hP i h.1, ih h.2⟩
  | matchE s arms ihs iharms =>
    intro h
    simp only [globalsSat, Bool.and_eq_true] at h
    simp only [globalsBelow, Bool.and_eq_true]
    exact ⟨ihs h.1, globalsSatArms_below arms iharms h.2⟩

/-- under the relation, an expression whose globals resolve mentions existing slots only -/
theorem gr_below {nm : Nat → String} {vis : Core.Vis} {env : Env} {st : St} {g : List Val} (hr : GR vis env st g)
    {P : Nat → Bool} (hP : ∀ k, P k = true → Core.globalIndex vis (nm k) = some k) (e : CExpr)
    (h : globalsSat P e = true) : globalsBelow g.length e = true :=
  globalsSat_below (fun k hk => by
    obtain ⟨c, -, hic⟩ := hr.2.bound _ _ (hP k hk)
    exact (hr.1.ok k c hic).2.1) e h

/-- of a run: a runtime error implies `E` (nothing is said of the other outcomes) -/
abbrev ResF {α} (E : Prop) : Except Err α × St → Prop := Res (fun _ _ => True) E

theorem Res.comb {α} {P : α → St → Prop} {E E' : Prop} {o : Except Err α × St} (h1 : Res P E o) (h2 : ResF E' o) :
    Res P E' o := by
  rcases o with ⟨er | a, s1⟩
  · cases er <;> first | exact h2 | exact True.intro
  · exact h1

section InductionF
variable (nm : Nat → String) (ln N : Nat)

def StmtF (fuel : Nat) : Prop :=
  ∀ (s : CStmt) (vis : Core.Vis) (env : Env) (st : St) (g : List Val), g.length = N → GR vis env st g →
    wfS nm N vis s = true → ResF (Fail g (.s s)) (run (evalStmt fuel env (toStmt nm ln s)) st)

def StmtsF (fuel : Nat) : Prop :=
  ∀ (ss : List CStmt) (vis : Core.Vis) (env : Env) (st : St) (g : List Val) (last : Val), g.length = N → GR vis env st g →
    wfP nm N vis ss = true → ResF (Fail g (.p ss)) (run (evalStmts fuel env (toStmts nm ln ss) last) st)

def BlockF (fuel : Nat) : Prop :=
  ∀ (ss : List CStmt) (vis : Core.Vis) (env : Env) (st : St) (g : List Val), g.length = N → GR vis env st g →
    wfP nm N vis ss = true → ResF (Fail g (.p ss)) (run (evalBlock fuel env (.mk ln (toStmts nm ln ss))) st)

def LoopF (fuel : Nat) : Prop :=
  ∀ (lbl : Option String) (cond : Option CExpr) (body : List CStmt) (vis : Core.Vis) (env : Env) (st : St) (g : List Val),
    g.length = N → GR vis env st g → condOKG nm vis cond = true → wfP nm N vis body = true →
    ResF (Fail g (.s (mkLoop lbl cond body)))
      (run (evalLoop fuel env lbl (cond.map (toAst nm ln)) (.mk ln (toStmts nm ln body))) st)

def AllF (fuel : Nat) : Prop := StmtF nm ln N fuel ∧ StmtsF nm ln N fuel ∧ BlockF nm ln N fuel ∧ LoopF nm ln N fuel

theorem all_zeroF : AllF nm ln N 0 := by
  refine ⟨?_, ?_, ?_, ?_⟩
  · intro s vis env st g _ _ _; rw [evalStmt_zero]; exact True.intro
  · intro ss vis env st g last _ _ _; rw [evalStmts_zero]; exact True.intro
  · intro ss vis env st g _ _ _; rw [evalBlock_zero]; exact True.intro
  · intro lbl cond body vis env st g _ _ _ _; rw [evalLoop_zero]; exact True.intro

theorem stmts_succF (fuel : Nat) (hS : StmtF nm ln N fuel) (hP : StmtsF nm ln N fuel) : StmtsF nm ln N (fuel + 1) := by
  intro ss vis env st g last hg hr hwf
  cases ss with
  | nil =>
    rw [toStmts, evalStmts_nil]
    exact True.intro
  | cons s rest =>
    simp only [wfP, Bool.and_eq_true] at hwf
    rw [toStmts, evalStmts_cons]
    refine Res.bind (Res.comb ((all_okG nm ln N fuel).1 s vis env st g hg hr hwf.1) (hS s vis env st g hg hr hwf.1))
      Fail.head ?_
    rintro ⟨fl, v, env1⟩ s1 ⟨henv, hsub, fl', g1, f1, hfl, hev, hl1, hc1, hen1⟩
    have hev' : Core.evalS f1 g s = some (g1, fl') := hev
    have hfl' : fl = toFlow fl' := hfl
    subst hfl'
    cases fl' with
    | normal =>
      show ResF _ (run (evalStmts fuel env1 (toStmts nm ln rest) v) s1)
      exact Res.mono (fun _ _ _ => True.intro) (Fail.tail hev')
        (hP rest (visAfter nm vis s) env1 s1 g1 v (hl1.trans hg) ⟨hc1, hen1 rfl⟩ hwf.2)
    | brk l => exact True.intro
    | cont l => exact True.intro

theorem block_succF (fuel : Nat) (hP : StmtsF nm ln N fuel) : BlockF nm ln N (fuel + 1) := by
  intro ss vis env st g hg hr hwf
  rw [evalBlock_succ]
  refine Res.bind (hP ss vis ([] :: env) st g .null hg ⟨hr.1, hr.2.push⟩ hwf) id ?_
  intro _ _ _
  exact True.intro

theorem branchF (f0 : Nat) (hB : ∀ f', f' ≤ f0 → BlockF nm ln N f') (body : List CStmt) (vis : Core.Vis) (env : Env)
    (s1 : St) (g1 : List Val) (hg1 : g1.length = N) (hr1 : GR vis env s1 g1) (hwf : wfP nm N vis body = true) :
    ResF (Fail g1 (.p body)) (run (evalBranch f0 env (.mk ln (toStmts nm ln body)) >>= exprK) s1) := by
  cases f0 with
  | zero => rw [evalBranch_zero]; exact True.intro
  | succ f1 =>
    rw [evalBranch_succ, bind_assoc]
    refine Res.bind (hB f1 (Nat.le_succ f1) body vis env s1 g1 hg1 hr1 hwf) id ?_
    rintro ⟨fl, v, env1⟩ s2 -
    cases fl <;> exact True.intro

theorem stmt_succF (f : Nat) (ih : ∀ f', f' ≤ f → AllF nm ln N f') : StmtF nm ln N (f + 1) := by
  intro s vis env st g hg hr hwf
  cases s with
  | letG i e =>
    simp only [wfS, Bool.and_eq_true, decide_eq_true_eq] at hwf
    rw [toStmt, evalStmt_let]
    have hP : ∀ k, (resolves nm vis k && (nm k != nm i)) = true → Core.globalIndex vis (nm k) = some k :=
      fun k hk => resolves_sound k (by simp only [Bool.and_eq_true] at hk; exact hk.1)
    refine Res.bind (expr_bridgeG e f (fun k => resolves nm vis k && (nm k != nm i)) hP hr hwf.2)
      (fun h => Fail.letG h (gr_below hr hP e hwf.2)) ?_
    rintro r s1 ⟨v, g1, rfl, hv, he, hr1, hs1, hl1⟩
    have hi1 : i < g1.length := by rw [hl1, hg]; exact hwf.1
    show Res _ _ (run (if isGlobalEnv env then _ else _) s1)
    rw [hr.2.glob]
    simp only [if_true]
    obtain ⟨c, st2, hrun, -⟩ :=
      run_let_cell (fun c => (pure (Flow.normal, Val.null, bindTop (nm i) (.g c) env) : M (Flow × Val × Env))) s1 g1 i v hr1.1 hi1 hv
    have hrun' : run (siteCell i >>= fun c => setCell c v >>= fun _ =>
        (pure (Flow.normal, Val.null, bindTop (nm i) (.g c) env) : M (Flow × Val × Env))) s1 =
        (.ok (Flow.normal, Val.null, bindTop (nm i) (.g c) env), st2) := hrun
    rw [hrun']
    exact True.intro
  | expr e =>
    simp only [wfS] at hwf
    rw [toStmt, evalStmt_expr _ _ _ _ (fun l fn args h => toAst_not_call nm ln e l fn args h)]
    refine Res.bind (expr_bridgeG e f (resolves nm vis) (fun k hk => resolves_sound k hk) hr hwf)
      (fun h => Fail.expr h (gr_below hr (fun k hk => resolves_sound k hk) e hwf)) ?_
    rintro r s1 ⟨v, g1, rfl, -⟩
    exact True.intro
  | block body =>
    simp only [wfS] at hwf
    rw [toStmt, evalStmt_block]
    refine Res.bind ((ih f (Nat.le_refl f)).2.2.1 body vis env st g hg hr hwf) Fail.block ?_
    intro _ _ _
    exact True.intro
  | breakS l =>
    rw [toStmt, evalStmt_break]
    exact True.intro
  | continueS l =>
    rw [toStmt, evalStmt_continue]
    exact True.intro
  | whileS lbl c body =>
    simp only [wfS, Bool.and_eq_true] at hwf
    rw [toStmt, evalStmt_while]
    exact (ih f (Nat.le_refl f)).2.2.2 lbl (some c) body vis env st g hg hr hwf.1 hwf.2
  | loopS lbl body =>
    simp only [wfS] at hwf
    rw [toStmt, evalStmt_loop]
    exact (ih f (Nat.le_refl f)).2.2.2 lbl none body vis env st g hg hr rfl hwf
  | ifS c t e =>
    simp only [wfS, Bool.and_eq_true] at hwf
    rw [toStmt, evalStmt_expr _ _ _ _ (fun l fn args h => by cases h)]
    cases f with
    | zero => rw [evalE_zero]; exact True.intro
    | succ f0 =>
      rw [evalE_ite]
      unfold bindR
      rw [bind_assoc]
      refine Res.bind (expr_bridgeG c f0 (resolves nm vis) (fun k hk => resolves_sound k hk) hr hwf.1.1)
        (fun h => Fail.ifC h (gr_below hr (fun k hk => resolves_sound k hk) c hwf.1.1)) ?_
      rintro r s1 ⟨vc, g1, rfl, hvc, hec, hr1, hs1, hl1⟩
      dsimp only
      rw [truthy_scalar hvc, pure_bind, ← P2sh.Props.C06.falsey_table]
      have hB : ∀ f', f' ≤ f0 → BlockF nm ln N f' := fun f' hf' => (ih f' (Nat.le_succ_of_le hf')).2.2.1
      cases hfal : vc.isFalsey with
      | true =>
        simp only [Bool.not_true, Bool.false_eq_true, if_false]
        exact Res.mono (fun _ _ _ => True.intro) (Fail.ifE hec hfal)
          (branchF nm ln N f0 hB e vis env s1 g1 (hl1.trans hg) hr1 hwf.2)
      | false =>
        simp only [Bool.not_false, if_true]
        exact Res.mono (fun _ _ _ => True.intro) (Fail.ifT hec hfal)
          (branchF nm ln N f0 hB t vis env s1 g1 (hl1.trans hg) hr1 hwf.1.2)

theorem loop_bodyF (f : Nat) (hB : BlockF nm ln N f) (hL : LoopF nm ln N f) (lbl : Option String) (cond : Option CExpr)
    (body : List CStmt) (vis : Core.Vis) (env : Env) (s1 : St) (g1 : List Val)
    (hg1 : g1.length = N) (hr1 : GR vis env s1 g1) (hc : condOKG nm vis cond = true) (hwf : wfP nm N vis body = true)
    (E : Prop) (hEb : Fail g1 (.p body) → E)
    (hEn : ∀ f2 g2 fl, Core.evalP f2 g1 body = some (g2, fl) → Core.loopAct lbl fl = .again →
      Fail g2 (.s (mkLoop lbl cond body)) → E) :
    ResF E (run (evalBlock f env (.mk ln (toStmts nm ln body)) >>=
      loopBodyK f lbl (cond.map (toAst nm ln)) (.mk ln (toStmts nm ln body))) s1) := by
  refine Res.bind (Res.comb ((all_okG nm ln N f).2.2.1 body vis env s1 g1 hg1 hr1 hwf) (hB body vis env s1 g1 hg1 hr1 hwf))
    hEb ?_
  rintro ⟨fl, v, env1⟩ s2 ⟨henv, hsub2, fl', g2, f2, hfl, hev2, hl2, hc2⟩
  have henv' : env1 = env := henv
  have hfl' : fl = toFlow fl' := hfl
  have hev2' : Core.evalP f2 g1 body = some (g2, fl') := hev2
  subst henv' hfl'
  have hr2 : GR vis env1 s2 g2 := ⟨hc2, hr1.2.mono hsub2⟩
  have again : Core.loopAct lbl fl' = .again →
      ResF E (run (evalLoop f env1 lbl (cond.map (toAst nm ln)) (.mk ln (toStmts nm ln body))) s2) := by
    intro hact
    exact Res.mono (fun _ _ _ => True.intro) (hEn f2 g2 fl' hev2' hact)
      (hL lbl cond body vis env1 s2 g2 (hl2.trans hg1) hr2 hc hwf)
  cases fl' with
  | normal => exact again rfl
  | brk l =>
    show ResF E (run (if labelMatches lbl l then _ else _) s2)
    cases labelMatches lbl l with
    | true => simp only [if_true]; exact True.intro
    | false => simp only [Bool.false_eq_true, if_false]; exact True.intro
  | cont l =>
    show ResF E (run (if labelMatches lbl l then _ else _) s2)
    rw [labelMatches_eq]
    cases ht : Core.targets lbl l with
    | true =>
      simp only [if_true]
      exact again (by simp [Core.loopAct, ht])
    | false =>
      simp only [Bool.false_eq_true, if_false]
      exact True.intro

theorem loop_succF (f : Nat) (hB : BlockF nm ln N f) (hL : LoopF nm ln N f) : LoopF nm ln N (f + 1) := by
  intro lbl cond body vis env st g hg hr hc hwf
  rw [evalLoop_succ]
  cases cond with
  | none =>
    simp only [Option.map_none, loopCond, pure_bind]
    show ResF _ (run (evalBlock f env _ >>= loopBodyK f lbl ((none : Option CExpr).map (toAst nm ln)) _) st)
    exact loop_bodyF nm ln N f hB hL lbl none body vis env st g hg hr rfl hwf _ Fail.loopB
      (fun f2 g2 fl h1 h2 h3 => Fail.loopN h1 h2 h3)
  | some c =>
    simp only [Option.map_some, loopCond, bind_assoc]
    refine Res.bind (expr_bridgeG c f (resolves nm vis) (fun k hk => resolves_sound k hk) hr hc)
      (fun h => Fail.whileC h (gr_below hr (fun k hk => resolves_sound k hk) c hc)) ?_
    rintro r s1 ⟨vc, g1, rfl, hvc, hec, hr1, hs1, hl1⟩
    simp only [condK, bind_assoc, pure_bind]
    rw [truthy_scalar hvc, pure_bind, ← P2sh.Props.C06.falsey_table]
    cases hfal : vc.isFalsey with
    | true =>
      simp only [Bool.not_true]
      exact True.intro
    | false =>
      simp only [Bool.not_false]
      show ResF _ (run (evalBlock f env _ >>= loopBodyK f lbl ((some c).map (toAst nm ln)) _) s1)
      exact loop_bodyF nm ln N f hB hL lbl (some c) body vis env s1 g1 (hl1.trans hg) hr1 hc hwf _ (Fail.whileB hec hfal)
        (fun f2 g2 fl h1 h2 h3 => Fail.whileN hec hfal h1 h2 h3)

theorem all_F : ∀ fuel, AllF nm ln N fuel := by
  intro fuel
  induction fuel using Nat.strongRecOn with
  | ind fuel ih =>
    cases fuel with
    | zero => exact all_zeroF nm ln N
    | succ f =>
      have ihf := ih f (Nat.lt_succ_self f)
      exact ⟨stmt_succF nm ln N f (fun f' hf' => ih f' (Nat.lt_succ_of_le hf')),
        stmts_succF nm ln N f ihf.1 ihf.2.1, block_succF nm ln N f ihf.2.1, loop_succF nm ln N f ihf.2.2.1 ihf.2.2.2⟩

end InductionF

/-- **the oracle's runtime error is a genuine failure of Core's evaluation**: not only does no fuel make
`Core.evalP` end (`RefProg.ref_stmts_error_core`) — the evaluation reaches, after finitely many completed
statements and loop iterations, an expression that evaluates to `none` -/
theorem ref_stmts_fail {nm : Nat → String} {ln fuel l : Nat} {ss : List CStmt} {vis : Core.Vis} {env : Env} {st st' : St}
    {g : List Val} {last : Val}
    (hr : GR vis env st g) (hok : wfP nm g.length vis ss = true)
    (h : run (evalStmts fuel env (toStmts nm ln ss) last) st = (.error (.rt l), st')) : Fail g (.p ss) := by
  have hm := (all_F nm ln g.length fuel).2.1 ss vis env st g last rfl hr hok
  rw [h] at hm
  exact hm

end P2sh.ChainProg

/-! ### the chain, error direction -/

namespace P2sh.ChainProg
open P2sh P2sh.Core
open P2sh.CoreVm (StepsB Rel VmSteps scalar)
open P2sh.RefProg (wfP toStmts GR Coupled visAfterP)

/-- **the program-level chain, error direction.**  Same setting as `oracle_program_vm`.  If the oracle's
run of the whole program ends in a runtime error (`.rt l`, for some fuel) — in a `let`, an expression
statement, a loop condition, the condition of an `if`, at any depth, after any number of loop iterations —
then `Vm.run` on the real bytecode does **not** end normally and does not run forever: for some fuel it
ends in a runtime error `msg` reported at `main.lines[pc]` for the `pc` of an instruction of the code (the
failing operator / unary `-` / `~`), or — only if the code contains a `Mul` instruction — in the panic
"capacity overflow" (`oracle_program_error_vm_nomul`: without `Mul`, a runtime error).

Termination comes from the oracle: `ref_stmts_fail` follows the oracle's (finite) run and finds the
failing expression, so the possibility "`Core.evalP` is `none` for every fuel because the program loops
forever", which `RefProg.ref_stmts_error_core` leaves open, is excluded.

Not chained (as for `Chain.oracle_error_vm`): that `main.lines[pc]` is the oracle's line `l` (C13), and
the exclusion of the panic alternative (`Core.eval = none` does not say whether the operator erred or
panicked). -/
theorem oracle_program_error_vm {nm : Nat → String} {ln N fuel l : Nat} {ss : List CStmt} {st' : Ref.St}
    (hok : wfP nm N [] ss = true)
    (h : RefCore.run (Ref.evalStmts fuel [[]] (toStmts nm ln ss) .null) {} = (.error (.rt l), st'))
    (main : FnDef) (hcode : main.code = encode (compileP 0 0 [] ss))
    (hlines : main.code.length ≤ main.lines.length)
    (hK : ∀ c ∈ constsP ss, scalar c = true) (hn : N ≤ P2sh.Gen.Limits.GLOBALS_SIZE)
    (hfit : (compileP 0 0 [] ss).all fitsI = true) (hd : depthP ss ≤ Vm.stackSize) :
    ∃ fuelV vs' r, Vm.run main (constsP ss) fuelV = (.error r, vs') ∧
      ((∃ msg line pc, r = .err msg line ∧ main.lines[pc]? = some line ∧
          (fetch (compileP 0 0 [] ss) pc).isSome = true) ∨
        (r = .panic "capacity overflow" ∧ ∃ pc, fetch (compileP 0 0 [] ss) pc = some (.op .mul))) := by
  have hlen : (List.replicate N Val.null).length = N := List.length_replicate
  have hF := ref_stmts_fail (g := List.replicate N .null) (RefProg.GR.init N) (by rw [hlen]; exact hok) h
  obtain ⟨s, hs, hFl⟩ := (fail_machine hF).1 (compileP 0 0 [] ss) (constsP ss) 0 0 [] [] Vm.stackSize
    (Chain.codeAt_self _) (Chain.poolAt_self _) (by simpa using hd)
  obtain ⟨vs1, hv, R1, hm1⟩ := CoreVm.steps_refine_bounded (CoreVm.rel_init main N hcode hlines hK hn) hfit hs
  obtain ⟨r, vs', het, hdis⟩ := Chain.fails_tick R1 hFl
  obtain ⟨m, hm⟩ := hv.fuel 1
  refine ⟨m + 1, vs', r, ?_, ?_⟩
  · show P2sh.Props.BcvWp.exec (Vm.runLoop (m + 1)) (Vm.initState main (constsP ss)) = _
    rw [hm, P2sh.Props.Bcv.exec_runLoop_succ, het]
  · rcases hdis with ⟨msg, line, f, rfl, hfr, hl⟩ | ⟨rfl, hmul⟩
    · have hfn : f.fn = main := by
        have : some f.fn = some main := by simpa [CoreVm.mainFn, hfr, Vm.initState] using hm1
        exact Option.some.inj this
      exact .inl ⟨msg, line, s.pc, rfl, by rw [← hfn]; exact hl, hFl.fetch⟩
    · exact .inr ⟨rfl, s.pc, hmul⟩

/-- the error direction without `*`: when the program's code has no `Mul` instruction, the oracle's
runtime error is a runtime error of `Vm.run` — no alternative -/
theorem oracle_program_error_vm_nomul {nm : Nat → String} {ln N fuel l : Nat} {ss : List CStmt} {st' : Ref.St}
    (hok : wfP nm N [] ss = true)
    (h : RefCore.run (Ref.evalStmts fuel [[]] (toStmts nm ln ss) .null) {} = (.error (.rt l), st'))
    (main : FnDef) (hcode : main.code = encode (compileP 0 0 [] ss))
    (hlines : main.code.length ≤ main.lines.length)
    (hK : ∀ c ∈ constsP ss, scalar c = true) (hn : N ≤ P2sh.Gen.Limits.GLOBALS_SIZE)
    (hfit : (compileP 0 0 [] ss).all fitsI = true) (hd : depthP ss ≤ Vm.stackSize)
    (hmul : (compileP 0 0 [] ss).all (fun i => !Chain.isMul i) = true) :
    ∃ fuelV vs' msg line pc, Vm.run main (constsP ss) fuelV = (.error (.err msg line), vs') ∧
      main.lines[pc]? = some line ∧ (fetch (compileP 0 0 [] ss) pc).isSome = true := by
  obtain ⟨fuelV, vs', r, hrun, hdis⟩ := oracle_program_error_vm hok h main hcode hlines hK hn hfit hd
  rcases hdis with ⟨msg, line, pc, rfl, hl, hfe⟩ | ⟨-, pc, hfe⟩
  · exact ⟨fuelV, vs', msg, line, pc, hrun, hl, hfe⟩
  · have hmem := CoreVm.fetch_mem _ _ _ hfe
    have := (List.all_eq_true.mp hmul) _ hmem
    simp [Chain.isMul] at this

/-! ## non-vacuity: every hypothesis holds for concrete programs -/

section Examples
open P2sh.RefCore (nm1)
open P2sh.RefProg (p0 p0_ref p4 p4_ref p4_wf nm4 of_endsWith p2 p2_ref p5 p5_ref)
open P2sh.Chain (mainOf)

example : depthP p0 = 2 := by decide
example : depthP p4 = 2 := by decide

/-- `let x = 0; outer: while x < 10 { x = x + 1; if x == 1 { break outer; } else { x = 5; } }`
(`RefProg.p0`: a `while`, a labelled `break`, a statement-level `if`): `oracle_program_vm` instantiated,
all hypotheses discharged.  `Vm.run` on the encoded program ends normally with the empty stack, and
the oracle's `x` is bound to a cell holding what slot 0 of the VM's globals holds — the integer 1. -/
example : ∃ fuelV vs' c, Vm.run (mainOf (compileP 0 0 [] p0)) (constsP p0) fuelV = (.ok (), vs') ∧ vs'.sp = 0 ∧
    Ref.lookupEnv "x" [[("x", .g 0)]] = some (.g c) ∧ vs'.globals.getD 0 .null = .int 1 := by
  obtain ⟨fv, vs', g', hrun, -, hsp, -, -, -, hnames⟩ :=
    oracle_program_vm (N := 2) (by decide) p0_ref (mainOf (compileP 0 0 [] p0)) rfl
      (by decide) (by decide) (by decide) (by decide) (by decide)
  obtain ⟨c, hlk, hval⟩ := hnames "x" 0 (by decide)
  have hc : c = 0 := by
    have : (some (Ref.Bind.g 0) : Option Ref.Bind) = some (.g c) := hlk
    cases this; rfl
  subst hc
  exact ⟨fv, vs', 0, hrun, hsp, hlk, hval.symm⟩

/-- `RefProg.p4` (`let`s in a loop body, a block that shadows a global, the re-definition of a global):
`Vm.run` ends normally with the empty stack; the names `s` and `i`, visible at the end of the program,
resolve to slots 0 and 4 (the *second* `i`), and the oracle's cells for them hold what the VM's globals
hold -/
example : ∃ fuelV vs' v env' st' cs ci,
    RefCore.run (Ref.evalStmts 60 [[]] (toStmts nm4 1 p4) .null) {} = (.ok (.normal, v, env'), st') ∧
    Vm.run (mainOf (compileP 0 0 [] p4)) (constsP p4) fuelV = (.ok (), vs') ∧ vs'.sp = 0 ∧
    Ref.lookupEnv "s" env' = some (.g cs) ∧ st'.cells.getD cs .null = vs'.globals.getD 0 .null ∧
    Ref.lookupEnv "i" env' = some (.g ci) ∧ st'.cells.getD ci .null = vs'.globals.getD 4 .null := by
  obtain ⟨v, env', st', h, -⟩ := of_endsWith p4_ref
  obtain ⟨fv, vs', g', hrun, -, hsp, -, -, -, hnames⟩ :=
    oracle_program_vm (N := 5) p4_wf h (mainOf (compileP 0 0 [] p4)) rfl
      (by decide) (by decide) (by decide) (by decide) (by decide)
  obtain ⟨cs, hs1, hs2⟩ := hnames "s" 0 (by decide)
  obtain ⟨ci, hi1, hi2⟩ := hnames "i" 4 (by decide)
  exact ⟨fv, vs', v, env', st', cs, ci, h, hrun, hsp, hs1, hs2, hi1, hi2⟩

/-- `let x = 1; while true { x = x + true; }` (`RefProg.p2`): the oracle raises a runtime error inside
the loop body; `Vm.run` ends in a runtime error, reported at a line of an instruction of the code -/
example : ∃ fuelV vs' msg line pc, Vm.run (mainOf (compileP 0 0 [] p2)) (constsP p2) fuelV = (.error (.err msg line), vs') ∧
    (mainOf (compileP 0 0 [] p2)).lines[pc]? = some line ∧ (fetch (compileP 0 0 [] p2) pc).isSome = true :=
  oracle_program_error_vm_nomul (N := 1) (by decide) p2_ref (mainOf (compileP 0 0 [] p2)) rfl
    (by decide) (by decide) (by decide) (by decide) (by decide) (by decide)

/-- `let x = 1; loop { let y = x + 1; y = y + true; }` (`RefProg.p5`): a runtime error after a `let` in a
loop body -/
example : ∃ fuelV vs' msg line pc, Vm.run (mainOf (compileP 0 0 [] p5)) (constsP p5) fuelV = (.error (.err msg line), vs') ∧
    (mainOf (compileP 0 0 [] p5)).lines[pc]? = some line ∧ (fetch (compileP 0 0 [] p5) pc).isSome = true :=
  oracle_program_error_vm_nomul (N := 2) (by decide) p5_ref (mainOf (compileP 0 0 [] p5)) rfl
    (by decide) (by decide) (by decide) (by decide) (by decide) (by decide)

/-- `fail_machine` instantiated on `p2`: the core machine runs into a failing instruction within 2 stack slots -/
example : MFail (compileP 0 0 [] p2) (constsP p2) 2 0 [] [.null] :=
  (fail_machine (ref_stmts_fail (g := [.null]) (RefProg.GR.init 1) (by decide) p2_ref)).1 _ _ 0 0 [] [] 2
    (Chain.codeAt_self _) (Chain.poolAt_self _) (by decide)

end Examples

#print axioms sound_all_bounded
#print axioms compileP_correct_bounded
#print axioms program_correct_bounded
#print axioms oracle_program_vm
#print axioms fail_machine
#print axioms Fail.none
#print axioms ref_stmts_fail
#print axioms oracle_program_error_vm
#print axioms oracle_program_error_vm_nomul

end P2sh.ChainProg
