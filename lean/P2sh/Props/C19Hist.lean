import P2sh.Props.C19
import P2sh.Props.C19Spec
/-!
# C19 — every interleaving of pcap reads refines the specification (the history theorem)

`Props/C19.lean` proves the individual laws of the statement on the model's reader.  This file
proves the statement's quantifier — "random interleavings of `pcap_read_next` and
`pcap_read_all(f[, n])`" — for EVERY script: the outputs of the model (`Pcap.run`) satisfy, call by
call, the expectations that the specification (`Spec.PcapFile.expect`) derives from the file.

* `Sat` — when a model output satisfies an expectation (the comparison of `Driver/PcapDrv.lean` +
  `tools/props/c19.py`: token equality, `-` = anything that is not a panic);
* `Refines content script` — `Pcap.run content script` opens the file and its outputs satisfy
  `Spec.PcapFile.expect content script` position by position (`Forall₂ Sat`);
* `history_refines_reads` — well-formed file, every script of read calls (`N`, `A`, `A<n>` for every `i64` `n`);
* `history_refines` — … and `W`/`R` steps (reading back what `pcap_write` wrote, caplen ≤ 65 535);
* `history_refines_truncated`, `history_refines_corrupt` (+ `_reads`) — the same on a file cut inside the
  next record / continued by a record header with caplen > snaplen (`decode_truncated`, `tailKind_truncated`,
  `decode_corrupt`, `tailKind_corrupt`: the specification starts from `rest = f.records`, `tail = .truncated` / `.corrupt`);
* `history_refines_junk` — the common generalisation: `encode f ++ junk` for ANY `junk` from which the
  specification's decoder takes no further record;
* `history_refines_body`, `history_refines_any`, `open_fails` — EVERY byte string: if the specification finds a
  global header the run refines the expectations, otherwise `pcap_open` of the model fails with an error object
  (`decodeRecord_some`, `decodeRecords_sound`, `decodeHeader_some`: the two decoders agree on arbitrary bytes);
* `Example` — concrete files and scripts for which all hypotheses hold, and two scripts showing that the
  hypotheses on the script (`i64` counts; `R` reads an up-to-date file) cannot be dropped.

The proof is an induction on the script with an invariant (`Live`) that ties the model reader's
cursor to the specification's state: `cur = encodePackets (rest.map toPacket) ++ junk`, `failed = none`,
`got` equal, `got ++ rest = f.records`.
-/
namespace P2sh.Props.C19Hist
open P2sh P2sh.Pcap P2sh.Props.C19
open P2sh.Spec.PcapFile (Record File Header Call Expect St TailKind WfRecord WfFile decodeRecord decodeRecords
  decodeHeader decode tailKind expectStep expectRun expect encode encodeRecord encodeRecords encodeHeader field
  leVal leBytes)

/-! ### satisfaction of an expectation -/

/-- a model output against an expectation of the specification, as the differential check
compares them: equal tokens (a packet token lists all four header fields and the bytes, so token
equality is equality of packets), either alternative of `a|b`, and `-` accepts anything but a panic -/
def sat (o : Out) : Expect → Bool
  | .pkt r =>
    match o with
    | .res (.pkt p) => decide (p = toPacket r)
    | _ => false
  | .pkts rs =>
    match o with
    | .res (.arr ps) => decide (ps = rs.map toPacket)
    | _ => false
  | .null =>
    match o with
    | .res .null => true
    | _ => false
  | .nullOrErr =>
    match o with
    | .res .null => true
    | .res (.err _) => true
    | _ => false
  | .pktsOrErr rs =>
    match o with
    | .res (.arr ps) => decide (ps = rs.map toPacket)
    | .res (.err _) => true
    | _ => false
  | .any => !outIsPanic o

def Sat (o : Out) (e : Expect) : Prop := sat o e = true

instance (o : Out) (e : Expect) : Decidable (Sat o e) := inferInstanceAs (Decidable (sat o e = true))

/-- position-wise relation of two lists of the same length (core Lean has no `List.Forall₂`) -/
inductive Forall₂ {α β : Type} (R : α → β → Prop) : List α → List β → Prop
  | nil : Forall₂ R [] []
  | cons {a b as bs} : R a b → Forall₂ R as bs → Forall₂ R (a :: as) (b :: bs)

def all2 {α β : Type} (p : α → β → Bool) : List α → List β → Bool
  | [], [] => true
  | a :: as, b :: bs => p a b && all2 p as bs
  | _, _ => false

theorem forall₂_of_all2 : ∀ (outs : List Out) (es : List Expect), all2 sat outs es = true → Forall₂ Sat outs es
  | [], [], _ => .nil
  | o :: outs, e :: es, h => by
    simp only [all2, Bool.and_eq_true] at h
    exact .cons h.1 (forall₂_of_all2 outs es h.2)
  | [], _ :: _, h => by simp [all2] at h
  | _ :: _, [], h => by simp [all2] at h

theorem Forall₂.length_eq {α β : Type} {R : α → β → Prop} {xs : List α} {ys : List β} (h : Forall₂ R xs ys) :
    xs.length = ys.length := by
  induction h with
  | nil => rfl
  | cons _ _ ih => simp [ih]

theorem sat_any (o : Out) (h : outIsPanic o = false) : Sat o .any := by simp [Sat, sat, h]

/-! ### scripts -/

def toCall : Step → Call
  | .next => .next
  | .all n => .all n
  | .write => .write
  | .readBack => .readBack

def isRead : Step → Bool
  | .next => true
  | .all _ => true
  | _ => false

def isReadBack : Step → Bool
  | .readBack => true
  | _ => false

/-- the count of `pcap_read_all(f, n)` is a p2sh integer (an `i64`); negative counts are allowed (the
specification leaves them open) -/
def countOk : Step → Bool
  | .all (some n) => decide (n ≤ 9223372036854775807)
  | _ => true

/-- is the second file up to date (`W` was the last step that could change `got`)? -/
def freshAfter (fresh : Bool) : Step → Bool
  | .next => false
  | .all _ => false
  | .write => true
  | .readBack => fresh

/-- every `R` reads back a file that `W` wrote after the last read call: the specification's
"reading back what `pcap_write` wrote reproduces the records handed out so far" speaks of that
situation (the generated scripts only contain `W,R` pairs) -/
def rbFresh : Bool → List Step → Bool
  | _, [] => true
  | fresh, st :: rest => (!isReadBack st || fresh) && rbFresh (freshAfter fresh st) rest

theorem rbFresh_of_reads : ∀ (script : List Step) (fresh : Bool), script.all isRead = true → rbFresh fresh script = true
  | [], _, _ => rfl
  | st :: rest, fresh, h => by
    simp only [List.all_cons, Bool.and_eq_true] at h
    have ih := rbFresh_of_reads rest (freshAfter fresh st) h.2
    cases st <;> simp_all [rbFresh, isReadBack, isRead]

theorem no_readBack_of_reads (script : List Step) (h : script.all isRead = true) : script.any isReadBack = false := by
  induction script with
  | nil => rfl
  | cons st rest ih =>
    simp only [List.all_cons, Bool.and_eq_true] at h
    cases st <;> simp_all [isReadBack, isRead]

/-! ### the model: `readAll` by its count, `stepRun` by the result of the read -/

def countOf : Option Int → Nat
  | none => USIZE_MAX
  | some k => asUsize k

def readAllC (r : Reader) (count : Nat) : Res × Reader :=
  match r.failed with
  | some e => if count = 0 then (.arr [], r) else (.err e, r)
  | none =>
    match readLoop r.hdr.snaplen count r.cur with
    | (.ok ps, cur) => (.arr ps, { r with cur })
    | (.error (e, ps), cur) =>
      if !ps.isEmpty && (stickyOf e).isSome then (.arr ps, { r with cur, failed := stickyOf e })
      else (.err e, { r with cur, failed := stickyOf e })

theorem readAll_eq (r : Reader) (n : Option Int) : readAll r n = readAllC r (countOf n) := by
  cases n <;> rfl

theorem asUsize_nonneg (n : Int) (h0 : 0 ≤ n) (h1 : n ≤ 9223372036854775807) : asUsize n = n.toNat := by
  simp only [asUsize]
  omega

theorem stepRun_next_pkt (s : RunState) (p : Packet) (rd' : Reader) (h : readNext s.rd = (.pkt p, rd')) :
    stepRun s .next = (.res (.pkt p), { s with rd := rd', got := s.got ++ [p] }) := by
  simp [stepRun, h]

theorem stepRun_next_null (s : RunState) (rd' : Reader) (h : readNext s.rd = (.null, rd')) :
    stepRun s .next = (.res .null, { s with rd := rd' }) := by
  simp [stepRun, h]

theorem stepRun_next_err (s : RunState) (e : IoErr) (rd' : Reader) (h : readNext s.rd = (.err e, rd')) :
    stepRun s .next = (.res (.err e), { s with rd := rd' }) := by
  simp [stepRun, h]

theorem stepRun_all_arr (s : RunState) (n : Option Int) (ps : List Packet) (rd' : Reader)
    (h : readAllC s.rd (countOf n) = (.arr ps, rd')) :
    stepRun s (.all n) = (.res (.arr ps), { s with rd := rd', got := s.got ++ ps }) := by
  simp [stepRun, readAll_eq, h]

theorem stepRun_all_err (s : RunState) (n : Option Int) (e : IoErr) (rd' : Reader)
    (h : readAllC s.rd (countOf n) = (.err e, rd')) :
    stepRun s (.all n) = (.res (.err e), { s with rd := rd' }) := by
  simp [stepRun, readAll_eq, h]

section ReadAllC
variable (snap : Nat) (rd : Reader) (ps : List Packet) (j : List UInt8)
  (hs : rd.hdr.snaplen = snap) (hf : rd.failed = none) (hc : rd.cur = encodePackets ps ++ j)
  (wf : ∀ p ∈ ps, WfPacket snap p)
include hs hf hc wf

/-- a count within the complete records: the first `c`, the others stay -/
theorem readAllC_take (c : Nat) (hle : c ≤ ps.length) :
    readAllC rd c = (.arr (ps.take c), { rd with cur := encodePackets (ps.drop c) ++ j }) := by
  have := readLoop_take snap ps wf j c hle
  simp only [readAllC, hf, hs, hc, this]

/-- a larger count, the records followed by something that reads as end of file -/
theorem readAllC_eof (hj : nextPacket snap j = (.error .unexpectedEof, [])) (c : Nat) (hgt : ps.length < c) :
    readAllC rd c = (.arr ps, { rd with cur := [] }) := by
  have h := readLoop_encode snap ps wf j c (by omega)
  rw [readLoop_eof _ _ _ hj] at h
  have hne : ¬ c - ps.length = 0 := by omega
  simp only [readAllC, hf, hs, hc, h, prepend, hne, if_false, List.append_nil]

/-- a larger count, the records followed by a malformed record -/
theorem readAllC_corrupt (c' : List UInt8) (hj : nextPacket snap j = (.error .invalidData, c')) (c : Nat)
    (hgt : ps.length < c) :
    readAllC rd c =
      if ps.isEmpty then (.err .invalidData, { rd with cur := c', failed := some .invalidData })
      else (.arr ps, { rd with cur := c', failed := some .invalidData }) := by
  have hloop := readLoop_encode snap ps wf j c (by omega)
  obtain ⟨m, hm⟩ : ∃ m, c - ps.length = m + 1 := ⟨c - ps.length - 1, by omega⟩
  have hbad : readLoop snap (m + 1) j = (.error (.invalidData, []), c') := by
    simp only [readLoop, hj]
  rw [hm, hbad] at hloop
  simp only [readAllC, hf, hs, hc, hloop, prepend, List.append_nil, stickyOf]
  cases ps <;> simp

end ReadAllC

/-! ### the invariant -/

/-- what follows the complete records, as the model's `next_packet` sees it -/
def JunkOk (snap : Nat) (k : TailKind) (j : List UInt8) : Prop :=
  match k with
  | .clean => j = []
  | .truncated => nextPacket snap j = (.error .unexpectedEof, [])
  | .corrupt => ∃ c', nextPacket snap j = (.error .invalidData, c')

/-- the model's reader and the specification's state describe the same position in the same file
(`recs` = the complete records of the file) -/
structure Live (recs : List Record) (snap : Nat) (rd : Reader) (got : List Packet) (t : St) : Prop where
  hsnap : rd.hdr.snaplen = snap
  split : t.got ++ t.rest = recs
  got : got = t.got.map toPacket
  state :
    (rd.failed = none ∧ ∃ j, rd.cur = encodePackets (t.rest.map toPacket) ++ j ∧ JunkOk snap t.tail j) ∨
    (t.rest = [] ∧ t.tail = .corrupt ∧ ∃ e, rd.failed = some e)

/-- once the specification says `lost` nothing is required any more -/
def Inv (recs : List Record) (snap : Nat) (s : RunState) (t : St) : Prop :=
  t.lost = false → Live recs snap s.rd s.got t

theorem inv_lost (recs : List Record) (snap : Nat) (s : RunState) (t : St) (h : t.lost = true) : Inv recs snap s t := by
  intro h'; rw [h] at h'; cases h'

theorem expectStep_lost (t : St) (c : Call) (h : t.lost = true) : expectStep t c = (.any, t) := by
  cases c with
  | next => simp [expectStep, h]
  | all n => cases n <;> simp [expectStep, h]
  | write => simp [expectStep]
  | readBack => simp [expectStep, h]

/-- the specification's "all the remaining records" branch (`pcap_read_all(f)`, or a count beyond them) -/
def expectAllRest (t : St) : Expect × St :=
  if t.rest.isEmpty && t.tail = .corrupt then (.pktsOrErr [], { t with lost := true })
  else (.pkts t.rest, { t with rest := [], got := t.got ++ t.rest })

theorem expectStep_all_none (t : St) (h : t.lost = false) : expectStep t (.all none) = expectAllRest t := by
  simp [expectStep, h, expectAllRest]

theorem expectStep_all_beyond (t : St) (h : t.lost = false) (n : Int) (h0 : 0 ≤ n) (hk : t.rest.length < n.toNat) :
    expectStep t (.all (some n)) = expectAllRest t := by
  have h1 : ¬ n < 0 := by omega
  have h2 : ¬ n.toNat ≤ t.rest.length := by omega
  simp [expectStep, h, expectAllRest, h1, h2]

theorem expectStep_all_within (t : St) (h : t.lost = false) (n : Int) (h0 : 0 ≤ n) (hk : n.toNat ≤ t.rest.length) :
    expectStep t (.all (some n)) =
      (.pkts (t.rest.take n.toNat), { t with rest := t.rest.drop n.toNat, got := t.got ++ t.rest.take n.toNat }) := by
  have h1 : ¬ n < 0 := by omega
  simp [expectStep, h, h1, hk]

theorem expectStep_all_neg (t : St) (h : t.lost = false) (n : Int) (h0 : n < 0) :
    expectStep t (.all (some n)) = (.any, { t with lost := true }) := by
  simp [expectStep, h, h0]

section Steps
variable (recs : List Record) (snap : Nat) (hw : ∀ r ∈ recs, WfRecord snap r) (hlen : recs.length ≤ USIZE_MAX)

theorem wf_rest (hw : ∀ r ∈ recs, WfRecord snap r) (t : St) (hsplit : t.got ++ t.rest = recs) :
    ∀ p ∈ t.rest.map toPacket, WfPacket snap p := by
  intro p hp
  obtain ⟨r, hr, rfl⟩ := List.mem_map.mp hp
  exact wfPacket_of_spec _ r (hw r (by rw [← hsplit]; exact List.mem_append_right _ hr))

include hw in
/-- `pcap_read_next` in a state the specification still speaks about -/
theorem next_ok (s : RunState) (t : St) (hl : t.lost = false) (L : Live recs snap s.rd s.got t) :
    Sat (stepRun s .next).1 (expectStep t .next).1 ∧ Inv recs snap (stepRun s .next).2 (expectStep t .next).2 := by
  obtain ⟨hs, hsplit, hgot, hstate⟩ := L
  have hwf := wf_rest recs snap hw t hsplit
  rcases hstate with ⟨hf, j, hcur, hj⟩ | ⟨hrest, htail, e, hf⟩
  · cases hr : t.rest with
    | nil =>
      have hcur' : s.rd.cur = j := by simpa [hr, encodePackets] using hcur
      cases hk : t.tail with
      | clean =>
        have hj0 : j = [] := by simpa [JunkOk, hk] using hj
        subst hj0
        have hn : readNext s.rd = (.null, { s.rd with cur := [] }) := by
          simp [readNext, hf, hcur', nextPacket_nil]
        rw [stepRun_next_null s _ hn]
        have he : expectStep t .next = (.null, t) := by simp [expectStep, hl, hr, hk]
        rw [he]
        refine ⟨by simp [Sat, sat], fun _ => ⟨hs, hsplit, hgot, Or.inl ⟨hf, [], ?_, ?_⟩⟩⟩
        · simp [hr, encodePackets]
        · simp [JunkOk, hk]
      | truncated =>
        have hj' : nextPacket snap j = (.error .unexpectedEof, []) := by simpa [JunkOk, hk] using hj
        have hn : readNext s.rd = (.null, { s.rd with cur := [] }) := by
          simp [readNext, hf, hcur', hs, hj']
        rw [stepRun_next_null s _ hn]
        have he : expectStep t .next = (.nullOrErr, { t with lost := true }) := by simp [expectStep, hl, hr, hk]
        rw [he]
        exact ⟨by simp [Sat, sat], inv_lost _ _ _ _ rfl⟩
      | corrupt =>
        obtain ⟨c', hj'⟩ : ∃ c', nextPacket snap j = (.error .invalidData, c') := by simpa [JunkOk, hk] using hj
        have hn : readNext s.rd = (.err .invalidData, { s.rd with cur := c', failed := some .invalidData }) := by
          simp [readNext, hf, hcur', hs, hj', stickyOf]
        rw [stepRun_next_err s _ _ hn]
        have he : expectStep t .next = (.nullOrErr, { t with lost := true }) := by simp [expectStep, hl, hr, hk]
        rw [he]
        exact ⟨by simp [Sat, sat], inv_lost _ _ _ _ rfl⟩
    | cons r rest' =>
      have hcur' : s.rd.cur = (toPacket r).toBytes ++ (encodePackets (rest'.map toPacket) ++ j) := by
        rw [hcur, hr, List.map_cons, encodePackets_cons, List.append_assoc]
      have hp := nextPacket_encode snap (toPacket r) (hwf _ (by rw [hr]; simp)) (encodePackets (rest'.map toPacket) ++ j)
      have hn : readNext s.rd = (.pkt (toPacket r), { s.rd with cur := encodePackets (rest'.map toPacket) ++ j }) := by
        simp [readNext, hf, hcur', hs, hp]
      rw [stepRun_next_pkt s _ _ hn]
      have he : expectStep t .next = (.pkt r, { t with rest := rest', got := t.got ++ [r] }) := by
        simp [expectStep, hl, hr]
      rw [he]
      refine ⟨by simp [Sat, sat], fun _ => ⟨hs, ?_, ?_, Or.inl ⟨hf, j, rfl, ?_⟩⟩⟩
      · simp only [List.append_assoc, List.singleton_append]; rw [← hr]; exact hsplit
      · simp [hgot]
      · exact hj
  · have hn : readNext s.rd = (.err e, s.rd) := by simp [readNext, hf]
    rw [stepRun_next_err s _ _ hn]
    have he : expectStep t .next = (.nullOrErr, { t with lost := true }) := by simp [expectStep, hl, hrest, htail]
    rw [he]
    exact ⟨by simp [Sat, sat], inv_lost _ _ _ _ rfl⟩

include hw in
/-- `pcap_read_all(f, n)` with `n` within the remaining complete records -/
theorem all_take_ok (s : RunState) (t : St) (L : Live recs snap s.rd s.got t) (n : Option Int) (c : Nat)
    (hcnt : countOf n = c) (hle : c ≤ t.rest.length) :
    Sat (stepRun s (.all n)).1 (.pkts (t.rest.take c)) ∧
    Inv recs snap (stepRun s (.all n)).2 { t with rest := t.rest.drop c, got := t.got ++ t.rest.take c } := by
  obtain ⟨hs, hsplit, hgot, hstate⟩ := L
  have hwf := wf_rest recs snap hw t hsplit
  rcases hstate with ⟨hf, j, hcur, hj⟩ | ⟨hrest, htail, e, hf⟩
  · have hra := readAllC_take snap s.rd (t.rest.map toPacket) j hs hf hcur hwf c (by simpa using hle)
    rw [← hcnt] at hra
    rw [stepRun_all_arr s n _ _ hra, hcnt]
    refine ⟨by simp [Sat, sat, List.map_take], fun _ => ⟨hs, ?_, ?_, Or.inl ⟨hf, j, ?_, hj⟩⟩⟩
    · simp only [List.append_assoc, List.take_append_drop]; exact hsplit
    · simp [hgot, List.map_take]
    · simp [List.map_drop]
  · have hc0 : c = 0 := by rw [hrest] at hle; simpa using hle
    subst hc0
    have hra : readAllC s.rd (countOf n) = (.arr [], s.rd) := by simp [readAllC, hf, hcnt]
    rw [stepRun_all_arr s n _ _ hra]
    refine ⟨by simp [Sat, sat], fun _ => ⟨hs, ?_, ?_, Or.inr ⟨?_, htail, e, hf⟩⟩⟩
    · simp only [List.take_zero, List.append_nil, List.drop_zero]; exact hsplit
    · simp [hgot]
    · simp [hrest]

include hw hlen in
/-- `pcap_read_all(f)`, or a count beyond the remaining complete records -/
theorem all_rest_ok (s : RunState) (t : St) (L : Live recs snap s.rd s.got t) (n : Option Int) (c : Nat)
    (hcnt : countOf n = c) (hc : t.rest.length < c ∨ c = USIZE_MAX) :
    Sat (stepRun s (.all n)).1 (expectAllRest t).1 ∧ Inv recs snap (stepRun s (.all n)).2 (expectAllRest t).2 := by
  obtain ⟨hs, hsplit, hgot, hstate⟩ := L
  have hwf := wf_rest recs snap hw t hsplit
  have hrl : t.rest.length ≤ USIZE_MAX := by
    have : (t.got ++ t.rest).length ≤ USIZE_MAX := by rw [hsplit]; exact hlen
    simp only [List.length_append] at this; omega
  rcases hstate with ⟨hf, j, hcur, hj⟩ | ⟨hrest, htail, e, hf⟩
  · by_cases hgt : t.rest.length < c
    · have hpl : (t.rest.map toPacket).length < c := by simpa using hgt
      cases hk : t.tail with
      | clean =>
        have hj0 : j = [] := by simpa [JunkOk, hk] using hj
        subst hj0
        have hra := readAllC_eof snap s.rd (t.rest.map toPacket) [] hs hf hcur hwf (nextPacket_nil _) c hpl
        rw [← hcnt] at hra
        rw [stepRun_all_arr s n _ _ hra]
        have he : expectAllRest t = (.pkts t.rest, { t with rest := [], got := t.got ++ t.rest }) := by
          simp [expectAllRest, hk]
        rw [he]
        refine ⟨by simp [Sat, sat], fun _ => ⟨hs, ?_, ?_, Or.inl ⟨hf, [], ?_, ?_⟩⟩⟩
        · simpa using hsplit
        · simp [hgot]
        · simp [encodePackets]
        · simp [JunkOk, hk]
      | truncated =>
        have hj' : nextPacket snap j = (.error .unexpectedEof, []) := by simpa [JunkOk, hk] using hj
        have hra := readAllC_eof snap s.rd (t.rest.map toPacket) j hs hf hcur hwf hj' c hpl
        rw [← hcnt] at hra
        rw [stepRun_all_arr s n _ _ hra]
        have he : expectAllRest t = (.pkts t.rest, { t with rest := [], got := t.got ++ t.rest }) := by
          simp [expectAllRest, hk]
        rw [he]
        refine ⟨by simp [Sat, sat], fun _ => ⟨hs, ?_, ?_, Or.inl ⟨hf, [], ?_, ?_⟩⟩⟩
        · simpa using hsplit
        · simp [hgot]
        · simp [encodePackets]
        · simpa [JunkOk, hk] using nextPacket_nil snap
      | corrupt =>
        obtain ⟨c', hj'⟩ : ∃ c', nextPacket snap j = (.error .invalidData, c') := by simpa [JunkOk, hk] using hj
        have hra := readAllC_corrupt snap s.rd (t.rest.map toPacket) j hs hf hcur hwf c' hj' c hpl
        rw [← hcnt] at hra
        cases hr : t.rest with
        | nil =>
          simp only [hr, List.map_nil, List.isEmpty_nil, if_true] at hra
          rw [stepRun_all_err s n _ _ hra]
          have he : expectAllRest t = (.pktsOrErr [], { t with lost := true }) := by
            simp [expectAllRest, hk, hr]
          rw [he]
          exact ⟨by simp [Sat, sat], inv_lost _ _ _ _ rfl⟩
        | cons r rest' =>
          simp only [hr, List.map_cons, List.isEmpty_cons, Bool.false_eq_true, if_false] at hra
          rw [stepRun_all_arr s n _ _ hra]
          have he : expectAllRest t = (.pkts t.rest, { t with rest := [], got := t.got ++ t.rest }) := by
            simp [expectAllRest, hk, hr]
          rw [he, hr]
          refine ⟨by simp [Sat, sat], fun _ => ⟨hs, ?_, ?_, Or.inr ⟨rfl, hk, .invalidData, rfl⟩⟩⟩
          · simp only [List.append_nil]; rw [← hr]; exact hsplit
          · simp [hgot]
    · -- the count is exactly the number of remaining records (`usize::MAX` of them)
      have hceq : c = t.rest.length := by omega
      have hne : t.rest.isEmpty = false := by
        cases hr : t.rest with
        | nil => rw [hr] at hceq; simp only [List.length_nil] at hceq; simp [USIZE_MAX] at hc; omega
        | cons _ _ => rfl
      have hra := readAllC_take snap s.rd (t.rest.map toPacket) j hs hf hcur hwf c (by simp [hceq])
      rw [← hcnt] at hra
      rw [stepRun_all_arr s n _ _ hra, hcnt]
      have he : expectAllRest t = (.pkts t.rest, { t with rest := [], got := t.got ++ t.rest }) := by
        simp [expectAllRest, hne]
      rw [he]
      have htk : (t.rest.map toPacket).take c = t.rest.map toPacket := by
        apply List.take_of_length_le; simp [hceq]
      have hdr : (t.rest.map toPacket).drop c = [] := by
        apply List.drop_of_length_le; simp [hceq]
      rw [htk, hdr]
      refine ⟨by simp [Sat, sat], fun _ => ⟨hs, ?_, ?_, Or.inl ⟨hf, j, ?_, hj⟩⟩⟩
      · simpa using hsplit
      · simp [hgot]
      · simp [encodePackets]
  · have hc0 : c ≠ 0 := by
      rcases hc with hc | hc
      · omega
      · rw [hc]; decide
    have hra : readAllC s.rd (countOf n) = (.err e, s.rd) := by simp [readAllC, hf, hcnt, hc0]
    rw [stepRun_all_err s n _ _ hra]
    have he : expectAllRest t = (.pktsOrErr [], { t with lost := true }) := by
      simp [expectAllRest, hrest, htail]
    rw [he]
    exact ⟨by simp [Sat, sat], inv_lost _ _ _ _ rfl⟩

include hw hlen in
/-- one step of the script: the output satisfies the expectation and the invariant is kept -/
theorem step_ok (s : RunState) (t : St) (st : Step) (fresh : Bool) (inv : Inv recs snap s t)
    (hfr : fresh = true → s.file2 = some (writeFile s.got)) (hcnt : countOk st = true)
    (hrb : isReadBack st = true → fresh = true ∧ ∀ r ∈ recs, r.caplen ≤ 65535) :
    Sat (stepRun s st).1 (expectStep t (toCall st)).1 ∧
    Inv recs snap (stepRun s st).2 (expectStep t (toCall st)).2 := by
  cases hl : t.lost with
  | true =>
    rw [expectStep_lost t _ hl]
    exact ⟨sat_any _ (stepRun_no_panic s st), inv_lost _ _ _ _ hl⟩
  | false =>
    have L := inv hl
    cases st with
    | next => exact next_ok recs snap hw s t hl L
    | all n =>
      cases n with
      | none =>
        rw [toCall, expectStep_all_none t hl]
        exact all_rest_ok recs snap hw hlen s t L none USIZE_MAX rfl (Or.inr rfl)
      | some k =>
        by_cases h0 : k < 0
        · rw [toCall, expectStep_all_neg t hl k h0]
          exact ⟨sat_any _ (stepRun_no_panic s _), inv_lost _ _ _ _ rfl⟩
        · have h0' : 0 ≤ k := by omega
          have h1 : k ≤ 9223372036854775807 := by simpa [countOk] using hcnt
          have hc : countOf (some k) = k.toNat := asUsize_nonneg k h0' h1
          by_cases hle : k.toNat ≤ t.rest.length
          · rw [toCall, expectStep_all_within t hl k h0' hle]
            exact all_take_ok recs snap hw s t L (some k) k.toNat hc hle
          · rw [toCall, expectStep_all_beyond t hl k h0' (by omega)]
            exact all_rest_ok recs snap hw hlen s t L (some k) k.toNat hc (Or.inl (by omega))
    | write =>
      have he : expectStep t (toCall .write) = (.any, t) := by simp [toCall, expectStep]
      rw [he]
      refine ⟨sat_any _ (stepRun_no_panic s _), fun _ => ?_⟩
      simpa [stepRun] using L
    | readBack =>
      obtain ⟨hfresh, hcap⟩ := hrb rfl
      obtain ⟨hs, hsplit, hgot, hstate⟩ := L
      have he : expectStep t (toCall .readBack) = (.pkts t.got, t) := by simp [toCall, expectStep, hl]
      have hgw : ∀ p ∈ s.got, WfPacket 65535 p := by
        intro p hp
        rw [hgot] at hp
        obtain ⟨r, hr, rfl⟩ := List.mem_map.mp hp
        have hmem : r ∈ recs := by rw [← hsplit]; exact List.mem_append_left _ hr
        have w := hw r hmem
        exact ⟨w.tsSec, w.tsUsec, w.wirelen, w.caplen, hcap r hmem, w.cap32⟩
      have hgl : s.got.length ≤ USIZE_MAX := by
        have : (t.got ++ t.rest).length ≤ USIZE_MAX := by rw [hsplit]; exact hlen
        simp only [List.length_append] at this
        simp [hgot]; omega
      obtain ⟨rd2, hopen, hread⟩ := write_read_id s.got hgw hgl
      have hrun : stepRun s .readBack = (.res (.arr s.got), s) := by
        simp [stepRun, hfr hfresh, hopen, hread]
      rw [he, hrun]
      exact ⟨by simp [Sat, sat, hgot], fun _ => ⟨hs, hsplit, hgot, hstate⟩⟩

end Steps

theorem stepRun_readBack_state (s : RunState) : (stepRun s .readBack).2 = s := by
  simp only [stepRun]
  split
  · rfl
  · split <;> rfl

/-- the second file is up to date after `W` until the next read call -/
theorem step_fresh (s : RunState) (st : Step) (fresh : Bool) (hfr : fresh = true → s.file2 = some (writeFile s.got))
    (h : freshAfter fresh st = true) : (stepRun s st).2.file2 = some (writeFile (stepRun s st).2.got) := by
  cases st with
  | next => cases h
  | all n => cases h
  | write => simp [stepRun]
  | readBack => rw [stepRun_readBack_state]; exact hfr h

/-- **the history theorem on states**: from related states, every script's outputs satisfy the
expectations position by position -/
theorem runSteps_refines (recs : List Record) (snap : Nat) (hw : ∀ r ∈ recs, WfRecord snap r)
    (hlen : recs.length ≤ USIZE_MAX) :
    ∀ (script : List Step) (fresh : Bool) (s : RunState) (t : St), Inv recs snap s t →
      (fresh = true → s.file2 = some (writeFile s.got)) → script.all countOk = true → rbFresh fresh script = true →
      (script.any isReadBack = true → ∀ r ∈ recs, r.caplen ≤ 65535) →
      Forall₂ Sat (runSteps s script) (expectRun t (script.map toCall))
  | [], _, _, _, _, _, _, _, _ => .nil
  | st :: rest, fresh, s, t, inv, hfr, hcnt, hrbf, hcap => by
    simp only [List.all_cons, Bool.and_eq_true] at hcnt
    simp only [rbFresh, Bool.and_eq_true, Bool.or_eq_true, Bool.not_eq_true'] at hrbf
    have hstep := step_ok recs snap hw hlen s t st fresh inv hfr hcnt.1 (fun h => by
      refine ⟨?_, hcap (by simp [h])⟩
      rcases hrbf.1 with h' | h'
      · rw [h] at h'; cases h'
      · exact h')
    have hfresh' := step_fresh s st fresh hfr
    have ih := runSteps_refines recs snap hw hlen rest (freshAfter fresh st) (stepRun s st).2
      (expectStep t (toCall st)).2 hstep.2 hfresh' hcnt.2 hrbf.2 (fun h => hcap (by simp [h]))
    simp only [runSteps, expectRun, List.map_cons]
    exact .cons hstep.1 ih

/-! ### the specification's decoder on a file followed by something that is not a record -/

theorem decodeRecords_encode_junk (snap : Nat) (rs : List Record) (wf : ∀ r ∈ rs, WfRecord snap r) (junk : List UInt8)
    (hj : decodeRecord snap junk = none) :
    ∀ fuel, rs.length ≤ fuel → decodeRecords snap fuel (encodeRecords rs ++ junk) = (rs, junk) := by
  induction rs with
  | nil =>
    intro fuel _
    cases fuel <;> simp [decodeRecords, encodeRecords, hj]
  | cons r rs ih =>
    intro fuel hf
    obtain ⟨m, rfl⟩ : ∃ m, fuel = m + 1 := ⟨fuel - 1, by simp at hf; omega⟩
    have hr := decodeRecord_encode snap r (wf r (List.mem_cons_self)) (encodeRecords rs ++ junk)
    have he : encodeRecords (r :: rs) ++ junk = encodeRecord r ++ (encodeRecords rs ++ junk) := by
      simp [encodeRecords]
    simp only [decodeRecords, he, hr, ih (fun q hq => wf q (List.mem_cons_of_mem _ hq)) m (by simp at hf; omega)]

/-- the complete records of `encode f ++ junk` are those of `f`, the tail is `junk` -/
theorem decode_encode_junk (f : File) (wf : WfFile f) (junk : List UInt8)
    (hj : decodeRecord f.hdr.snaplen junk = none) :
    decode (encode f ++ junk) = some (f.hdr, f.records, junk) := by
  have hh := decodeHeader_encode f.hdr wf.hdr (encodeRecords f.records ++ junk)
  have hd : (encodeHeader f.hdr ++ (encodeRecords f.records ++ junk)).drop 24 = encodeRecords f.records ++ junk := by
    apply List.drop_left'
    simp [encodeHeader, leBytes_length]
  have hfuel : f.records.length ≤ (encodeHeader f.hdr ++ (encodeRecords f.records ++ junk)).length := by
    have := encodeRecords_length_ge f.records
    simp only [List.length_append]; omega
  simp only [decode, encode, List.append_assoc, hh, hd,
    decodeRecords_encode_junk f.hdr.snaplen f.records wf.recs junk hj _ hfuel]

/-! ### what the model's `next_packet` does with such a tail -/

theorem exists16 (l : List UInt8) (h : 16 ≤ l.length) :
    ∃ s0 s1 s2 s3 u0 u1 u2 u3 c0 c1 c2 c3 w0 w1 w2 w3 rest,
      l = s0 :: s1 :: s2 :: s3 :: u0 :: u1 :: u2 :: u3 :: c0 :: c1 :: c2 :: c3 :: w0 :: w1 :: w2 :: w3 :: rest := by
  rcases l with _ | ⟨s0, l⟩; · simp at h
  rcases l with _ | ⟨s1, l⟩; · simp at h
  rcases l with _ | ⟨s2, l⟩; · simp at h
  rcases l with _ | ⟨s3, l⟩; · simp at h
  rcases l with _ | ⟨u0, l⟩; · simp at h
  rcases l with _ | ⟨u1, l⟩; · simp at h
  rcases l with _ | ⟨u2, l⟩; · simp at h
  rcases l with _ | ⟨u3, l⟩; · simp at h
  rcases l with _ | ⟨c0, l⟩; · simp at h
  rcases l with _ | ⟨c1, l⟩; · simp at h
  rcases l with _ | ⟨c2, l⟩; · simp at h
  rcases l with _ | ⟨c3, l⟩; · simp at h
  rcases l with _ | ⟨w0, l⟩; · simp at h
  rcases l with _ | ⟨w1, l⟩; · simp at h
  rcases l with _ | ⟨w2, l⟩; · simp at h
  rcases l with _ | ⟨w3, l⟩; · simp at h
  exact ⟨s0, s1, s2, s3, u0, u1, u2, u3, c0, c1, c2, c3, w0, w1, w2, w3, l, rfl⟩

/-- the model's view of any tail the specification's decoder stops at: nothing ⇒ end of file; an
incomplete record ⇒ `UnexpectedEof` with everything consumed; a header with caplen > snaplen ⇒ `InvalidData` -/
theorem junkOk_of_decode_none (snap : Nat) (junk : List UInt8) (hd : decodeRecord snap junk = none) :
    JunkOk snap (tailKind snap junk) junk := by
  by_cases hemp : junk = []
  · subst hemp; simp [tailKind, JunkOk]
  have hne : junk.isEmpty = false := by cases junk <;> simp_all
  by_cases h16 : junk.length < 16
  · have : tailKind snap junk = .truncated := by simp [tailKind, hne, h16]
    rw [this]
    simp only [JunkOk, nextPacket, readExact_short 16 junk h16]
  · obtain ⟨s0, s1, s2, s3, u0, u1, u2, u3, c0, c1, c2, c3, w0, w1, w2, w3, rest, rfl⟩ := exists16 junk (by omega)
    have hfield : field (s0 :: s1 :: s2 :: s3 :: u0 :: u1 :: u2 :: u3 :: c0 :: c1 :: c2 :: c3 :: w0 :: w1 :: w2 :: w3 :: rest) 8 4
        = rd32 c0 c1 c2 c3 := by
      simp only [field, List.drop_succ_cons, List.drop_zero, List.take_succ_cons, List.take_zero, leVal, rd32]
      omega
    have hre : readExact 16 (s0 :: s1 :: s2 :: s3 :: u0 :: u1 :: u2 :: u3 :: c0 :: c1 :: c2 :: c3 :: w0 :: w1 :: w2 :: w3 :: rest)
        = (.ok [s0, s1, s2, s3, u0, u1, u2, u3, c0, c1, c2, c3, w0, w1, w2, w3], rest) := by
      simp [readExact]
    by_cases hbad : rd32 c0 c1 c2 c3 > snap
    · have : tailKind snap (s0 :: s1 :: s2 :: s3 :: u0 :: u1 :: u2 :: u3 :: c0 :: c1 :: c2 :: c3 :: w0 :: w1 :: w2 :: w3 :: rest)
          = .corrupt := by
        simp only [tailKind, hfield]; simp [hbad]
      rw [this]
      exact ⟨rest, by simp only [nextPacket, hre, PacketHeader.fromBytes, hbad, if_true]⟩
    · have : tailKind snap (s0 :: s1 :: s2 :: s3 :: u0 :: u1 :: u2 :: u3 :: c0 :: c1 :: c2 :: c3 :: w0 :: w1 :: w2 :: w3 :: rest)
          = .truncated := by
        simp only [tailKind, hfield]; simp [hbad]
      rw [this]
      have hshort : rest.length < rd32 c0 c1 c2 c3 := by
        simp only [decodeRecord, hfield] at hd
        simp only [List.length_cons] at hd h16
        by_cases hlt : rest.length < rd32 c0 c1 c2 c3
        · exact hlt
        · exfalso
          have h1 : ¬ rest.length + 1 + 1 + 1 + 1 + 1 + 1 + 1 + 1 + 1 + 1 + 1 + 1 + 1 + 1 + 1 + 1 < 16 := by omega
          have h3 : ¬ rest.length + 1 + 1 + 1 + 1 + 1 + 1 + 1 + 1 + 1 + 1 + 1 + 1 + 1 + 1 + 1 + 1 < 16 + rd32 c0 c1 c2 c3 := by
            omega
          simp [h1, hbad, h3] at hd
      simp only [JunkOk, nextPacket, hre, PacketHeader.fromBytes, hbad, if_false, readExact_short _ rest hshort]

/-! ### the history theorems on files -/

/-- the run of the model on `content` opens the file, the specification has expectations for it, and
every output satisfies the expectation at its position -/
def Refines (content : List UInt8) (script : List Step) : Prop :=
  ∃ outs es, Pcap.run content script = .inr outs ∧ expect content (script.map toCall) = some es ∧ Forall₂ Sat outs es

/-- **history, general form**: a well-formed file followed by ANY bytes from which the specification's
decoder takes no further record (nothing; a proper prefix of a record; a header with caplen > snaplen …).
Every script whose `read_all` counts are `i64`s and whose `R` steps read back an up-to-date file. -/
theorem history_refines_junk (f : File) (wf : WfFile f) (hlen : f.records.length ≤ USIZE_MAX) (junk : List UInt8)
    (hj : decodeRecord f.hdr.snaplen junk = none) (script : List Step) (hcnt : script.all countOk = true)
    (hfresh : rbFresh false script = true)
    (hcap : script.any isReadBack = true → ∀ r ∈ f.records, r.caplen ≤ 65535) :
    Refines (encode f ++ junk) script := by
  have hopen : fromFile (encode f ++ junk)
      = .ok { hdr := toHeader f.hdr, cur := encodePackets (f.records.map toPacket) ++ junk } := by
    rw [encode, encodeHeader_eq, encodeRecords_eq, List.append_assoc]
    exact fromFile_header _ (wfHeader_of_spec _ wf.hdr) _
  refine ⟨runSteps { rd := { hdr := toHeader f.hdr, cur := encodePackets (f.records.map toPacket) ++ junk } } script,
    expectRun { rest := f.records, tail := tailKind f.hdr.snaplen junk } (script.map toCall),
    by simp only [Pcap.run, hopen], by simp only [expect, decode_encode_junk f wf junk hj], ?_⟩
  apply runSteps_refines f.records f.hdr.snaplen wf.recs hlen script false _ _ _ (fun h => by cases h) hcnt hfresh hcap
  intro _
  exact ⟨rfl, rfl, rfl, Or.inl ⟨rfl, junk, rfl, junkOk_of_decode_none _ _ hj⟩⟩

theorem decodeRecord_nil (snap : Nat) : decodeRecord snap [] = none := by simp [decodeRecord]

/-- **history of a well-formed file**, scripts with `W`/`R` steps (`R` after `W` without a read in
between; the written file has snaplen 65 535, so the packets must fit) -/
theorem history_refines (f : File) (wf : WfFile f) (hlen : f.records.length ≤ USIZE_MAX)
    (hcap : ∀ r ∈ f.records, r.caplen ≤ 65535) (script : List Step) (hcnt : script.all countOk = true)
    (hfresh : rbFresh false script = true) :
    Refines (encode f) script := by
  have := history_refines_junk f wf hlen [] (decodeRecord_nil _) script hcnt hfresh (fun _ => hcap)
  simpa using this

/-- **history of a well-formed file, every interleaving of read calls** — the quantifier of the
statement: `pcap_read_next`, `pcap_read_all(f)`, `pcap_read_all(f, n)` for every `i64` `n` in any order -/
theorem history_refines_reads (f : File) (wf : WfFile f) (hlen : f.records.length ≤ USIZE_MAX)
    (script : List Step) (hreads : script.all isRead = true) (hcnt : script.all countOk = true) :
    Refines (encode f) script := by
  have := history_refines_junk f wf hlen [] (decodeRecord_nil _) script hcnt (rbFresh_of_reads script false hreads)
    (fun h => by rw [no_readBack_of_reads script hreads] at h; cases h)
  simpa using this

/-! ### damaged files: cut inside the next record, or continued by a malformed record header -/

/-- sixteen bytes and the rest -/
abbrev cons16 (s0 s1 s2 s3 u0 u1 u2 u3 c0 c1 c2 c3 w0 w1 w2 w3 : UInt8) (tl : List UInt8) : List UInt8 :=
  s0 :: s1 :: s2 :: s3 :: u0 :: u1 :: u2 :: u3 :: c0 :: c1 :: c2 :: c3 :: w0 :: w1 :: w2 :: w3 :: tl

theorem fields16 (s0 s1 s2 s3 u0 u1 u2 u3 c0 c1 c2 c3 w0 w1 w2 w3 : UInt8) (tl : List UInt8) :
    field (cons16 s0 s1 s2 s3 u0 u1 u2 u3 c0 c1 c2 c3 w0 w1 w2 w3 tl) 0 4 = rd32 s0 s1 s2 s3 ∧
    field (cons16 s0 s1 s2 s3 u0 u1 u2 u3 c0 c1 c2 c3 w0 w1 w2 w3 tl) 4 4 = rd32 u0 u1 u2 u3 ∧
    field (cons16 s0 s1 s2 s3 u0 u1 u2 u3 c0 c1 c2 c3 w0 w1 w2 w3 tl) 8 4 = rd32 c0 c1 c2 c3 ∧
    field (cons16 s0 s1 s2 s3 u0 u1 u2 u3 c0 c1 c2 c3 w0 w1 w2 w3 tl) 12 4 = rd32 w0 w1 w2 w3 := by
  simp only [field, cons16, List.drop_succ_cons, List.drop_zero, List.take_succ_cons, List.take_zero, leVal, rd32]
  omega

/-- what the specification's decoder accepts as a record is the encoding of a well-formed record -/
theorem decodeRecord_some (snap : Nat) (bs : List UInt8) (r : Record) (rest : List UInt8)
    (h : decodeRecord snap bs = some (r, rest)) : bs = encodeRecord r ++ rest ∧ WfRecord snap r := by
  by_cases h16 : bs.length < 16
  · simp [decodeRecord, h16] at h
  obtain ⟨s0, s1, s2, s3, u0, u1, u2, u3, c0, c1, c2, c3, w0, w1, w2, w3, tl, rfl⟩ := exists16 bs (by omega)
  obtain ⟨f0, f4, f8, f12⟩ := fields16 s0 s1 s2 s3 u0 u1 u2 u3 c0 c1 c2 c3 w0 w1 w2 w3 tl
  simp only [cons16] at f0 f4 f8 f12
  have hlen : (s0 :: s1 :: s2 :: s3 :: u0 :: u1 :: u2 :: u3 :: c0 :: c1 :: c2 :: c3 :: w0 :: w1 :: w2 :: w3 :: tl).length
      = 16 + tl.length := by simp only [List.length_cons]; omega
  simp only [decodeRecord, f0, f4, f8, f12, hlen] at h
  by_cases hbad : rd32 c0 c1 c2 c3 > snap
  · simp [hbad] at h
  by_cases hshort : tl.length < rd32 c0 c1 c2 c3
  · have : 16 + tl.length < 16 + rd32 c0 c1 c2 c3 := by omega
    simp [hbad, this] at h
  have h1 : ¬ 16 + tl.length < 16 := by omega
  have h3 : ¬ 16 + tl.length < 16 + rd32 c0 c1 c2 c3 := by omega
  simp only [h1, hbad, h3, if_false, Option.some.injEq, Prod.mk.injEq] at h
  obtain ⟨hr, hrest⟩ := h
  subst hr
  rw [← List.drop_drop] at hrest
  simp only [List.drop_succ_cons, List.drop_zero] at hrest
  subst hrest
  refine ⟨?_, ⟨rd32_lt .., rd32_lt .., rd32_lt .., ?_, by simp only []; omega, rd32_lt ..⟩⟩
  · simp only [encodeRecord, leBytes4, le32_rd32, List.drop_succ_cons, List.drop_zero, List.cons_append,
      List.nil_append, List.take_append_drop]
  · simp only [List.drop_succ_cons, List.drop_zero, List.length_take]; omega

/-- the two decoders agree on a record -/
theorem nextPacket_of_decodeRecord (snap : Nat) (bs : List UInt8) (r : Record) (rest : List UInt8)
    (h : decodeRecord snap bs = some (r, rest)) : nextPacket snap bs = (.ok (toPacket r), rest) := by
  obtain ⟨hbs, w⟩ := decodeRecord_some snap bs r rest h
  rw [hbs, encodeRecord_eq]
  exact nextPacket_encode snap _ (wfPacket_of_spec _ r w) rest

theorem decodeRecord_none_of_error (snap : Nat) (bs : List UInt8) (e : IoErr) (c : List UInt8)
    (h : nextPacket snap bs = (.error e, c)) : decodeRecord snap bs = none := by
  cases hd : decodeRecord snap bs with
  | none => rfl
  | some x =>
    obtain ⟨r, rest⟩ := x
    rw [nextPacket_of_decodeRecord snap bs r rest hd] at h
    cases h

/-- the kind of tail the specification sees, from what the model's `next_packet` reports -/
theorem tailKind_of_eof (snap : Nat) (junk : List UInt8) (hne : junk ≠ [])
    (h : nextPacket snap junk = (.error .unexpectedEof, [])) : tailKind snap junk = .truncated := by
  have hj := junkOk_of_decode_none snap junk (decodeRecord_none_of_error _ _ _ _ h)
  cases hk : tailKind snap junk with
  | clean => rw [hk] at hj; exact absurd hj hne
  | truncated => rfl
  | corrupt => rw [hk] at hj; obtain ⟨c', hc⟩ := hj; rw [h] at hc; cases hc

theorem tailKind_of_invalid (snap : Nat) (junk c' : List UInt8)
    (h : nextPacket snap junk = (.error .invalidData, c')) : tailKind snap junk = .corrupt := by
  have hj := junkOk_of_decode_none snap junk (decodeRecord_none_of_error _ _ _ _ h)
  cases hk : tailKind snap junk with
  | clean =>
    rw [hk] at hj
    simp only [JunkOk] at hj
    subst hj
    rw [nextPacket_nil] at h; cases h
  | truncated => rw [hk] at hj; simp only [JunkOk] at hj; rw [h] at hj; cases hj
  | corrupt => rfl

/-- a file cut after `c` bytes (`0 < c`, short of the whole record) of the record `q` that follows the
records of `f` -/
def truncatedFile (f : File) (q : Record) (c : Nat) : List UInt8 := encode f ++ (encodeRecord q).take c

/-- a file in which the records of `f` are followed by the header of `q` — a complete record header
with caplen > snaplen — and whatever bytes `q.data` -/
def corruptFile (f : File) (q : Record) : List UInt8 := encode f ++ encodeRecord q

section Truncated
variable (f : File) (q : Record) (c : Nat) (wq : WfRecord f.hdr.snaplen q) (hc0 : 0 < c) (hc : c < (encodeRecord q).length)
include wq hc

theorem truncated_eof : nextPacket f.hdr.snaplen ((encodeRecord q).take c) = (.error .unexpectedEof, []) := by
  rw [encodeRecord_eq] at hc ⊢
  exact nextPacket_truncated _ _ (wfPacket_of_spec _ q wq) c hc

/-- the specification on the truncated file: header and records of `f`, the cut record is the tail, of kind `truncated` -/
theorem decode_truncated (wf : WfFile f) :
    decode (truncatedFile f q c) = some (f.hdr, f.records, (encodeRecord q).take c) :=
  decode_encode_junk f wf _ (decodeRecord_none_of_error _ _ _ _ (truncated_eof f q c wq hc))

include hc0 in
theorem tailKind_truncated : tailKind f.hdr.snaplen ((encodeRecord q).take c) = .truncated := by
  apply tailKind_of_eof _ _ _ (truncated_eof f q c wq hc)
  intro h
  have := congrArg List.length h
  simp only [List.length_take, List.length_nil] at this
  omega

/-- **history of a truncated file** (the specification's state starts with `rest = f.records`,
`tail = .truncated`: `decode_truncated`, `tailKind_truncated`) -/
theorem history_refines_truncated (wf : WfFile f) (hlen : f.records.length ≤ USIZE_MAX)
    (hcap : ∀ r ∈ f.records, r.caplen ≤ 65535) (script : List Step) (hcnt : script.all countOk = true)
    (hfresh : rbFresh false script = true) :
    Refines (truncatedFile f q c) script :=
  history_refines_junk f wf hlen _ (decodeRecord_none_of_error _ _ _ _ (truncated_eof f q c wq hc)) script hcnt hfresh
    (fun _ => hcap)

theorem history_refines_truncated_reads (wf : WfFile f) (hlen : f.records.length ≤ USIZE_MAX)
    (script : List Step) (hreads : script.all isRead = true) (hcnt : script.all countOk = true) :
    Refines (truncatedFile f q c) script :=
  history_refines_junk f wf hlen _ (decodeRecord_none_of_error _ _ _ _ (truncated_eof f q c wq hc)) script hcnt
    (rbFresh_of_reads script false hreads) (fun h => by rw [no_readBack_of_reads script hreads] at h; cases h)

end Truncated

section Corrupt
variable (f : File) (q : Record) (h1 : q.tsSec < 4294967296) (h2 : q.tsUsec < 4294967296)
  (h3 : q.caplen < 4294967296) (h4 : q.wirelen < 4294967296) (hbad : q.caplen > f.hdr.snaplen)
include h1 h2 h3 h4 hbad

theorem corrupt_invalid : nextPacket f.hdr.snaplen (encodeRecord q) = (.error .invalidData, q.data) := by
  rw [encodeRecord_eq]
  exact nextPacket_corrupt f.hdr.snaplen (toPacket q).hdr h1 h2 h3 h4 hbad q.data

theorem decode_corrupt (wf : WfFile f) : decode (corruptFile f q) = some (f.hdr, f.records, encodeRecord q) :=
  decode_encode_junk f wf _ (decodeRecord_none_of_error _ _ _ _ (corrupt_invalid f q h1 h2 h3 h4 hbad))

theorem tailKind_corrupt : tailKind f.hdr.snaplen (encodeRecord q) = .corrupt :=
  tailKind_of_invalid _ _ _ (corrupt_invalid f q h1 h2 h3 h4 hbad)

/-- **history of a corrupted file** (the specification's state starts with `rest = f.records`,
`tail = .corrupt`: `decode_corrupt`, `tailKind_corrupt`) -/
theorem history_refines_corrupt (wf : WfFile f) (hlen : f.records.length ≤ USIZE_MAX)
    (hcap : ∀ r ∈ f.records, r.caplen ≤ 65535) (script : List Step) (hcnt : script.all countOk = true)
    (hfresh : rbFresh false script = true) :
    Refines (corruptFile f q) script :=
  history_refines_junk f wf hlen _ (decodeRecord_none_of_error _ _ _ _ (corrupt_invalid f q h1 h2 h3 h4 hbad)) script
    hcnt hfresh (fun _ => hcap)

theorem history_refines_corrupt_reads (wf : WfFile f) (hlen : f.records.length ≤ USIZE_MAX)
    (script : List Step) (hreads : script.all isRead = true) (hcnt : script.all countOk = true) :
    Refines (corruptFile f q) script :=
  history_refines_junk f wf hlen _ (decodeRecord_none_of_error _ _ _ _ (corrupt_invalid f q h1 h2 h3 h4 hbad)) script
    hcnt (rbFresh_of_reads script false hreads) (fun h => by rw [no_readBack_of_reads script hreads] at h; cases h)

end Corrupt

/-! ### every file: whatever the bytes, whatever the script -/

theorem encodeRecord_length (r : Record) : (encodeRecord r).length = 16 + r.data.length := by
  simp [encodeRecord, leBytes_length]; omega

/-- the specification's decoder splits any byte string into the encoding of well-formed records and
a tail it cannot take a record from -/
theorem decodeRecords_sound (snap : Nat) : ∀ (fuel : Nat) (bs : List UInt8), bs.length ≤ fuel →
    bs = encodeRecords (decodeRecords snap fuel bs).1 ++ (decodeRecords snap fuel bs).2 ∧
    (∀ r ∈ (decodeRecords snap fuel bs).1, WfRecord snap r) ∧
    decodeRecord snap (decodeRecords snap fuel bs).2 = none ∧
    (decodeRecords snap fuel bs).1.length ≤ bs.length
  | 0, bs, h => by
    have : bs = [] := List.eq_nil_of_length_eq_zero (by omega)
    subst this
    simp [decodeRecords, encodeRecords, decodeRecord_nil]
  | fuel + 1, bs, h => by
    cases hd : decodeRecord snap bs with
    | none => simp [decodeRecords, hd, encodeRecords]
    | some x =>
      obtain ⟨r, rest⟩ := x
      obtain ⟨hbs, w⟩ := decodeRecord_some snap bs r rest hd
      have hl : bs.length = 16 + r.data.length + rest.length := by
        have := congrArg List.length hbs
        simpa only [List.length_append, encodeRecord_length] using this
      have ih := decodeRecords_sound snap fuel rest (by omega)
      rcases hp : decodeRecords snap fuel rest with ⟨rs, tl⟩
      rw [hp] at ih
      obtain ⟨i1, i2, i3, i4⟩ := ih
      simp only [decodeRecords, hd, hp]
      simp only at i1 i2 i3 i4
      refine ⟨?_, ?_, i3, ?_⟩
      · have he : encodeRecords (r :: rs) = encodeRecord r ++ encodeRecords rs := by simp [encodeRecords]
        rw [he, List.append_assoc, ← i1]; exact hbs
      · intro q hq
        rcases List.mem_cons.mp hq with rfl | hq
        · exact w
        · exact i2 q hq
      · simp only [List.length_cons]; omega

/-- **history, any records after a good header**: a valid global header followed by ANY bytes -/
theorem history_refines_body (h : Header) (wh : Spec.PcapFile.WfHeader h) (body : List UInt8)
    (hlen : body.length ≤ USIZE_MAX) (script : List Step) (hcnt : script.all countOk = true)
    (hfresh : rbFresh false script = true) (hcap : script.any isReadBack = true → h.snaplen ≤ 65535) :
    Refines (encodeHeader h ++ body) script := by
  obtain ⟨e1, e2, e3, e4⟩ := decodeRecords_sound h.snaplen body.length body (Nat.le_refl _)
  have := history_refines_junk { hdr := h, records := (decodeRecords h.snaplen body.length body).1 } ⟨wh, e2⟩
    (by simp only []; omega) (decodeRecords h.snaplen body.length body).2 e3 script hcnt hfresh
    (fun hb r hr => Nat.le_trans (e2 r hr).fits (hcap hb))
  simp only [encode, List.append_assoc] at this
  rw [← e1] at this
  exact this

abbrev cons24 (b0 b1 b2 b3 b4 b5 b6 b7 b8 b9 b10 b11 b12 b13 b14 b15 b16 b17 b18 b19 b20 b21 b22 b23 : UInt8) (tl : List UInt8) : List UInt8 :=
  b0 :: b1 :: b2 :: b3 :: b4 :: b5 :: b6 :: b7 :: b8 :: b9 :: b10 :: b11 :: b12 :: b13 :: b14 :: b15 :: b16 :: b17 :: b18 :: b19 :: b20 :: b21 :: b22 :: b23 :: tl

theorem exists24 (l : List UInt8) (h : 24 ≤ l.length) :
    ∃ b0 b1 b2 b3 b4 b5 b6 b7 b8 b9 b10 b11 b12 b13 b14 b15 b16 b17 b18 b19 b20 b21 b22 b23 tl, l = cons24 b0 b1 b2 b3 b4 b5 b6 b7 b8 b9 b10 b11 b12 b13 b14 b15 b16 b17 b18 b19 b20 b21 b22 b23 tl := by
  obtain ⟨b0, b1, b2, b3, b4, b5, b6, b7, b8, b9, b10, b11, b12, b13, b14, b15, l, rfl⟩ := exists16 l (by omega)
  simp only [List.length_cons] at h
  rcases l with _ | ⟨b16, l⟩; · simp at h
  rcases l with _ | ⟨b17, l⟩; · simp at h
  rcases l with _ | ⟨b18, l⟩; · simp at h
  rcases l with _ | ⟨b19, l⟩; · simp at h
  rcases l with _ | ⟨b20, l⟩; · simp at h
  rcases l with _ | ⟨b21, l⟩; · simp at h
  rcases l with _ | ⟨b22, l⟩; · simp at h
  rcases l with _ | ⟨b23, l⟩; · simp at h
  exact ⟨b0, b1, b2, b3, b4, b5, b6, b7, b8, b9, b10, b11, b12, b13, b14, b15, b16, b17, b18, b19, b20, b21, b22, b23, l, rfl⟩

theorem fields24 (b0 b1 b2 b3 b4 b5 b6 b7 b8 b9 b10 b11 b12 b13 b14 b15 b16 b17 b18 b19 b20 b21 b22 b23 : UInt8) (tl : List UInt8) :
    field (cons24 b0 b1 b2 b3 b4 b5 b6 b7 b8 b9 b10 b11 b12 b13 b14 b15 b16 b17 b18 b19 b20 b21 b22 b23 tl) 0 4 = rd32 b0 b1 b2 b3 ∧
    field (cons24 b0 b1 b2 b3 b4 b5 b6 b7 b8 b9 b10 b11 b12 b13 b14 b15 b16 b17 b18 b19 b20 b21 b22 b23 tl) 4 2 = rd16 b4 b5 ∧
    field (cons24 b0 b1 b2 b3 b4 b5 b6 b7 b8 b9 b10 b11 b12 b13 b14 b15 b16 b17 b18 b19 b20 b21 b22 b23 tl) 6 2 = rd16 b6 b7 ∧
    field (cons24 b0 b1 b2 b3 b4 b5 b6 b7 b8 b9 b10 b11 b12 b13 b14 b15 b16 b17 b18 b19 b20 b21 b22 b23 tl) 8 4 = rd32 b8 b9 b10 b11 ∧
    field (cons24 b0 b1 b2 b3 b4 b5 b6 b7 b8 b9 b10 b11 b12 b13 b14 b15 b16 b17 b18 b19 b20 b21 b22 b23 tl) 12 4 = rd32 b12 b13 b14 b15 ∧
    field (cons24 b0 b1 b2 b3 b4 b5 b6 b7 b8 b9 b10 b11 b12 b13 b14 b15 b16 b17 b18 b19 b20 b21 b22 b23 tl) 16 4 = rd32 b16 b17 b18 b19 ∧
    field (cons24 b0 b1 b2 b3 b4 b5 b6 b7 b8 b9 b10 b11 b12 b13 b14 b15 b16 b17 b18 b19 b20 b21 b22 b23 tl) 20 4 = rd32 b20 b21 b22 b23 := by
  simp only [field, cons24, List.drop_succ_cons, List.drop_zero, List.take_succ_cons, List.take_zero, leVal, rd32, rd16]
  omega

theorem le16_rd16 (a b : UInt8) : le16 (rd16 a b) = [a, b] := by
  have ha := a.toNat_lt; have hb := b.toNat_lt
  simp only [le16, rd16]
  rw [ofNat_toNat_of_eq a _ (by omega), ofNat_toNat_of_eq b _ (by omega)]

theorem rd16_lt (a b : UInt8) : rd16 a b < 65536 := by
  have ha := a.toNat_lt; have hb := b.toNat_lt
  simp only [rd16]; omega

theorem magic_us : MAGIC_US = Spec.PcapFile.magicMicro := by decide
theorem magic_ns : MAGIC_NS = Spec.PcapFile.magicNano := by decide

/-- a global header the specification accepts: the model opens the file, the bytes are the
encoding of that (well-formed) header followed by the rest -/
theorem decodeHeader_some (bs : List UInt8) (h : Header) (hd : decodeHeader bs = some h) :
    fromFile bs = .ok { hdr := toHeader h, cur := bs.drop 24 } ∧ bs = encodeHeader h ++ bs.drop 24 ∧
    Spec.PcapFile.WfHeader h := by
  by_cases h24 : bs.length < 24
  · simp [decodeHeader, h24] at hd
  obtain ⟨b0, b1, b2, b3, b4, b5, b6, b7, b8, b9, b10, b11, b12, b13, b14, b15, b16, b17, b18, b19, b20, b21, b22, b23, tl, rfl⟩ := exists24 bs (by omega)
  obtain ⟨f0, f4, f6, f8, f12, f16, f20⟩ := fields24 b0 b1 b2 b3 b4 b5 b6 b7 b8 b9 b10 b11 b12 b13 b14 b15 b16 b17 b18 b19 b20 b21 b22 b23 tl
  simp only [decodeHeader, h24, if_false, f0, f4, f6, f8, f12, f16, f20] at hd
  split at hd
  · rename_i hm
    injection hd with hd
    subst hd
    have hre : readExact 24 (cons24 b0 b1 b2 b3 b4 b5 b6 b7 b8 b9 b10 b11 b12 b13 b14 b15 b16 b17 b18 b19 b20 b21 b22 b23 tl) = (.ok [b0, b1, b2, b3, b4, b5, b6, b7, b8, b9, b10, b11, b12, b13, b14, b15, b16, b17, b18, b19, b20, b21, b22, b23], tl) := by
      simp [readExact, cons24]
    have hm' : ¬ (rd32 b0 b1 b2 b3 ≠ MAGIC_US ∧ rd32 b0 b1 b2 b3 ≠ MAGIC_NS) := by
      rw [magic_us, magic_ns]; omega
    refine ⟨?_, ?_, ⟨hm, rd16_lt .., rd16_lt .., rd32_lt .., rd32_lt .., rd32_lt .., rd32_lt ..⟩⟩
    · simp only [fromFile, hre, GlobalHeader.fromBytes, hm', if_false, toHeader, cons24, List.drop_succ_cons, List.drop_zero]
    · simp only [encodeHeader, leBytes4, leBytes2, le32_rd32, le16_rd16, cons24, List.drop_succ_cons, List.drop_zero,
        List.cons_append, List.nil_append]
  · cases hd

/-- no global header for the specification: the model's `pcap_open` fails with an error object -/
theorem decodeHeader_none (bs : List UInt8) (hd : decodeHeader bs = none) : ∃ e, fromFile bs = .error e := by
  by_cases h24 : bs.length < 24
  · exact ⟨.unexpectedEof, by simp only [fromFile, readExact_short 24 bs h24]⟩
  obtain ⟨b0, b1, b2, b3, b4, b5, b6, b7, b8, b9, b10, b11, b12, b13, b14, b15, b16, b17, b18, b19, b20, b21, b22, b23, tl, rfl⟩ := exists24 bs (by omega)
  obtain ⟨f0, f4, f6, f8, f12, f16, f20⟩ := fields24 b0 b1 b2 b3 b4 b5 b6 b7 b8 b9 b10 b11 b12 b13 b14 b15 b16 b17 b18 b19 b20 b21 b22 b23 tl
  simp only [decodeHeader, h24, if_false, f0] at hd
  split at hd
  · cases hd
  · rename_i hm
    have hre : readExact 24 (cons24 b0 b1 b2 b3 b4 b5 b6 b7 b8 b9 b10 b11 b12 b13 b14 b15 b16 b17 b18 b19 b20 b21 b22 b23 tl) = (.ok [b0, b1, b2, b3, b4, b5, b6, b7, b8, b9, b10, b11, b12, b13, b14, b15, b16, b17, b18, b19, b20, b21, b22, b23], tl) := by
      simp [readExact, cons24]
    have hm' : rd32 b0 b1 b2 b3 ≠ MAGIC_US ∧ rd32 b0 b1 b2 b3 ≠ MAGIC_NS := by
      rw [magic_us, magic_ns]; omega
    exact ⟨.invalidData, by simp only [fromFile, hre, GlobalHeader.fromBytes]; rw [if_pos hm']⟩

/-- **opening**: where the specification finds no valid global header (`expect = none`: "opening
must fail"), `pcap_open` of the model fails with an error object -/
theorem open_fails (content : List UInt8) (script : List Step) (hd : decode content = none) :
    expect content (script.map toCall) = none ∧ ∃ e, Pcap.run content script = .inl (.err e) := by
  cases hh : decodeHeader content with
  | some h =>
    simp only [decode, hh] at hd
    rcases hp : decodeRecords h.snaplen content.length (List.drop 24 content) with ⟨rs, tl⟩
    rw [hp] at hd; cases hd
  | none =>
    obtain ⟨e, he⟩ := decodeHeader_none content hh
    exact ⟨by simp only [expect, hd], e, by simp only [Pcap.run, he]⟩

/-- **the history theorem for every file**: whatever the bytes of the file — well-formed, truncated
anywhere, corrupted anywhere, garbage after the global header — if the specification finds a global
header then the model opens the file and, for every script (`read_all` counts that are `i64`s, `R`
steps that read back an up-to-date file, which must then have been opened with a snaplen ≤ 65 535),
every output satisfies the specification's expectation at its position. -/
theorem history_refines_any (content : List UInt8) (hlen : content.length ≤ USIZE_MAX)
    (h : Header) (rs : List Record) (tl : List UInt8) (hd : decode content = some (h, rs, tl))
    (script : List Step) (hcnt : script.all countOk = true) (hfresh : rbFresh false script = true)
    (hcap : script.any isReadBack = true → h.snaplen ≤ 65535) :
    Refines content script := by
  cases hh : decodeHeader content with
  | none => simp [decode, hh] at hd
  | some h' =>
    have hh' : h' = h := by
      simp only [decode, hh] at hd
      rcases hp : decodeRecords h'.snaplen content.length (List.drop 24 content) with ⟨rs', tl'⟩
      rw [hp] at hd
      injection hd with hd
      injection hd with hd _
    subst hh'
    obtain ⟨_, hbs, wh⟩ := decodeHeader_some content h' hh
    have hbl : (content.drop 24).length ≤ USIZE_MAX := by simp only [List.length_drop]; omega
    have := history_refines_body h' wh (content.drop 24) hbl script hcnt hfresh hcap
    rw [← hbs] at this
    exact this

/-! ### non-vacuity: concrete files and scripts for which every hypothesis holds -/

namespace Example

def hdr3 : Header :=
  { magic := 0xA1B2C3D4, versionMajor := 2, versionMinor := 4, thiszone := 0, sigfigs := 0, snaplen := 64, linktype := 1 }
def r1 : Record := { tsSec := 1, tsUsec := 10, caplen := 3, wirelen := 60, data := [1, 2, 3] }
def r2 : Record := { tsSec := 2, tsUsec := 20, caplen := 0, wirelen := 0, data := [] }
def r3 : Record := { tsSec := 3, tsUsec := 30, caplen := 2, wirelen := 2, data := [9, 9] }
/-- a record header announcing 100 bytes under a snaplen of 64 -/
def bad : Record := { tsSec := 4, tsUsec := 40, caplen := 100, wirelen := 100, data := [7] }
def f3 : File := { hdr := hdr3, records := [r1, r2, r3] }

theorem f3_wf : WfFile f3 := by
  refine ⟨⟨Or.inl rfl, by decide, by decide, by decide, by decide, by decide, by decide⟩, ?_⟩
  intro r hr
  simp only [f3, List.mem_cons, List.not_mem_nil, or_false] at hr
  rcases hr with rfl | rfl | rfl <;> constructor <;> decide

/-- `A1, N, A, N` -/
def script1 : List Step := [.all (some 1), .next, .all none, .next]

example : Refines (encode f3) script1 :=
  history_refines_reads f3 f3_wf (by decide) script1 (by decide) (by decide)

/-- … and what both sides say: one record, the next, the rest, null -/
example : Pcap.run (encode f3) script1 =
    .inr [.res (.arr [toPacket r1]), .res (.pkt (toPacket r2)), .res (.arr [toPacket r3]), .res .null] := by rfl
example : expect (encode f3) (script1.map toCall) = some [.pkts [r1], .pkt r2, .pkts [r3], .null] := by rfl

/-- `N, W, R, A, W, R` with the write/read-back steps -/
def script2 : List Step := [.next, .write, .readBack, .all none, .write, .readBack]

example : Refines (encode f3) script2 :=
  history_refines f3 f3_wf (by decide) (by decide) script2 (by decide) (by decide)

example : expect (encode f3) (script2.map toCall) =
    some [.pkt r1, .any, .pkts [r1], .pkts [r2, r3], .any, .pkts [r1, r2, r3]] := by rfl

/-- the corrupted file: the three records, then `bad`; `A2, A, N, A0, A` -/
def script3 : List Step := [.all (some 2), .all none, .next, .all (some 0), .all none]

example : Refines (corruptFile f3 bad) script3 :=
  history_refines_corrupt_reads f3 bad (by decide) (by decide) (by decide) (by decide) (by decide) f3_wf (by decide)
    script3 (by decide) (by decide)

example : Pcap.run (corruptFile f3 bad) script3 =
    .inr [.res (.arr [toPacket r1, toPacket r2]), .res (.arr [toPacket r3]), .res (.err .invalidData),
      .res (.arr []), .res (.err .invalidData)] := by rfl
example : expect (corruptFile f3 bad) (script3.map toCall) =
    some [.pkts [r1, r2], .pkts [r3], .nullOrErr, .any, .any] := by rfl

/-- the truncated file: the three records, then 17 of the 19 bytes of another record; `N, N, N, N, N` -/
example : Refines (truncatedFile f3 r1 17) [.next, .next, .next, .next, .next] :=
  history_refines_truncated_reads f3 r1 17 (f3_wf.recs r1 (by simp [f3])) (by decide) f3_wf (by decide) _
    (by decide) (by decide)

example : expect (truncatedFile f3 r1 17) ([Step.next, .next, .next, .next, .next].map toCall) =
    some [.pkt r1, .pkt r2, .pkt r3, .nullOrErr, .any] := by rfl

/-- any bytes at all after a good header (`history_refines_any`): here a record, then garbage -/
example : Refines (encodeHeader hdr3 ++ encodeRecord r3 ++ [1, 2, 3, 4, 5]) script1 :=
  history_refines_any _ (by decide) hdr3 [r3] [1, 2, 3, 4, 5] (by rfl) script1 (by decide) (by decide) (by decide)

/-- the hypothesis on the counts is needed: `2^64` is not an `i64`; as a `usize` it is 0, the model
returns the empty array where the specification (which knows no overflow) expects all records -/
example : ¬ Refines (encode f3) [.all (some 18446744073709551616)] := by
  rintro ⟨outs, es, h1, h2, h3⟩
  have e1 : Pcap.run (encode f3) [.all (some 18446744073709551616)] = .inr [.res (.arr [])] := by rfl
  have e2 : expect (encode f3) ([Step.all (some 18446744073709551616)].map toCall) = some [.pkts [r1, r2, r3]] := by rfl
  rw [e1] at h1; rw [e2] at h2
  injection h1 with h1; injection h2 with h2
  subst h1; subst h2
  cases h3 with
  | cons h _ => exact absurd h (by decide)

/-- the hypothesis on `R` is needed: a read between `W` and `R` makes the second file stale -/
example : ¬ Refines (encode f3) [.next, .write, .next, .readBack] := by
  rintro ⟨outs, es, h1, h2, h3⟩
  have e1 : Pcap.run (encode f3) [.next, .write, .next, .readBack] =
      .inr [.res (.pkt (toPacket r1)), .written (writeFile [toPacket r1]), .res (.pkt (toPacket r2)),
        .res (.arr [toPacket r1])] := by rfl
  have e2 : expect (encode f3) ([Step.next, .write, .next, .readBack].map toCall) =
      some [.pkt r1, .any, .pkt r2, .pkts [r1, r2]] := by rfl
  rw [e1] at h1; rw [e2] at h2
  injection h1 with h1; injection h2 with h2
  subst h1; subst h2
  cases h3 with
  | cons _ h3 => cases h3 with
    | cons _ h3 => cases h3 with
      | cons _ h3 => cases h3 with
        | cons h _ => exact absurd h (by decide)

end Example

#print axioms history_refines_reads
#print axioms history_refines
#print axioms history_refines_truncated
#print axioms history_refines_truncated_reads
#print axioms history_refines_corrupt
#print axioms history_refines_corrupt_reads
#print axioms history_refines_junk
#print axioms history_refines_body
#print axioms history_refines_any
#print axioms open_fails
#print axioms decode_truncated
#print axioms tailKind_truncated
#print axioms decode_corrupt
#print axioms tailKind_corrupt

end P2sh.Props.C19Hist
