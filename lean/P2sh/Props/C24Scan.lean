import P2sh.Props.C01
/-!
# C24 — a shebang line is a comment (`shebang_is_comment`), on the scanner model

`shift pre d a` is the scanner state `a` over the input extended to the left by `pre`
(`position`/`readPosition` moved by `pre.size`, `line` by `d`, same `ch`).  Every function of the
scanner model commutes with `shift`:

* the inner loops, with the same fuel and no side condition (`readWhile_shift`, `skipLine_shift`, …);
* their result does not depend on the fuel once it exceeds the characters left (`readWhile_fuel`, …),
  which bridges the different fuels (`input.size + 1`) the model passes on the two inputs;
* the reader functions (`readString_shift`, `readCharToken_shift`, `readIdentifier_shift`,
  `readNumber_shift`), `next_token` (**`nextToken_shift`**) and the token loop (`run_shift`).

Consequences (`scan_prefix`: whenever the skipping phase of the first `next_token` passes over `pre`):

* **`comment_line_is_skipped`** — for every leading `#…` or `//…` line `c` (no `'\n'`, no NUL after its
  first character) and every `s`: `scan (c ++ "\n" ++ s)` = the tokens of `scan s`, one line down;
* **`shebang_is_comment`** — the instance `c = "#!" ++ rest` the property names; `shebang_crlf` (CR LF);
* **`comment_line_only`** — such a line at the end of the input, without newline, scans to `[Eof]`;
* **`blank_prefix_is_skipped`** — leading blanks/blank lines only move the line numbers.

The NUL restriction is necessary (the scanner reports `Eof` at the first NUL; see the example at the end).
-/
set_option linter.unusedSimpArgs false
namespace P2sh.Props.C24
open P2sh.Scanner P2sh.Props.C01

/-! ## the result of an inner loop does not depend on the fuel, once the fuel exceeds the
number of characters left (and all call sites pass at least `input.size + 1`) -/

theorem readWhile_fuel (p : Char → Bool) (hp : p nul = false) : ∀ (f1 f2 : Nat) (s : S), Inv s →
    s.input.size - s.position < f1 → s.input.size - s.position < f2 → readWhile p f1 s = readWhile p f2 s
  | 0, _, _, _, h1, _ => absurd h1 (Nat.not_lt_zero _)
  | _, 0, _, _, _, h2 => absurd h2 (Nat.not_lt_zero _)
  | f1+1, f2+1, s, h, h1, h2 => by
    simp only [readWhile]
    split
    · next hc =>
      have hne : s.ch ≠ nul := by intro e; rw [e, hp] at hc; exact Bool.noConfusion hc
      have hlt := h.lt_of_ne hne
      exact readWhile_fuel p hp f1 f2 s.readChar (readChar_inv s)
        (by rw [readChar_input, h.readChar_pos]; omega) (by rw [readChar_input, h.readChar_pos]; omega)
    · rfl

theorem readUntilQuote_fuel : ∀ (f1 f2 : Nat) (s : S), Inv s →
    s.input.size - s.position < f1 → s.input.size - s.position < f2 → readUntilQuote f1 s = readUntilQuote f2 s
  | 0, _, _, _, h1, _ => absurd h1 (Nat.not_lt_zero _)
  | _, 0, _, _, _, h2 => absurd h2 (Nat.not_lt_zero _)
  | f1+1, f2+1, s, h, h1, h2 => by
    simp only [readUntilQuote]
    split
    · next hc =>
      have hne : s.ch ≠ nul := by intro e; simp [e] at hc
      have hlt := h.lt_of_ne hne
      exact readUntilQuote_fuel f1 f2 s.readChar (readChar_inv s)
        (by rw [readChar_input, h.readChar_pos]; omega) (by rw [readChar_input, h.readChar_pos]; omega)
    · rfl

theorem readStringBody_fuel : ∀ (f1 f2 : Nat) (s : S), Inv s →
    0 < f1 → s.input.size - s.position ≤ f1 → 0 < f2 → s.input.size - s.position ≤ f2 →
    readStringBody f1 s = readStringBody f2 s
  | 0, _, _, _, h0, _, _, _ => absurd h0 (Nat.lt_irrefl _)
  | _, 0, _, _, _, _, h0, _ => absurd h0 (Nat.lt_irrefl _)
  | f1+1, f2+1, s, h, _, h1, _, h2 => by
    rw [readStringBody, readStringBody]
    split
    · rfl
    · next hc =>
      have hne : s.readChar.ch ≠ nul := by intro e; simp [e] at hc
      have hlt' := (readChar_inv s).lt_of_ne hne
      rw [readChar_input, h.readChar_pos] at hlt'
      obtain ⟨i', hin', hpos', -⟩ := bump_facts s.readChar (readChar_inv s)
      generalize (if (s.readChar.ch == '\n') = true then { s.readChar with line := s.readChar.line + 1 } else s.readChar) = s1'
        at i' hin' hpos'
      exact readStringBody_fuel f1 f2 s1' i' (by omega)
        (by rw [hin', hpos', readChar_input, h.readChar_pos]; omega) (by omega)
        (by rw [hin', hpos', readChar_input, h.readChar_pos]; omega)

theorem skipLine_fuel : ∀ (f1 f2 : Nat) (s : S), Inv s →
    0 < f1 → s.input.size - s.position ≤ f1 → 0 < f2 → s.input.size - s.position ≤ f2 →
    skipLine f1 s = skipLine f2 s
  | 0, _, _, _, h0, _, _, _ => absurd h0 (Nat.lt_irrefl _)
  | _, 0, _, _, _, _, h0, _ => absurd h0 (Nat.lt_irrefl _)
  | f1+1, f2+1, s, h, _, h1, _, h2 => by
    rw [skipLine, skipLine]
    split
    · rfl
    · next hc =>
      have hne : s.readChar.ch ≠ nul := by intro e; simp [e] at hc
      have hlt' := (readChar_inv s).lt_of_ne hne
      rw [readChar_input, h.readChar_pos] at hlt'
      exact skipLine_fuel f1 f2 s.readChar (readChar_inv s) (by omega)
        (by rw [readChar_input, h.readChar_pos]; omega) (by omega)
        (by rw [readChar_input, h.readChar_pos]; omega)

theorem skipWhitespace_fuel : ∀ (f1 f2 : Nat) (s : S), Inv s →
    s.input.size - s.position < f1 → s.input.size - s.position < f2 → skipWhitespace f1 s = skipWhitespace f2 s
  | 0, _, _, _, h1, _ => absurd h1 (Nat.not_lt_zero _)
  | _, 0, _, _, _, h2 => absurd h2 (Nat.not_lt_zero _)
  | f1+1, f2+1, s, h, h1, h2 => by
    simp only [skipWhitespace]
    split
    · next hc =>
      have hne : s.ch ≠ nul := by intro e; simp [e] at hc; revert hc; decide
      have hlt := h.lt_of_ne hne
      exact skipWhitespace_fuel f1 f2 s.readChar (readChar_inv s)
        (by rw [readChar_input, h.readChar_pos]; omega) (by rw [readChar_input, h.readChar_pos]; omega)
    · split
      · next hc2 =>
        have hne : s.ch ≠ nul := by intro e; simp [e] at hc2; revert hc2; decide
        have hlt := h.lt_of_ne hne
        have hn := Skip.newline h (eq_of_beq hc2)
        have hp : ({ s.readChar with line := s.line + 1 } : S).position = s.position + 1 := h.readChar_pos
        exact skipWhitespace_fuel f1 f2 _ hn.inv (by rw [hn.input, hp]; omega) (by rw [hn.input, hp]; omega)
      · rfl

theorem skipComments_fuel : ∀ (f1 f2 : Nat) (s : S), Inv s →
    s.input.size - s.position < f1 → s.input.size - s.position < f2 → skipComments f1 s = skipComments f2 s
  | 0, _, _, _, h1, _ => absurd h1 (Nat.not_lt_zero _)
  | _, 0, _, _, _, h2 => absurd h2 (Nat.not_lt_zero _)
  | f1+1, f2+1, s, h, h1, h2 => by
    rw [skipComments, skipComments]
    split
    · next hc =>
      have hne : s.ch ≠ nul := by
        intro e; simp [e] at hc
        rcases hc with h | ⟨h, _⟩ <;> exact absurd h (by decide)
      have hlt := h.lt_of_ne hne
      have k1 := skipLine_skip (s.input.size + 1) s h
      have p1 := skipLine_pos s.input.size s h
      generalize skipLine (s.input.size + 1) s = s1 at k1 p1
      show skipComments f1 (skipWhitespace (s1.input.size + 2) s1) = skipComments f2 (skipWhitespace (s1.input.size + 2) s1)
      have k2 := skipWhitespace_skip (s1.input.size + 2) s1 k1.inv
      generalize skipWhitespace (s1.input.size + 2) s1 = s2 at k2
      have := k2.pos
      exact skipComments_fuel f1 f2 s2 k2.inv (by rw [k2.input, k1.input]; omega) (by rw [k2.input, k1.input]; omega)
    · rfl

/-- `read_number` as the composition of its three stages (`numHead`, `numMid`, `numTail` of the C01 file) -/
theorem readNumber_eq (s0 : S) :
    readNumber s0 =
      numTail s0.position (s0.input.size + 1)
        (numMid (s0.input.size + 1)
          (readWhile (fun c => c.isDigit || ((numHead s0).2.1 && isHexDigit c)) (s0.input.size + 1) (numHead s0).1)).1
        (numHead s0).2.1 (numHead s0).2.2.1 (numHead s0).2.2.2
        (numMid (s0.input.size + 1)
          (readWhile (fun c => c.isDigit || ((numHead s0).2.1 && isHexDigit c)) (s0.input.size + 1) (numHead s0).1)).2 := by
  unfold readNumber
  extract_lets position n
  split
  next s isHex isOct isBin heq =>
  have e1 : numHead s0 = (s, isHex, isOct, isBin) := heq
  rw [e1]
  extract_lets sA
  split
  next sB isFloat heq2 =>
  have e2 : numMid (s0.input.size + 1)
      (readWhile (fun c => c.isDigit || (isHex && isHexDigit c)) (s0.input.size + 1) s) = (sB, isFloat) := heq2
  simp only []
  rw [e2]
  rfl

theorem readWhile_inv (p : Char → Bool) : ∀ (f : Nat) (s : S), Inv s → Inv (readWhile p f s)
  | 0, _, h => h
  | f+1, s, h => by
    simp only [readWhile]
    split
    · exact readWhile_inv p f _ (readChar_inv s)
    · exact h

theorem readUntilQuote_inv : ∀ (f : Nat) (s : S), Inv s → Inv (readUntilQuote f s)
  | 0, _, h => h
  | f+1, s, h => by
    simp only [readUntilQuote]
    split
    · exact readUntilQuote_inv f _ (readChar_inv s)
    · exact h

@[simp] theorem readWhile_input (p : Char → Bool) : ∀ (f : Nat) (s : S), (readWhile p f s).input = s.input
  | 0, _ => rfl
  | f+1, s => by
    simp only [readWhile]
    split
    · exact readWhile_input p f _
    · rfl

theorem inv_condStep {s : S} (h : Inv s) (c : Prop) [Decidable c] : Inv (if c then s.readChar else s) := by
  split
  · exact readChar_inv s
  · exact h

theorem numHead_inv (a : S) (h : Inv a) : Inv (numHead a).1 := by
  simp only [numHead]
  split
  · split
    · exact readChar_inv _
    · split
      · exact readChar_inv _
      · split
        · exact readChar_inv _
        · exact readChar_inv _
  · exact h

theorem numHead_input (a : S) : (numHead a).1.input = a.input := by
  simp only [numHead]
  split
  · split
    · rfl
    · split
      · rfl
      · split <;> rfl
  · rfl

theorem numMid_inv (n : Nat) (x : S) (h : Inv x) : Inv (numMid n x).1 := by
  simp only [numMid]
  split
  · exact readWhile_inv _ _ _ (readChar_inv x)
  · exact h

theorem numMid_input (n : Nat) (x : S) : (numMid n x).1.input = x.input := by
  simp only [numMid]
  split
  · simp only [readWhile_input, readChar_input]
  · rfl

section Shift
variable (pre : Array Char) (d : Nat)

/-- the same cursor over the input extended to the left by `pre`, `d` lines further down -/
def shift (a : S) : S :=
  { input := pre ++ a.input, position := a.position + pre.size, readPosition := a.readPosition + pre.size,
    ch := a.ch, line := a.line + d }

def shiftTok (t : Token) : Token := { t with line := t.line + d }

def shiftRes : Res → Res
  | .tok t s => .tok (shiftTok d t) (shift pre d s)
  | .panic => .panic

@[simp] theorem shift_ch (a : S) : (shift pre d a).ch = a.ch := rfl
@[simp] theorem shift_position (a : S) : (shift pre d a).position = a.position + pre.size := rfl
@[simp] theorem shift_readPosition (a : S) : (shift pre d a).readPosition = a.readPosition + pre.size := rfl
@[simp] theorem shift_line (a : S) : (shift pre d a).line = a.line + d := rfl
@[simp] theorem shift_input (a : S) : (shift pre d a).input = pre ++ a.input := rfl
@[simp] theorem shift_size (a : S) : (shift pre d a).input.size = a.input.size + pre.size := by
  simp [Nat.add_comm]

theorem getD_shift (inp : Array Char) (i : Nat) : (pre ++ inp).getD (i + pre.size) nul = inp.getD i nul := by
  simp [Array.getD_eq_getD_getElem?, Array.getElem?_append_right]

theorem shift_getD (a : S) (i : Nat) : (shift pre d a).input.getD (i + pre.size) nul = a.input.getD i nul :=
  getD_shift pre a.input i

/-- the checked element read `self.input[i]` behind the prefix -/
theorem shift_elem (a : S) (i : Nat) : (shift pre d a).at (i + pre.size) = a.at i := by
  simp only [S.at, shift]
  rw [Array.getElem?_append_right (by omega)]
  congr 1; omega

theorem readChar_eq (s : S) : s.readChar =
    { s with ch := s.input.getD s.readPosition nul, position := s.readPosition, readPosition := s.readPosition + 1 } := by
  have := readChar_ch s
  cases s
  simp_all [S.readChar]

@[simp] theorem shift_readChar (a : S) : (shift pre d a).readChar = shift pre d a.readChar := by
  rw [readChar_eq, readChar_eq]
  simp only [shift, getD_shift, Nat.add_right_comm]

@[simp] theorem shift_peekChar (a : S) : (shift pre d a).peekChar = a.peekChar := by
  rw [peekChar_eq, peekChar_eq]
  simp only [shift_input, shift_readPosition, getD_shift]

theorem shift_slice (a : S) (p q : Nat) :
    (shift pre d a).slice (p + pre.size) (q + pre.size) = a.slice p q := by
  simp only [S.slice, shift_input]
  have e1 : (p + pre.size ≤ q + pre.size ∧ q + pre.size ≤ (pre ++ a.input).size) ↔ (p ≤ q ∧ q ≤ a.input.size) := by
    rw [Array.size_append]; omega
  have e2 : q + pre.size - (p + pre.size) = q - p := by omega
  have e3 : List.drop (p + pre.size) (pre ++ a.input).toList = List.drop p a.input.toList := by
    rw [Array.toList_append, Nat.add_comm, ← List.drop_drop]
    simp
  simp only [e1, e2, e3]

@[simp] theorem shift_mk (a : S) (ty lit : String) : mk (shift pre d a) ty lit = shiftTok d (mk a ty lit) := rfl


@[simp] theorem shiftRes_tok (t : Token) (s : S) : shiftRes pre d (.tok t s) = .tok (shiftTok d t) (shift pre d s) := rfl
@[simp] theorem shiftRes_panic : shiftRes pre d .panic = .panic := rfl

theorem shiftRes_ite (c : Prop) [Decidable c] (x y : Res) :
    shiftRes pre d (if c then x else y) = if c then shiftRes pre d x else shiftRes pre d y := by
  split <;> rfl

theorem shift_ite (c : Prop) [Decidable c] (x y : S) :
    (if c then shift pre d x else shift pre d y) = shift pre d (if c then x else y) := by
  split <;> rfl

/-- the line increment inside a string literal / on the character of a char literal / on the byte of a byte literal -/
theorem shift_bump (c : Prop) [Decidable c] (a : S) :
    (if c then { shift pre d a with line := (shift pre d a).line + 1 } else shift pre d a) =
      shift pre d (if c then { a with line := a.line + 1 } else a) := by
  split
  · simp only [shift, Nat.add_right_comm]
  · rfl

/-! ### the loops commute with `shift` (same fuel, no side condition) -/

theorem readWhile_shift (p : Char → Bool) : ∀ (f : Nat) (a : S),
    readWhile p f (shift pre d a) = shift pre d (readWhile p f a)
  | 0, _ => rfl
  | f+1, a => by
    simp only [readWhile, shift_ch, shift_readChar]
    split
    · exact readWhile_shift p f a.readChar
    · rfl

theorem readUntilQuote_shift : ∀ (f : Nat) (a : S),
    readUntilQuote f (shift pre d a) = shift pre d (readUntilQuote f a)
  | 0, _ => rfl
  | f+1, a => by
    simp only [readUntilQuote, shift_ch, shift_readChar]
    split
    · exact readUntilQuote_shift f a.readChar
    · rfl

theorem readStringBody_shift : ∀ (f : Nat) (a : S),
    readStringBody f (shift pre d a) = shift pre d (readStringBody f a)
  | 0, _ => rfl
  | f+1, a => by
    rw [readStringBody, readStringBody]
    simp only [shift_readChar]
    simp only [shift_bump]
    by_cases hc : (a.readChar.ch == '"' || a.readChar.ch == nul) = true
    · have hc' : ((shift pre d a.readChar).ch == '"' || (shift pre d a.readChar).ch == nul) = true := hc
      rw [if_pos hc, if_pos hc']
    · have hc' : ¬ ((shift pre d a.readChar).ch == '"' || (shift pre d a.readChar).ch == nul) = true := hc
      rw [if_neg hc, if_neg hc']
      exact readStringBody_shift f _

theorem skipLine_shift : ∀ (f : Nat) (a : S),
    skipLine f (shift pre d a) = shift pre d (skipLine f a)
  | 0, _ => rfl
  | f+1, a => by
    rw [skipLine, skipLine]
    simp only [shift_ch, shift_readChar]
    split
    · rfl
    · exact skipLine_shift f a.readChar

theorem shift_newline (a : S) :
    { (shift pre d a).readChar with line := (shift pre d a).line + 1 } =
      shift pre d { a.readChar with line := a.line + 1 } := by
  rw [shift_readChar]
  simp only [shift, Nat.add_right_comm]

theorem skipWhitespace_shift : ∀ (f : Nat) (a : S),
    skipWhitespace f (shift pre d a) = shift pre d (skipWhitespace f a)
  | 0, _ => rfl
  | f+1, a => by
    by_cases h1 : (a.ch == ' ' || a.ch == '\t' || a.ch == '\r') = true
    · simp only [skipWhitespace, shift_ch, h1, if_true, shift_readChar]
      exact skipWhitespace_shift f a.readChar
    · by_cases h2 : (a.ch == '\n') = true
      · have e := shift_newline pre d a
        simp only [skipWhitespace, shift_ch, h1, h2, if_true, if_false] at e ⊢
        rw [e]
        exact skipWhitespace_shift f _
      · simp only [skipWhitespace, shift_ch, h1, h2, if_false]
        rfl

/-! ### the loops at their call sites: the fuel on the extended input is larger -/

theorem readWhile_site (p : Char → Bool) (hp : p nul = false) (a : S) (h : Inv a) (F F' : Nat)
    (hF : a.input.size < F) (hF' : a.input.size < F') :
    readWhile p F (shift pre d a) = shift pre d (readWhile p F' a) := by
  rw [readWhile_shift, readWhile_fuel p hp F F' a h (by omega) (by omega)]

theorem readUntilQuote_site (a : S) (h : Inv a) (F F' : Nat)
    (hF : a.input.size < F) (hF' : a.input.size < F') :
    readUntilQuote F (shift pre d a) = shift pre d (readUntilQuote F' a) := by
  rw [readUntilQuote_shift, readUntilQuote_fuel F F' a h (by omega) (by omega)]

theorem readStringBody_site (a : S) (h : Inv a) (F F' : Nat)
    (hF : a.input.size < F) (hF' : a.input.size < F') :
    readStringBody F (shift pre d a) = shift pre d (readStringBody F' a) := by
  rw [readStringBody_shift, readStringBody_fuel F F' a h (by omega) (by omega) (by omega) (by omega)]

theorem skipLine_site (a : S) (h : Inv a) (F F' : Nat)
    (hF : a.input.size < F) (hF' : a.input.size < F') :
    skipLine F (shift pre d a) = shift pre d (skipLine F' a) := by
  rw [skipLine_shift, skipLine_fuel F F' a h (by omega) (by omega) (by omega) (by omega)]

theorem skipWhitespace_site (a : S) (h : Inv a) (F F' : Nat)
    (hF : a.input.size < F) (hF' : a.input.size < F') :
    skipWhitespace F (shift pre d a) = shift pre d (skipWhitespace F' a) := by
  rw [skipWhitespace_shift, skipWhitespace_fuel F F' a h (by omega) (by omega)]

theorem skipComments_shift : ∀ (f : Nat) (a : S), Inv a →
    skipComments f (shift pre d a) = shift pre d (skipComments f a)
  | 0, _, _ => rfl
  | f+1, a, h => by
    rw [skipComments, skipComments]
    simp only [shift_ch, shift_peekChar]
    have k1 := skipLine_skip (a.input.size + 1) a h
    have e1 := skipLine_site pre d a h ((shift pre d a).input.size + 1) (a.input.size + 1)
      (by rw [shift_size]; omega) (by omega)
    rw [e1]
    generalize skipLine (a.input.size + 1) a = a1 at k1
    have k2 := skipWhitespace_skip (a1.input.size + 2) a1 k1.inv
    have e2 := skipWhitespace_site pre d a1 k1.inv ((shift pre d a1).input.size + 2) (a1.input.size + 2)
      (by rw [shift_size]; omega) (by omega)
    simp only [e2]
    rw [skipComments_shift f _ k2.inv]
    split <;> rfl

/-! ### the reader functions commute with `shift` -/

theorem readString_shift (a : S) (h : Inv a) : readString (shift pre d a) = shiftRes pre d (readString a) := by
  simp only [readString]
  rw [readStringBody_site pre d a h ((shift pre d a).input.size + 1) (a.input.size + 1)
    (by rw [shift_size]; omega) (by omega)]
  generalize readStringBody (a.input.size + 1) a = a1
  rw [shift_position, shift_position, Nat.add_right_comm, shift_slice]
  cases a1.slice (a.position + 1) a1.position with
  | none => rfl
  | some t =>
    simp only [shift_ch, shift_mk, shiftRes_ite, shiftRes_tok]
    rfl

theorem readCharToken_shift (a : S) : readCharToken (shift pre d a) = shiftRes pre d (readCharToken a) := by
  simp only [readCharToken, shift_readChar]
  generalize a.readChar = a1
  simp only [shift_bump]
  simp only [shift_position, shift_size, ge_iff_le, Nat.add_le_add_iff_right, shift_getD, shift_elem,
    shift_readChar, shift_ch, shift_mk, shiftRes_ite, shiftRes_tok]
  cases a1.at a1.position with
  | none => split <;> rfl
  | some c =>
    simp only []
    have i2 := readChar_inv (if (c == '\n') = true then { a1 with line := a1.line + 1 } else a1)
    generalize (if (c == '\n') = true then { a1 with line := a1.line + 1 } else a1).readChar = a2 at i2
    rw [readUntilQuote_site pre d a2 i2 (a2.input.size + pre.size + 1) (a2.input.size + 1) (by omega) (by omega)]
    generalize readUntilQuote (a2.input.size + 1) a2 = a3
    simp only [shift_ch, shift_readChar, shift_ite, shift_position, shift_slice]
    generalize (if (a3.ch == '\'') = true then a3.readChar else a3) = a4
    cases a4.slice a.position a4.position <;> (try simp only [shiftRes_ite, shiftRes_tok, shift_mk]) <;> rfl

theorem readIdentifier_shift (a : S) (h : Inv a) :
    readIdentifier (shift pre d a) = shiftRes pre d (readIdentifier a) := by
  simp only [readIdentifier]
  rw [readWhile_site pre d isIdentRemaining identRemaining_nul a h ((shift pre d a).input.size + 1)
    (a.input.size + 1) (by rw [shift_size]; omega) (by omega)]
  generalize readWhile isIdentRemaining (a.input.size + 1) a = a1
  simp only [shift_position, shift_slice]
  cases a1.slice a.position a1.position with
  | none => rfl
  | some t =>
    simp only [shift_readChar]
    generalize a1.readChar = a2
    simp only [shift_bump]
    simp only [shift_position, shift_size, ge_iff_le, Nat.add_le_add_iff_right, shift_getD, shift_elem,
      shift_readChar, shift_ch, shift_mk, shiftRes_ite, shiftRes_tok]
    cases a2.at a2.position with
    | none =>
      simp only [shift_slice]
      cases a2.slice a.position a2.input.size <;> (try simp only [shiftRes_ite, shiftRes_tok, shift_mk]) <;> rfl
    | some c =>
    simp only []
    have i3 := readChar_inv (if (c == '\n') = true then { a2 with line := a2.line + 1 } else a2)
    generalize (if (c == '\n') = true then { a2 with line := a2.line + 1 } else a2).readChar = a3 at i3
    simp only [shift_ite]
    have i4 : Inv (if (a3.ch == '\'') = true then a3.readChar else a3) := inv_condStep i3 _
    generalize (if (a3.ch == '\'') = true then a3.readChar else a3) = a4 at i4
    rw [readUntilQuote_site pre d a4 i4 ((shift pre d a4).input.size + 1) (a4.input.size + 1)
      (by rw [shift_size]; omega) (by omega)]
    generalize readUntilQuote (a4.input.size + 1) a4 = a5
    simp only [shift_ch, shift_readChar, shift_ite, shift_position, shift_slice]
    generalize (if (a5.ch == '\'') = true then a5.readChar else a5) = a6
    generalize a2.slice a.position a2.input.size = o1
    generalize a6.slice a.position a6.position = o2
    cases o1 <;> cases o2 <;> (try simp only [shiftRes_ite, shiftRes_tok, shift_mk]) <;> rfl

theorem numHead_shift (a : S) :
    numHead (shift pre d a) = (shift pre d (numHead a).1, (numHead a).2) := by
  simp only [numHead, shift_ch, shift_readChar]
  split
  · split
    · rfl
    · split
      · rfl
      · split <;> rfl
  · rfl

theorem numMid_shift (x : S) (F F' : Nat) (hF : x.input.size < F) (hF' : x.input.size < F') :
    numMid F (shift pre d x) = (shift pre d (numMid F' x).1, (numMid F' x).2) := by
  simp only [numMid, shift_ch, shift_peekChar, shift_readChar]
  rw [readWhile_site pre d Char.isDigit isDigit_nul x.readChar (readChar_inv x) F F' hF hF']
  split <;> rfl

theorem numTail_shift (x : S) (h : Inv x) (p F F' : Nat) (hF : x.input.size < F) (hF' : x.input.size < F')
    (isHex isOct isBin isFloat : Bool) :
    numTail (p + pre.size) F (shift pre d x) isHex isOct isBin isFloat =
      shiftRes pre d (numTail p F' x isHex isOct isBin isFloat) := by
  simp only [numTail, shift_ch, shift_readChar, shiftRes_ite]
  rw [readWhile_site pre d isIdentFirst identFirst_nul x h F F' hF hF']
  generalize readWhile isIdentFirst F' x = x1
  have i2 := readChar_inv x
  have s2 : x.readChar.input.size = x.input.size := rfl
  generalize x.readChar = x2 at i2 s2
  simp only [shift_ite]
  have i3 : Inv (if (x2.ch == '-' || x2.ch == '+') = true then x2.readChar else x2) := inv_condStep i2 _
  have s3 : (if (x2.ch == '-' || x2.ch == '+') = true then x2.readChar else x2).input.size = x.input.size := by
    split
    · exact s2
    · exact s2
  generalize (if (x2.ch == '-' || x2.ch == '+') = true then x2.readChar else x2) = x3 at i3 s3
  rw [readWhile_site pre d Char.isDigit isDigit_nul x3 i3 F F' (by omega) (by omega)]
  have i4 := readWhile_inv Char.isDigit F' x3 i3
  have s4 : (readWhile Char.isDigit F' x3).input.size = x.input.size := by rw [readWhile_input]; exact s3
  generalize readWhile Char.isDigit F' x3 = x4 at i4 s4
  rw [readWhile_site pre d isIdentFirst identFirst_nul x4 i4 F F' (by omega) (by omega)]
  generalize readWhile isIdentFirst F' x4 = x5
  simp only [shift_position, shift_slice]
  generalize x2.slice p x2.position = o2
  generalize x5.slice p x5.position = o5
  generalize x1.slice p x1.position = o1
  cases o1 <;> cases o2 <;> cases o5 <;> rfl

theorem readNumber_shift (a : S) (h : Inv a) :
    readNumber (shift pre d a) = shiftRes pre d (readNumber a) := by
  rw [readNumber_eq, readNumber_eq, numHead_shift]
  simp only []
  have iH := numHead_inv a h
  have sH : (numHead a).1.input.size = a.input.size := by rw [numHead_input]
  generalize numHead a = H at iH sH
  obtain ⟨s, isHex, isOct, isBin⟩ := H
  simp only [] at iH sH ⊢
  rw [readWhile_site pre d _ (digit_pred_nul isHex) s iH ((shift pre d a).input.size + 1) (a.input.size + 1)
    (by rw [shift_size]; omega) (by omega)]
  have iA := readWhile_inv (fun c => c.isDigit || (isHex && isHexDigit c)) (a.input.size + 1) s iH
  have sA : (readWhile (fun c => c.isDigit || (isHex && isHexDigit c)) (a.input.size + 1) s).input.size = a.input.size := by
    rw [readWhile_input]; exact sH
  generalize readWhile (fun c => c.isDigit || (isHex && isHexDigit c)) (a.input.size + 1) s = sA' at iA sA
  rw [numMid_shift pre d sA' ((shift pre d a).input.size + 1) (a.input.size + 1) (by rw [shift_size]; omega) (by omega)]
  simp only []
  have iM := numMid_inv (a.input.size + 1) sA' iA
  have sM : (numMid (a.input.size + 1) sA').1.input.size = a.input.size := by rw [numMid_input]; exact sA
  generalize numMid (a.input.size + 1) sA' = M at iM sM
  obtain ⟨sB, isFloat⟩ := M
  simp only [] at iM sM ⊢
  rw [shift_position]
  exact numTail_shift pre d sB iM a.position _ _ (by rw [shift_size]; omega) (by omega) _ _ _ _

theorem singleOrTwin_shift (a : S) :
    singleOrTwin (shift pre d a) =
      (singleOrTwin a).map (fun x => (shiftTok d x.1, shift pre d x.2)) := by
  simp only [singleOrTwin, shift_ch, shift_peekChar, shift_readChar, shift_mk]
  cases List.find? (fun x => x.fst == String.singleton a.ch) Gen.ParseRules.singles with
  | some x => rfl
  | none =>
    cases List.find? (fun x => x.fst == String.singleton a.ch) Gen.ParseRules.twins with
    | none => rfl
    | some y =>
      obtain ⟨y1, y2, y3⟩ := y
      simp only []
      cases List.find? (fun x => x.fst == String.singleton a.peekChar) y3 <;> rfl

/-- **nextToken_shift**: `next_token` on the input extended to the left by `pre`, started `pre.size`
characters further right and `d` lines further down, returns the same token `d` lines further down and
the correspondingly shifted state -/
theorem nextToken_shift (a : S) (h : Inv a) :
    nextToken (shift pre d a) = shiftRes pre d (nextToken a) := by
  have k1 := skipWhitespace_skip (a.input.size + 2) a h
  have e1 := skipWhitespace_site pre d a h ((shift pre d a).input.size + 2) (a.input.size + 2)
    (by rw [shift_size]; omega) (by omega)
  simp only [nextToken]
  rw [e1]
  generalize skipWhitespace (a.input.size + 2) a = a1 at k1
  have e2 : skipComments ((shift pre d a).input.size + 2) (shift pre d a1) =
      shift pre d (skipComments (a.input.size + 2) a1) := by
    rw [skipComments_shift pre d _ a1 k1.inv,
      skipComments_fuel _ (a.input.size + 2) a1 k1.inv (by rw [shift_size, k1.input]; omega) (by rw [k1.input]; omega)]
  rw [e2]
  have k2 := skipComments_skip (a.input.size + 2) a1 k1.inv
  generalize skipComments (a.input.size + 2) a1 = a2 at k2
  have i2 := k2.inv
  simp only [shift_ch, shift_readChar, shift_peekChar, shift_mk, singleOrTwin_shift,
    readString_shift pre d a2 i2, readCharToken_shift, readIdentifier_shift pre d a2 i2,
    readNumber_shift pre d a2 i2, shiftRes_ite, shiftRes_tok]
  generalize singleOrTwin a2 = o
  generalize readString a2 = r1
  generalize readCharToken a2 = r2
  generalize readIdentifier a2 = r3
  generalize readNumber a2 = r4
  cases o with
  | some x =>
    obtain ⟨t, s'⟩ := x
    simp only [Option.map_some, shift_readChar, shiftRes_tok]
  | none =>
    simp only [Option.map_none, shiftRes_ite, shiftRes_tok]
    cases r1 <;> cases r2 <;> simp only [shiftRes_tok, shiftRes_panic, shift_readChar]

@[simp] theorem shiftTok_ttype (t : Token) : (shiftTok d t).ttype = t.ttype := rfl

/-- the token loop on the shifted state yields the shifted tokens (any sufficient fuel) -/
theorem run_shift : ∀ (f1 f2 : Nat) (a : S) (acc ts : List Token), Inv a →
    run f1 a acc = .ok ts → a.input.size + 1 - a.position < f2 →
    run f2 (shift pre d a) (acc.map (shiftTok d)) = .ok (ts.map (shiftTok d))
  | 0, _, _, _, _, _, e, _ => by rw [run_zero] at e; exact Run.noConfusion e
  | _, 0, _, _, _, _, _, hf => absurd hf (Nat.not_lt_zero _)
  | f1+1, f2+1, a, acc, ts, h, e, hf => by
    obtain ⟨t, s', et, nx⟩ := nextToken_spec a h
    have eb : nextToken (shift pre d a) = .tok (shiftTok d t) (shift pre d s') := by
      rw [nextToken_shift pre d a h, et]; rfl
    rw [run_succ_tok f1 a acc t s' et] at e
    rw [run_succ_tok f2 _ _ _ _ eb, shiftTok_ttype]
    split at e
    · next ht =>
      injection e with e
      rw [if_pos ht, ← e]
      simp
    · next ht =>
      rw [if_neg ht]
      have hne : t.ttype ≠ "Eof" := fun e => ht (beq_iff_eq.mpr e)
      have hlive := nx.live hne
      have hpos := nx.pos
      have hin : s'.input.size = a.input.size := by rw [nx.input]
      have := run_shift f1 f2 s' (acc ++ [t]) ts nx.inv e (by omega)
      simpa using this

theorem shift_inv (a : S) (h : Inv a) : Inv (shift pre d a) :=
  ⟨by rw [shift_readPosition, shift_position, h.rp, Nat.add_right_comm],
   by rw [shift_ch, shift_position, shift_getD]; exact h.ch⟩

end Shift

/-! ## a prefix that the skipping phase of the first `next_token` passes over -/

theorem nextToken_congr {s s' : S}
    (h : skipComments (s.input.size + 2) (skipWhitespace (s.input.size + 2) s) =
      skipComments (s'.input.size + 2) (skipWhitespace (s'.input.size + 2) s')) :
    nextToken s = nextToken s' := by
  simp only [nextToken, h]

theorem run_congr_first {b b' : S} (hb : Inv b') (h : nextToken b = nextToken b') (f : Nat) (acc : List Token) :
    run (f+1) b acc = run (f+1) b' acc := by
  obtain ⟨t, s', et, -⟩ := nextToken_spec b' hb
  rw [run_succ_tok f b acc t s' (h.trans et), run_succ_tok f b' acc t s' et]

/-- if the first `next_token` on `pre ++ s` behaves as on the state "`init s` shifted by `pre`, `d` lines
down", then scanning `pre ++ s` yields the tokens of `s`, `d` lines further down -/
theorem scan_prefix (pre : Array Char) (d : Nat) (s full : String)
    (hfull : full.toList.toArray = pre ++ s.toList.toArray)
    (hN : nextToken (init full) = nextToken (shift pre d (init s))) :
    ∃ ts, scan s = .ok ts ∧ scan full = .ok (ts.map (shiftTok d)) := by
  obtain ⟨ts, e⟩ := scan_total s
  refine ⟨ts, e, ?_⟩
  have hlen : full.length = pre.size + s.length := by
    have := congrArg Array.size hfull
    simpa [String.length_toList] using this
  have r := run_shift pre d (s.length + 2) (full.length + 2) (init s) [] ts (init_inv s) e
    (by rw [input_size, init_position]; omega)
  rw [List.map_nil] at r
  unfold scan
  rw [run_congr_first (shift_inv pre d _ (init_inv s)) hN]
  exact r

/-! ## states given by position and line -/

/-- the state satisfying the invariant at position `p`, line `ln` -/
def at_ (A : Array Char) (p ln : Nat) : S :=
  { input := A, position := p, readPosition := p + 1, ch := A.getD p nul, line := ln }

theorem at_inv (A : Array Char) (p ln : Nat) : Inv (at_ A p ln) := ⟨rfl, rfl⟩

theorem at_readChar (A : Array Char) (p ln : Nat) : (at_ A p ln).readChar = at_ A (p + 1) ln := by
  rw [readChar_eq]; rfl

theorem init_eq (src : String) : init src = at_ src.toList.toArray 0 1 := by
  unfold init; rw [readChar_eq]; rfl

theorem shift_at (pre : Array Char) (d : Nat) (inp : Array Char) (p ln : Nat) :
    shift pre d (at_ inp p ln) = at_ (pre ++ inp) (p + pre.size) (ln + d) := by
  simp only [shift, at_, getD_shift, Nat.add_right_comm]

/-- `skip_line` runs over characters that are neither newline nor NUL and stops at the first that is -/
theorem skipLine_at (A : Array Char) (ln : Nat) : ∀ (j p f : Nat),
    (∀ i, p < i → i ≤ p + j → A.getD i nul ≠ '\n' ∧ A.getD i nul ≠ nul) →
    (A.getD (p + j + 1) nul = '\n' ∨ A.getD (p + j + 1) nul = nul) → j < f →
    skipLine f (at_ A p ln) = at_ A (p + j + 1) ln
  | _, _, 0, _, _, hf => absurd hf (Nat.not_lt_zero _)
  | 0, p, f+1, _, hend, _ => by
    rw [skipLine, at_readChar]
    have : ((at_ A (p + 1) ln).ch == '\n' || (at_ A (p + 1) ln).ch == nul) = true := by
      show (A.getD (p + 1) nul == '\n' || A.getD (p + 1) nul == nul) = true
      rcases hend with h | h <;> simp [h]
    rw [if_pos this]
  | j+1, p, f+1, hmid, hend, hf => by
    rw [skipLine, at_readChar]
    have h1 := hmid (p + 1) (Nat.lt_succ_self _) (by omega)
    have : ¬ ((at_ A (p + 1) ln).ch == '\n' || (at_ A (p + 1) ln).ch == nul) = true := by
      show ¬ (A.getD (p + 1) nul == '\n' || A.getD (p + 1) nul == nul) = true
      intro hh
      rw [Bool.or_eq_true] at hh
      rcases hh with h | h
      · exact h1.1 (eq_of_beq h)
      · exact h1.2 (eq_of_beq h)
    rw [if_neg this]
    have ih := skipLine_at A ln j (p + 1) f (fun i h2 h3 => hmid i (by omega) (by omega))
      (by have e : p + 1 + j + 1 = p + (j + 1) + 1 := by omega
          rw [e]; exact hend) (by omega)
    have e : p + 1 + j + 1 = p + (j + 1) + 1 := by omega
    rw [e] at ih
    exact ih

theorem skipWhitespace_id (f : Nat) (s : S) (h : isBlank s.ch = false) : skipWhitespace f s = s := by
  cases f with
  | zero => rfl
  | succ f =>
    simp only [isBlank, Bool.or_eq_false_iff] at h
    simp only [skipWhitespace, h.1.1.1, h.1.1.2, h.1.2, h.2, Bool.or_self, Bool.false_eq_true, if_false]

theorem skipWhitespace_newline (f : Nat) (A : Array Char) (p ln : Nat) (h : A.getD p nul = '\n') :
    skipWhitespace (f+1) (at_ A p ln) = skipWhitespace f (at_ A (p + 1) (ln + 1)) := by
  have hc : (at_ A p ln).ch = '\n' := h
  have h1 : ¬ ((at_ A p ln).ch == ' ' || (at_ A p ln).ch == '\t' || (at_ A p ln).ch == '\r') = true := by
    rw [hc]; decide
  have h2 : ((at_ A p ln).ch == '\n') = true := by rw [hc]; decide
  simp only [skipWhitespace, if_neg h1, if_pos h2]
  rw [at_readChar]
  rfl

/-! ## a leading one-line comment -/

theorem getD_list (l : List Char) (i : Nat) : l.toArray.getD i nul = l[i]?.getD nul := by
  simp [Array.getD_eq_getD_getElem?]

/-- the first `next_token` on `c :: r ++ '\n' :: sl` — a `#…` or `//…` comment line `c :: r` without
newline and NUL — continues from the character after the newline, on line 2 -/
theorem comment_first_token (c : Char) (r sl : List Char)
    (hc : c = '#' ∨ (c = '/' ∧ r.head? = some '/'))
    (hr : ∀ x ∈ r, x ≠ '\n' ∧ x ≠ nul) :
    nextToken (at_ (c :: r ++ '\n' :: sl).toArray 0 1) =
      nextToken (at_ (c :: r ++ '\n' :: sl).toArray (r.length + 2) 2) := by
  generalize hA : (c :: r ++ '\n' :: sl).toArray = A
  have hsize : A.size = r.length + 2 + sl.length := by rw [← hA]; simp; omega
  have g0 : A.getD 0 nul = c := by rw [← hA, getD_list]; rfl
  have gmid : ∀ i, 0 < i → i ≤ 0 + r.length → A.getD i nul ≠ '\n' ∧ A.getD i nul ≠ nul := by
    intro i h1 h2
    obtain ⟨k, rfl⟩ : ∃ k, i = k + 1 := ⟨i - 1, by omega⟩
    have hk : k < r.length := by omega
    have : A.getD (k + 1) nul = r[k] := by
      rw [← hA, getD_list, List.cons_append, List.getElem?_cons_succ, List.getElem?_append_left hk,
        List.getElem?_eq_getElem hk]
      rfl
    rw [this]
    exact hr _ (List.getElem_mem hk)
  have gend : A.getD (0 + r.length + 1) nul = '\n' := by
    rw [← hA, getD_list, Nat.zero_add, List.cons_append, List.getElem?_cons_succ,
      List.getElem?_append_right (Nat.le_refl _), Nat.sub_self]
    rfl
  apply nextToken_congr
  show skipComments (A.size + 2) (skipWhitespace (A.size + 2) (at_ A 0 1)) =
    skipComments (A.size + 2) (skipWhitespace (A.size + 2) (at_ A (r.length + 2) 2))
  have hch : (at_ A 0 1).ch = c := g0
  have hb : isBlank (at_ A 0 1).ch = false := by
    rw [hch]; rcases hc with rfl | ⟨rfl, -⟩ <;> decide
  have hat : ((at_ A 0 1).ch == '#' || ((at_ A 0 1).ch == '/' && (at_ A 0 1).peekChar == '/')) = true := by
    rw [hch]
    rcases hc with rfl | ⟨rfl, h2⟩
    · rfl
    · have : (at_ A 0 1).peekChar = '/' := by
        rw [peekChar_eq]
        show A.getD 1 nul = '/'
        cases r with
        | nil => simp at h2
        | cons x r' =>
          simp only [List.head?_cons, Option.some.injEq] at h2
          rw [← hA, getD_list, h2]; rfl
      rw [this]; rfl
  rw [skipWhitespace_id _ _ hb, skipComments, if_pos hat]
  show skipComments (A.size + 1) (skipWhitespace ((skipLine (A.size + 1) (at_ A 0 1)).input.size + 2)
    (skipLine (A.size + 1) (at_ A 0 1))) = _
  rw [skipLine_at A 1 r.length 0 (A.size + 1) gmid (Or.inl gend) (by omega)]
  show skipComments (A.size + 1) (skipWhitespace (A.size + 1 + 1) (at_ A (0 + r.length + 1) 1)) = _
  rw [skipWhitespace_newline _ A _ 1 gend]
  have e : 0 + r.length + 1 + 1 = r.length + 2 := by omega
  rw [e]
  generalize hX : at_ A (r.length + 2) (1 + 1) = X
  have iX : Inv X := by rw [← hX]; exact at_inv _ _ _
  have sX : X.input.size = A.size := by rw [← hX]; rfl
  show skipComments (A.size + 1) (skipWhitespace (A.size + 1) X) = skipComments (A.size + 2) (skipWhitespace (A.size + 2) X)
  rw [skipWhitespace_fuel (A.size + 1) (A.size + 2) X iX (by omega) (by omega)]
  have k := skipWhitespace_skip (A.size + 2) X iX
  exact skipComments_fuel _ _ _ k.inv (by rw [k.input]; omega) (by rw [k.input]; omega)

/-- a one-line comment: `#…` or `//…`, with neither newline nor NUL after its first character -/
def CommentLine (c : String) : Prop :=
  ∃ h r, c.toList = h :: r ∧ (h = '#' ∨ (h = '/' ∧ r.head? = some '/')) ∧ ∀ x ∈ r, x ≠ '\n' ∧ x ≠ nul

/-- every token one line further down -/
abbrev down (t : Token) : Token := { t with line := t.line + 1 }

/-- **comment_line_is_skipped**: a leading `#…` or `//…` line (no NUL in it) followed by a newline
changes nothing but the line numbers: the tokens of `c ++ "\n" ++ s` are those of `s`, one line down -/
theorem comment_line_is_skipped (c s : String) (hc : CommentLine c) :
    ∃ ts, scan s = .ok ts ∧ scan (c ++ "\n" ++ s) = .ok (ts.map down) := by
  obtain ⟨h, r, hl, hh, hr⟩ := hc
  have hfullL : (c ++ "\n" ++ s).toList = h :: r ++ '\n' :: s.toList := by
    rw [String.toList_append, String.toList_append, hl]
    show (h :: r ++ ['\n']) ++ s.toList = _
    simp
  have hfull : (c ++ "\n" ++ s).toList.toArray = (h :: r ++ ['\n']).toArray ++ s.toList.toArray := by
    rw [hfullL]; simp
  refine scan_prefix (h :: r ++ ['\n']).toArray 1 s _ hfull ?_
  rw [init_eq, init_eq, shift_at, ← hfull, hfullL]
  have e : 0 + (h :: r ++ ['\n']).toArray.size = r.length + 2 := by simp
  rw [e]
  exact comment_first_token h r s.toList hh hr

/-- **shebang_is_comment**: a first line `#!…` (without NUL) is a comment — scanning the script with
the shebang line yields exactly the tokens of the script without it, each one line further down -/
theorem shebang_is_comment (rest s : String) (hrest : ∀ x ∈ rest.toList, x ≠ '\n' ∧ x ≠ nul) :
    ∃ ts, scan s = .ok ts ∧
      scan ("#!" ++ rest ++ "\n" ++ s) = .ok (ts.map (fun t => { t with line := t.line + 1 })) := by
  refine comment_line_is_skipped ("#!" ++ rest) s ⟨'#', '!' :: rest.toList, ?_, Or.inl rfl, ?_⟩
  · rw [String.toList_append]; rfl
  · intro x hx
    rcases List.mem_cons.mp hx with rfl | hx
    · exact ⟨by decide, by decide⟩
    · exact hrest x hx

/-- CR LF after the shebang line: `'\r'` is one more character of the comment -/
theorem shebang_crlf (rest s : String) (hrest : ∀ x ∈ rest.toList, x ≠ '\n' ∧ x ≠ nul) :
    ∃ ts, scan s = .ok ts ∧ scan ("#!" ++ rest ++ "\r\n" ++ s) = .ok (ts.map down) := by
  have e : "#!" ++ rest ++ "\r\n" ++ s = ("#!" ++ rest ++ "\r") ++ "\n" ++ s := by
    have : ("\r\n" : String) = "\r" ++ "\n" := by decide
    rw [this, ← String.append_assoc]
  rw [e]
  refine comment_line_is_skipped _ s ⟨'#', '!' :: (rest.toList ++ ['\r']), ?_, Or.inl rfl, ?_⟩
  · rw [String.toList_append, String.toList_append]; rfl
  · intro x hx
    rcases List.mem_cons.mp hx with rfl | hx
    · exact ⟨by decide, by decide⟩
    · rcases List.mem_append.mp hx with hx | hx
      · exact hrest x hx
      · rw [List.mem_singleton.mp hx]; exact ⟨by decide, by decide⟩

/-! ## a comment line at the very end of the input -/

theorem nextToken_eof_of_skip {s Y : S}
    (h : skipComments (s.input.size + 2) (skipWhitespace (s.input.size + 2) s) = Y) (hY : Y.ch = nul) :
    nextToken s = .tok (mk Y "Eof" "") Y.readChar := by
  simp only [nextToken, h, hY, beq_self_eq_true, if_true]

theorem skipComments_id (f : Nat) (s : S) (h : atComment s = false) : skipComments f s = s := by
  cases f with
  | zero => rfl
  | succ f =>
    rw [skipComments, if_neg]
    simpa [atComment] using h

/-- **comment_line_only**: a `#…`/`//…` line that is not terminated by a newline (e.g. a file consisting
of just `#!/usr/bin/env p2sh`) scans to the single token `Eof` -/
theorem comment_line_only (c : String) (hc : CommentLine c) : scan c = .ok [⟨"Eof", "", 1⟩] := by
  obtain ⟨h, r, hl, hh, hr⟩ := hc
  generalize hA : (h :: r).toArray = A
  have hsize : A.size = r.length + 1 := by rw [← hA]; simp
  have g0 : A.getD 0 nul = h := by rw [← hA, getD_list]; rfl
  have gmid : ∀ i, 0 < i → i ≤ 0 + r.length → A.getD i nul ≠ '\n' ∧ A.getD i nul ≠ nul := by
    intro i h1 h2
    obtain ⟨k, rfl⟩ : ∃ k, i = k + 1 := ⟨i - 1, by omega⟩
    have hk : k < r.length := by omega
    have : A.getD (k + 1) nul = r[k] := by
      rw [← hA, getD_list, List.getElem?_cons_succ, List.getElem?_eq_getElem hk]
      rfl
    rw [this]
    exact hr _ (List.getElem_mem hk)
  have gend : A.getD (0 + r.length + 1) nul = nul := getD_nul_of_ge (by omega)
  have hch : (at_ A 0 1).ch = h := g0
  have hb : isBlank (at_ A 0 1).ch = false := by
    rw [hch]; rcases hh with rfl | ⟨rfl, -⟩ <;> decide
  have hat : ((at_ A 0 1).ch == '#' || ((at_ A 0 1).ch == '/' && (at_ A 0 1).peekChar == '/')) = true := by
    rw [hch]
    rcases hh with rfl | ⟨rfl, h2⟩
    · rfl
    · have : (at_ A 0 1).peekChar = '/' := by
        rw [peekChar_eq]
        show A.getD 1 nul = '/'
        cases r with
        | nil => simp at h2
        | cons x r' =>
          simp only [List.head?_cons, Option.some.injEq] at h2
          rw [← hA, getD_list, h2]; rfl
      rw [this]; rfl
  have hYch : (at_ A (0 + r.length + 1) 1).ch = nul := gend
  have hskip : skipComments (A.size + 2) (skipWhitespace (A.size + 2) (at_ A 0 1)) = at_ A (0 + r.length + 1) 1 := by
    rw [skipWhitespace_id _ _ hb, skipComments, if_pos hat]
    show skipComments (A.size + 1) (skipWhitespace ((skipLine (A.size + 1) (at_ A 0 1)).input.size + 2)
      (skipLine (A.size + 1) (at_ A 0 1))) = _
    rw [skipLine_at A 1 r.length 0 (A.size + 1) gmid (Or.inr gend) (by omega)]
    have n1 : (nul == '#') = false := by decide
    have n2 : (nul == '/') = false := by decide
    rw [skipWhitespace_id _ _ (by rw [hYch]; decide),
      skipComments_id _ _ (by simp only [atComment, hYch, n1, n2, Bool.false_and, Bool.or_self])]
  have hN := nextToken_eof_of_skip (s := at_ A 0 1) hskip hYch
  unfold scan
  rw [init_eq, hl, hA, run_succ_tok _ _ _ _ _ hN]
  rfl

/-! ## leading blanks and blank lines -/

theorem skipWhitespace_space (f : Nat) (A : Array Char) (p ln : Nat)
    (h : (A.getD p nul == ' ' || A.getD p nul == '\t' || A.getD p nul == '\r') = true) :
    skipWhitespace (f+1) (at_ A p ln) = skipWhitespace f (at_ A (p + 1) ln) := by
  have h1 : ((at_ A p ln).ch == ' ' || (at_ A p ln).ch == '\t' || (at_ A p ln).ch == '\r') = true := h
  simp only [skipWhitespace, if_pos h1]
  rw [at_readChar]

theorem skipWhitespace_blanks (A : Array Char) : ∀ (w : List Char) (p ln f : Nat),
    (∀ i (hi : i < w.length), A.getD (p + i) nul = w[i]) → (∀ x ∈ w, isBlank x = true) → w.length ≤ f →
    skipWhitespace f (at_ A p ln) =
      skipWhitespace (f - w.length) (at_ A (p + w.length) (ln + w.count '\n'))
  | [], _, _, _, _, _, _ => rfl
  | x :: w, p, ln, 0, _, _, hf => absurd hf (by simp)
  | x :: w, p, ln, f+1, hA, hb, hf => by
    have hx : A.getD p nul = x := hA 0 (by simp)
    have hbx := hb x (List.mem_cons_self ..)
    have hA' : ∀ i (hi : i < w.length), A.getD (p + 1 + i) nul = w[i] := by
      intro i hi
      have := hA (i + 1) (by simp; omega)
      rw [Nat.add_assoc, Nat.add_comm 1 i]
      simpa using this
    have hb' : ∀ y ∈ w, isBlank y = true := fun y hy => hb y (List.mem_cons_of_mem _ hy)
    have hf' : w.length ≤ f := by simpa using hf
    have ih := fun ln' => skipWhitespace_blanks A w (p + 1) ln' f hA' hb' hf'
    have e1 : f + 1 - (x :: w).length = f - w.length := by simp
    have e2 : p + (x :: w).length = p + 1 + w.length := by simp; omega
    rw [e1, e2]
    by_cases hn : x = '\n'
    · subst hn
      rw [skipWhitespace_newline f A p ln hx, ih, List.count_cons_self, Nat.add_assoc ln, Nat.add_comm 1]
    · have hs : (A.getD p nul == ' ' || A.getD p nul == '\t' || A.getD p nul == '\r') = true := by
        rw [hx]
        simp only [isBlank, Bool.or_eq_true, beq_iff_eq] at hbx ⊢
        rcases hbx with h | h
        · exact h
        · exact absurd h hn
      rw [skipWhitespace_space f A p ln hs, ih, List.count_cons_of_ne hn]

/-- **blank_prefix_is_skipped**: leading blanks and blank lines change nothing but the line numbers -/
theorem blank_prefix_is_skipped (w s : String) (hw : ∀ x ∈ w.toList, isBlank x = true) :
    ∃ ts, scan s = .ok ts ∧ scan (w ++ s) = .ok (ts.map (shiftTok (w.toList.count '\n'))) := by
  have hfull : (w ++ s).toList.toArray = w.toList.toArray ++ s.toList.toArray := by
    rw [String.toList_append]; simp
  refine scan_prefix w.toList.toArray _ s _ hfull ?_
  rw [init_eq, init_eq, shift_at, hfull]
  generalize hA : w.toList.toArray ++ s.toList.toArray = A
  have hsize : A.size = w.toList.length + s.toList.length := by rw [← hA]; simp
  have hA' : ∀ i (hi : i < w.toList.length), A.getD (0 + i) nul = w.toList[i] := by
    intro i hi
    rw [← hA, Nat.zero_add, Array.getD_eq_getD_getElem?, Array.getElem?_append_left (by simpa using hi)]
    simp [hi]
  have e : 0 + w.toList.toArray.size = 0 + w.toList.length := by simp
  rw [e]
  apply nextToken_congr
  show skipComments (A.size + 2) (skipWhitespace (A.size + 2) (at_ A 0 1)) =
    skipComments (A.size + 2) (skipWhitespace (A.size + 2) (at_ A (0 + w.toList.length) (1 + w.toList.count '\n')))
  rw [skipWhitespace_blanks A w.toList 0 1 (A.size + 2) hA' hw (by omega)]
  rw [skipWhitespace_fuel (A.size + 2 - w.toList.length) (A.size + 2) _ (at_inv _ _ _)
    (by show A.size - (0 + w.toList.length) < _; omega) (by show A.size - (0 + w.toList.length) < _; omega)]

/-! ## concrete instances -/

-- the script, and the same script behind a shebang line: same tokens, one line further down
example : tokens (scan "let x = 1;") = some
    [⟨"Let", "let", 1⟩, ⟨"Identifier", "x", 1⟩, ⟨"Assign", "=", 1⟩, ⟨"Decimal", "1", 1⟩,
     ⟨"Semicolon", ";", 1⟩, ⟨"Eof", "", 1⟩] := by decide
example : tokens (scan "#!/usr/bin/env p2sh\nlet x = 1;") = some
    [⟨"Let", "let", 2⟩, ⟨"Identifier", "x", 2⟩, ⟨"Assign", "=", 2⟩, ⟨"Decimal", "1", 2⟩,
     ⟨"Semicolon", ";", 2⟩, ⟨"Eof", "", 2⟩] := by decide
-- the theorem applied to this instance (its hypothesis is decidable)
example : ∃ ts, scan "let x = 1;" = .ok ts ∧
    scan ("#!" ++ "/usr/bin/env p2sh" ++ "\n" ++ "let x = 1;") = .ok (ts.map (fun t => { t with line := t.line + 1 })) :=
  shebang_is_comment _ _ (by decide)
-- a `//` comment line, CR LF after the shebang, and a shebang line that ends the file
example : tokens (scan "// note\n'a'") = some [⟨"Char", "a", 2⟩, ⟨"Eof", "", 2⟩] := by decide
example : tokens (scan "#!/usr/bin/env p2sh\r\nx") = some [⟨"Identifier", "x", 2⟩, ⟨"Eof", "", 2⟩] := by decide
example : tokens (scan "#!/usr/bin/env p2sh") = some [⟨"Eof", "", 1⟩] := by decide
example : CommentLine "// note" := ⟨'/', ['/', ' ', 'n', 'o', 't', 'e'], by decide, by decide, by decide⟩
-- the NUL restriction is necessary: a NUL inside the shebang line ends the scan there
example : tokens (scan "#!a\x00\nlet x = 1;") = some [⟨"Eof", "", 1⟩] := by decide
-- blank lines before the script
example : tokens (scan " \n\t\r\n  x") = some [⟨"Identifier", "x", 3⟩, ⟨"Eof", "", 3⟩] := by decide

end P2sh.Props.C24
