import P2sh.Model.Parser
import P2sh.Props.C03
namespace P2sh.Props.C03Parse
open P2sh.Parser P2sh.Props.C03

/-! ## fuel monotonicity -/

theorem bind_ok {α β} {m : Res α} {k : α → Res β} {r : β} :
    m.bind k = .ok r ↔ ∃ a, m = .ok a ∧ k a = .ok r := by
  cases m <;> simp [Res.bind]

/-- `r'` is at least as defined as `r` -/
def RLe {α} (r r' : Res α) : Prop := ∀ x, r = .ok x → r' = .ok x

theorem RLe.refl {α} (r : Res α) : RLe r r := fun _ h => h

theorem RLe.bind {α β} {m m' : Res α} {k k' : α → Res β} (hm : RLe m m') (hk : ∀ a, RLe (k a) (k' a)) :
    RLe (m.bind k) (m'.bind k') := by
  intro r h
  obtain ⟨a, h1, h2⟩ := bind_ok.mp h
  rw [hm a h1]; exact hk a r h2

theorem RLe.ite {α} {c : Prop} [Decidable c] {a a' b b' : Res α} (ha : c → RLe a a') (hb : ¬ c → RLe b b') :
    RLe (if c then a else b) (if c then a' else b') := by
  split
  · exact ha ‹_›
  · exact hb ‹_›

-- closes / decomposes a goal `RLe (body at fuel n) (body at fuel n+1)` given the induction hypotheses `ihP … ihS` in context
set_option hygiene false in
macro "mono_auto" : tactic => `(tactic|
  repeat (first
    | exact RLe.refl _
    | exact ihP _ _
    | exact ihL _ _ _
    | exact ihA _
    | exact ihT _ _
    | exact ihI _
    | exact ihB _ _
    | exact ihS _
    | exact ihM _
    | exact ihR _ _
    | exact ihE _
    | exact ihET _ _
    | exact ihK _ _
    | exact ihO _
    | exact monoPats _ _ _
    | apply RLe.ite
    | apply RLe.bind
    | (intro a; first | (obtain ⟨_, _⟩ := a; dsimp only) | skip)))

theorem monoPats : ∀ f acc ts, RLe (parsePats f acc ts) (parsePats (f+1) acc ts) := by
  intro f
  induction f with
  | zero => intro acc ts x h; simp [parsePats] at h
  | succ n ih =>
    intro acc ts
    rw [parsePats.eq_2 acc ts n, parsePats.eq_2 acc ts (n+1)]
    apply RLe.bind (RLe.refl _)
    intro a
    obtain ⟨p, rest⟩ := a
    dsimp only
    apply RLe.ite
    · intro _; exact ih _ _
    · intro _; exact RLe.refl _

theorem mono : ∀ f,
    (∀ c ts, RLe (parseExpr f c ts) (parseExpr (f+1) c ts)) ∧
    (∀ c l ts, RLe (loop f c l ts) (loop (f+1) c l ts)) ∧
    (∀ ts, RLe (parseArgs f ts) (parseArgs (f+1) ts)) ∧
    (∀ acc ts, RLe (parseArgsTail f acc ts) (parseArgsTail (f+1) acc ts)) ∧
    (∀ ts, RLe (parseIf f ts) (parseIf (f+1) ts)) ∧
    (∀ acc ts, RLe (parseBlock f acc ts) (parseBlock (f+1) acc ts)) ∧
    (∀ ts, RLe (parseStmt f ts) (parseStmt (f+1) ts)) ∧
    (∀ ts, RLe (parseMatch f ts) (parseMatch (f+1) ts)) ∧
    (∀ acc ts, RLe (parseArms f acc ts) (parseArms (f+1) acc ts)) ∧
    (∀ ts, RLe (parseElems f ts) (parseElems (f+1) ts)) ∧
    (∀ acc ts, RLe (parseElemsTail f acc ts) (parseElemsTail (f+1) acc ts)) ∧
    (∀ acc ts, RLe (parseMapPairs f acc ts) (parseMapPairs (f+1) acc ts)) ∧
    (∀ ts, RLe (parseArmBody f ts) (parseArmBody (f+1) ts)) := by
  intro f
  induction f with
  | zero =>
    refine ⟨?_, ?_, ?_, ?_, ?_, ?_, ?_, ?_, ?_, ?_, ?_, ?_, ?_⟩ <;> intros <;> intro x h <;>
      simp [parseExpr, loop, parseArgs, parseArgsTail, parseIf, parseBlock, parseStmt, parseMatch, parseArms, parseElems,
        parseElemsTail, parseMapPairs, parseArmBody] at h
  | succ n ih =>
    obtain ⟨ihP, ihL, ihA, ihT, ihI, ihB, ihS, ihM, ihR, ihE, ihET, ihK, ihO⟩ := ih
    refine ⟨?_, ?_, ?_, ?_, ?_, ?_, ?_, ?_, ?_, ?_, ?_, ?_, ?_⟩
    · intro c ts
      cases ts with
      | nil => exact RLe.refl _
      | cons t rest =>
        rw [parseExpr.eq_3 c n, parseExpr.eq_3 c (n+1)]
        apply RLe.ite
        · intro _; exact RLe.refl _
        · intro _
          cases prefixKind t.ttype <;> dsimp only <;> mono_auto
    · intro c l ts
      cases ts with
      | nil => exact RLe.refl _
      | cons t rest =>
        rw [loop.eq_3 c l n, loop.eq_3 c l (n+1)]
        apply RLe.ite
        · intro _
          cases infixKind t.ttype <;> dsimp only <;> mono_auto
        · intro _; exact RLe.refl _
    · intro ts
      rw [parseArgs.eq_2 ts n, parseArgs.eq_2 ts (n+1)]
      mono_auto
    · intro acc ts
      rw [parseArgsTail.eq_2 acc ts n, parseArgsTail.eq_2 acc ts (n+1)]
      mono_auto
    · intro ts
      rw [parseIf.eq_2 ts n, parseIf.eq_2 ts (n+1)]
      mono_auto
    · intro acc ts
      rw [parseBlock.eq_2 acc ts n, parseBlock.eq_2 acc ts (n+1)]
      mono_auto
    · intro ts
      cases ts with
      | nil => exact RLe.refl _
      | cons t rest =>
        rw [parseStmt.eq_3 n t rest, parseStmt.eq_3 (n+1) t rest]
        mono_auto
    · intro ts
      rw [parseMatch.eq_2 ts n, parseMatch.eq_2 ts (n+1)]
      mono_auto
    · intro acc ts
      rw [parseArms.eq_2 acc ts n, parseArms.eq_2 acc ts (n+1)]
      mono_auto
    · intro ts
      rw [parseElems.eq_2 ts n, parseElems.eq_2 ts (n+1)]
      mono_auto
    · intro acc ts
      rw [parseElemsTail.eq_2 acc ts n, parseElemsTail.eq_2 acc ts (n+1)]
      mono_auto
    · intro acc ts
      rw [parseMapPairs.eq_2 acc ts n, parseMapPairs.eq_2 acc ts (n+1)]
      mono_auto
    · intro ts
      rw [parseArmBody.eq_2 ts n, parseArmBody.eq_2 ts (n+1)]
      mono_auto

theorem monoP {f f' c ts r} (hf : f ≤ f') (h : parseExpr f c ts = .ok r) : parseExpr f' c ts = .ok r := by
  induction hf with
  | refl => exact h
  | step _ ih => exact (mono _).1 _ _ _ ih

theorem monoL {f f' c l ts r} (hf : f ≤ f') (h : loop f c l ts = .ok r) : loop f' c l ts = .ok r := by
  induction hf with
  | refl => exact h
  | step _ ih => exact (mono _).2.1 _ _ _ _ ih

theorem monoT {f f' acc ts r} (hf : f ≤ f') (h : parseArgsTail f acc ts = .ok r) : parseArgsTail f' acc ts = .ok r := by
  induction hf with
  | refl => exact h
  | step _ ih => exact (mono _).2.2.2.1 _ _ _ ih

/-! ## the sub-grammar, minimal parentheses, well-formedness

Everything is parametrised by a table `Tbl` (when does an operator token continue an expression
parsed at level `c`; at which level is an operator's right operand parsed; at which level is a
prefix operator's operand parsed).  `docTbl` is the documented table (`C03.docTable`), `modelTbl`
the one the parser model reads from the generated rule table. -/

def binOps : List String :=
  ["Asterisk", "Slash", "Modulo", "Plus", "Minus", "LeftShift", "RightShift", "BitwiseAnd", "BitwiseXor", "BitwiseOr",
   "Equal", "BangEqual", "Less", "Greater", "LessEqual", "GreaterEqual", "LogicalAnd", "LogicalOr"]
def prefixOps : List String := ["Bang", "Minus", "BitwiseNot"]
def rangeOps : List String := ["RangeEx", "RangeInc"]
/-- every token the Pratt loop consumes as an operator in the sub-grammar -/
def infixToks : List String := binOps ++ ["Assign"] ++ rangeOps ++ ["LeftBracket", "LeftParen"]

structure Tbl where
  cont : Nat → String → Bool
  lvl : String → Nat
  unary : Nat

def docLevel (tt : String) : Nat :=
  match docTable.find? (fun e => e.1 == tt) with
  | some e => e.2
  | none => 0

def docRight (tt : String) : Bool := docRightAssoc.contains tt || tt == "RangeEx" || tt == "RangeInc"

/-- the documented table: "equal precedence groups left to right, except `=` (and the ranges)" -/
def docTbl : Tbl where
  cont c tt := if docRight tt then decide (c ≤ docLevel tt) else decide (c < docLevel tt)
  lvl := docLevel
  unary := docUnaryRank

def modelTbl : Tbl where
  cont := continues
  lvl := precRank
  unary := unaryRank

/-- the operator token the Pratt loop consumes at the root of `x` -/
def opTok : PExpr → Option String
  | .bin op _ _ => some op
  | .assign _ _ => some "Assign"
  | .range op _ _ => some op
  | .index _ _ => some "LeftBracket"
  | .call _ _ => some "LeftParen"
  | _ => none

section tbl
variable (T : Tbl)

/-- the level at which the rightmost, still open sub-expression of `x` is parsed -/
def rlevel : PExpr → Option Nat
  | .bin op _ _ => some (T.lvl op)
  | .assign _ _ => some (T.lvl "Assign")
  | .range op _ _ => some (T.lvl op)
  | .un _ _ => some T.unary
  | _ => none

/-- `x` may stand without parentheses where an expression is parsed at level `c` -/
def aboveCtx (c : Nat) (x : PExpr) : Bool :=
  match opTok x with
  | some op => T.cont c op
  | none => true

/-- `l` needs parentheses as the left operand of `op`: otherwise `op` would be swallowed by `l`'s open right end -/
def needL (op : String) (l : PExpr) : Bool :=
  match rlevel T l with
  | some p => T.cont p op
  | none => false

def wrapIf (b : Bool) (ts : List Tok) : List Tok :=
  if b then Tok.t "LeftParen" :: (ts ++ [Tok.t "RightParen"]) else ts

mutual
/-- tokens of `x` with a child in parentheses exactly when the table requires it -/
def renderT : PExpr → List Tok
  | .ifE _ _ _ => []
  | .fnE _ _ => []
  | .null => []
  | .score => []
  | .matchE _ _ => []
  | .arr _ => []
  | .map _ => []
  | .lit _ _ => []
  | .bid _ => []
  | .int n => [.int n]
  | .bool b => [.bool b]
  | .ident s => [.ident s]
  | .un op e => .t op :: wrapIf (!aboveCtx T T.unary e) (renderT e)
  | .bin op a b => wrapIf (needL T op a) (renderT a) ++ .t op :: wrapIf (!aboveCtx T (T.lvl op) b) (renderT b)
  | .assign a b => wrapIf (needL T "Assign" a) (renderT a) ++ .t "Assign" :: wrapIf (!aboveCtx T (T.lvl "Assign") b) (renderT b)
  | .range op a b => wrapIf (needL T op a) (renderT a) ++ .t op :: wrapIf (!aboveCtx T (T.lvl op) b) (renderT b)
  | .index a i => wrapIf (needL T "LeftBracket" a) (renderT a) ++ .t "LeftBracket" :: (renderT i ++ [.t "RightBracket"])
  | .call f args => wrapIf (needL T "LeftParen" f) (renderT f) ++ .t "LeftParen" :: renderArgsT args
/-- `e1, e2, … )` -/
def renderArgsT : List PExpr → List Tok
  | [] => [.t "RightParen"]
  | e :: es => renderT e ++ renderTailT es
/-- `, e2, … )` -/
def renderTailT : List PExpr → List Tok
  | [] => [.t "RightParen"]
  | e :: es => .t "Comma" :: (renderT e ++ renderTailT es)
end

/-- `x` may be followed by `=`: the parser raises "Invalid assignment target" when `=` follows a
literal, a closing parenthesis of a group, or the first token of an expression parsed above the
assignment level.  `ca` = the expression `x` starts is parsed at a level `≤ Assignment`. -/
def okBAT (ca : Bool) : PExpr → Bool
  | .ident _ => ca
  | .index _ _ => true
  | .call _ _ => true
  | .un _ e => aboveCtx T T.unary e && okBAT false e
  | .bin op _ b => aboveCtx T (T.lvl op) b && okBAT false b
  | _ => false

mutual
def wfT : PExpr → Bool
  | .ifE _ _ _ => false
  | .fnE _ _ => false
  | .null => false
  | .score => false
  | .matchE _ _ => false
  | .arr _ => false
  | .map _ => false
  | .lit _ _ => false
  | .bid _ => false
  | .int _ => true
  | .bool _ => true
  | .ident _ => true
  | .un op e => prefixOps.contains op && wfT e
  | .bin op a b => binOps.contains op && wfT a && wfT b
  | .assign a b => okBAT T true a && wfT a && wfT b
  | .range op a b => rangeOps.contains op && validRange a b
  | .index a i => wfT a && wfT i
  | .call f args => wfT f && wfListT args
def wfListT : List PExpr → Bool
  | [] => true
  | e :: es => wfT e && wfListT es
end

mutual
def renderFullT : PExpr → List Tok
  | .ifE _ _ _ => []
  | .fnE _ _ => []
  | .null => []
  | .score => []
  | .matchE _ _ => []
  | .arr _ => []
  | .map _ => []
  | .lit _ _ => []
  | .bid _ => []
  | .int n => [.int n]
  | .bool b => [.bool b]
  | .ident s => [.ident s]
  | .un op e => .t op :: wrapIf true (renderFullT e)
  | .bin op a b => wrapIf true (renderFullT a) ++ .t op :: wrapIf true (renderFullT b)
  | .assign a b => renderT T a ++ .t "Assign" :: wrapIf true (renderFullT b)
  | .range op a b => renderT T a ++ .t op :: renderT T b
  | .index a i => wrapIf true (renderFullT a) ++ .t "LeftBracket" :: (wrapIf true (renderFullT i) ++ [.t "RightBracket"])
  | .call f args => wrapIf true (renderFullT f) ++ .t "LeftParen" :: renderFullArgsT args
def renderFullArgsT : List PExpr → List Tok
  | [] => [.t "RightParen"]
  | e :: es => wrapIf true (renderFullT e) ++ renderFullTailT es
def renderFullTailT : List PExpr → List Tok
  | [] => [.t "RightParen"]
  | e :: es => .t "Comma" :: (wrapIf true (renderFullT e) ++ renderFullTailT es)
end

end tbl

/-! ## facts about the generated rule table (re-checked on every build against `Gen.ParseRules`)

These are the only places where the concrete table enters the proof. -/

set_option maxRecDepth 4000

/-- binary-like operators: all infix tokens whose right operand is parsed by `parse_expression(prec of the token)` -/
def binLike : List String := binOps ++ ["Assign"] ++ rangeOps
def postfixToks : List String := ["LeftBracket", "LeftParen"]
def closers : List String := ["RightParen", "RightBracket", "Comma", "Eof"]

theorem strictness : P2sh.Gen.ParseRules.leftAssocStrict = true ∧ P2sh.Gen.ParseRules.rightAssocStrict = false := loop_test

theorem kinds_bin : ∀ op ∈ binOps, infixKind op = .binary ∧ op ≠ "Assign" ∧ ¬ (precRank op ≤ assignRank) := by decide +kernel
theorem kinds_range : ∀ op ∈ rangeOps, infixKind op = .range ∧ op ≠ "Assign" ∧ ¬ (precRank op ≤ assignRank) := by decide +kernel
theorem kinds_prefix : ∀ op ∈ prefixOps, prefixKind op = .unary ∧ op ≠ "Assign" ∧ op ≠ "RightParen" := by decide +kernel
theorem kinds_misc :
    infixKind "Assign" = .assign ∧ infixKind "LeftBracket" = .index ∧ infixKind "LeftParen" = .call ∧
    prefixKind "LeftParen" = .grouped ∧ prefixKind "Identifier" = .ident ∧ prefixKind "Decimal" = .decimal ∧
    prefixKind "True" = .boolean ∧ prefixKind "False" = .boolean ∧
    precRank "Assign" = assignRank ∧ rightAssoc "Assign" = true ∧ ¬ (unaryRank ≤ assignRank) := by decide +kernel
/-- an infix token of the sub-grammar is neither `;` nor `Eof`, continues an expression parsed at the
assignment level, and binds no tighter than the postfix operators -/
theorem infix_facts : ∀ op ∈ infixToks, op ≠ "Semicolon" ∧ op ≠ "Eof" ∧ continues assignRank op = true ∧
    ∀ q ∈ postfixToks, rightAssoc q = false ∧ precRank op ≤ precRank q ∧ (rightAssoc op = true → precRank op < precRank q) := by
  decide +kernel
theorem binLike_le_unary : ∀ op ∈ binLike, precRank op ≤ unaryRank ∧ assignRank ≤ precRank op := by decide +kernel
theorem assign_le_unary : assignRank ≤ unaryRank := by decide +kernel
theorem closer_facts : ∀ q ∈ closers, precRank q = 0 ∧ rightAssoc q = false ∧ q ≠ "Assign" := by decide +kernel

/-- the documented table and the generated one agree on every operator of the sub-grammar
(`rules_agree_doc`, `assoc_agrees_doc`, `prefix_operand` restated for the functions the parser model uses) -/
theorem table_agrees_doc : (∀ op ∈ infixToks, precRank op = docLevel op ∧ rightAssoc op = docRight op) ∧ unaryRank = docUnaryRank := by
  decide +kernel

/-! ## the round trip, for any rendering with at least the necessary parentheses -/

abbrev M := modelTbl
@[simp] theorem M_cont : M.cont = continues := rfl
@[simp] theorem M_lvl : M.lvl = precRank := rfl
@[simp] theorem M_unary : M.unary = unaryRank := rfl

@[simp] theorem ttype_t (s : String) : (Tok.t s).ttype = s := rfl
@[simp] theorem ttype_int (n : Nat) : (Tok.int n).ttype = "Decimal" := rfl
@[simp] theorem ttype_ident (s : String) : (Tok.ident s).ttype = "Identifier" := rfl
@[simp] theorem ttype_true : (Tok.bool true).ttype = "True" := rfl
@[simp] theorem ttype_false : (Tok.bool false).ttype = "False" := rfl
@[simp] theorem peekIs_cons (tt : String) (t : Tok) (ts : List Tok) : peekIs tt (t :: ts) = (t.ttype == tt) := rfl
@[simp] theorem ok_bind {α β} (a : α) (k : α → Res β) : (Res.ok a).bind k = k a := rfl

/-- `rest` does not continue an expression parsed at level `c` -/
def stops (c : Nat) : List Tok → Prop
  | [] => True
  | t :: _ => continues c t.ttype = false

def stopsTop (x : PExpr) (rest : List Tok) : Prop := ∀ p, rlevel M x = some p → stops p rest

def assignCond (ok : Bool → Bool) (c : Nat) (rest : List Tok) : Prop :=
  peekIs "Assign" rest = true → ok (decide (c ≤ assignRank)) = true

def headOK : List Tok → Bool
  | [] => false
  | t :: _ => t.ttype != "Assign" && t.ttype != "RightParen"

def rootOK : PExpr → Bool
  | .un op _ => prefixOps.contains op
  | .bin op _ _ => binOps.contains op
  | .range op _ _ => rangeOps.contains op
  | _ => true

/-- `rx` is a rendering of `x` that parses back to `x` wherever `x` may stand unparenthesised; the
conclusion is relative to the continuation of the Pratt loop (cf. DESIGN Appendix A) -/
def U (x : PExpr) (rx : List Tok) (ok : Bool → Bool) : Prop :=
  rootOK x = true ∧ headOK rx = true ∧
  ∀ c rest fuel res, aboveCtx M c x = true → stopsTop x rest → assignCond ok c rest →
    loop fuel c x rest = .ok res → ∀ F, fuel + 2 * rx.length ≤ F → parseExpr F c (rx ++ rest) = .ok res

theorem continues_def (c : Nat) (tt : String) :
    continues c tt = ((if rightAssoc tt then decide (c ≤ precRank tt) else decide (c < precRank tt)) && tt != "Semicolon" && tt != "Eof") := by
  simp [continues, strictness.1, strictness.2]

theorem stops_mono {c c' rest} (h : stops c rest) (hc : c ≤ c') : stops c' rest := by
  cases rest with
  | nil => trivial
  | cons t ts =>
    simp only [stops, continues_def] at h ⊢
    cases hr : rightAssoc t.ttype <;> simp_all <;> intro h1 <;> exact h (by omega)

theorem loop_stop {f c left rest} (h : stops c rest) (hf : 1 ≤ f) : loop f c left rest = .ok (left, rest) := by
  obtain ⟨f, rfl⟩ : ∃ k, f = k + 1 := ⟨f - 1, by omega⟩
  cases rest with
  | nil => simp [loop]
  | cons t ts => simp only [stops] at h; rw [loop.eq_3]; simp [h]

theorem stops_closer {p q rest} (hq : q ∈ closers) : stops p (Tok.t q :: rest) := by
  obtain ⟨h1, h2, _⟩ := closer_facts q hq
  simp [stops, continues_def, h1, h2]

theorem stopsTop_closer {x q rest} (hq : q ∈ closers) : stopsTop x (Tok.t q :: rest) :=
  fun _ _ => stops_closer hq

theorem peek_closer {q rest} (hq : q ∈ closers) : peekIs "Assign" (Tok.t q :: rest) = false := by
  obtain ⟨_, _, h3⟩ := closer_facts q hq
  simp [h3]

theorem opTok_mem {x op} (hx : rootOK x = true) (h : opTok x = some op) : op ∈ infixToks := by
  cases x <;> simp [opTok] at h <;> subst h <;> simp [rootOK] at hx <;> simp [infixToks, hx]

theorem above_assign {x} (hx : rootOK x = true) : aboveCtx M assignRank x = true := by
  unfold aboveCtx
  split
  · rename_i op h; exact (infix_facts op (opTok_mem hx h)).2.2.1
  · rfl

theorem peek_head {rx ys} (h : headOK rx = true) : peekIs "Assign" (rx ++ ys) = false := by
  cases rx with
  | nil => simp [headOK] at h
  | cons t ts => simp [headOK] at h; simp [h.1]

theorem peek_head_rp {rx ys} (h : headOK rx = true) : peekIs "RightParen" (rx ++ ys) = false := by
  cases rx with
  | nil => simp [headOK] at h
  | cons t ts => simp [headOK] at h; simp [h.2]

theorem headOK_append {rx ys} (h : headOK rx = true) : headOK (rx ++ ys) = true := by
  cases rx with
  | nil => simp [headOK] at h
  | cons t ts => simpa [headOK] using h

theorem headOK_wrap {b rx} (h : headOK rx = true) : headOK (wrapIf b rx) = true := by
  cases b
  · exact h
  · simp [wrapIf, headOK]

theorem wrap_length (b : Bool) (rx : List Tok) : (wrapIf b rx).length = rx.length + (if b then 2 else 0) := by
  cases b <;> simp [wrapIf]

/-- a child, with or without parentheses -/
theorem child {x rx ok} (hU : U x rx ok) (b : Bool) (c : Nat) (rest : List Tok) (fuel : Nat) (res : PExpr × List Tok)
    (hb : b = false → aboveCtx M c x = true ∧ stopsTop x rest ∧ assignCond ok c rest)
    (hb' : b = true → peekIs "Assign" rest = false)
    (hl : loop fuel c x rest = .ok res) :
    ∀ F, fuel + 2 * (wrapIf b rx).length ≤ F → parseExpr F c (wrapIf b rx ++ rest) = .ok res := by
  obtain ⟨hroot, hhead, hP⟩ := hU
  intro F hF
  cases b with
  | false =>
    obtain ⟨h1, h2, h3⟩ := hb rfl
    simp only [wrapIf, Bool.false_eq_true, if_false] at hF ⊢
    exact hP c rest fuel res h1 h2 h3 hl F hF
  | true =>
    simp only [wrap_length, if_true] at hF
    obtain ⟨F, rfl⟩ : ∃ k, F = k + 1 := ⟨F - 1, by omega⟩
    have h0 : parseExpr F assignRank (rx ++ Tok.t "RightParen" :: rest) = .ok (x, Tok.t "RightParen" :: rest) :=
      hP assignRank _ 1 _ (above_assign hroot) (stopsTop_closer (by simp [closers]))
        (fun h => by rw [peek_closer (by simp [closers])] at h; cases h)
        (loop_stop (stops_closer (by simp [closers])) (Nat.le_refl 1)) F (by omega)
    simp only [wrapIf, if_true, List.cons_append, List.append_assoc, List.nil_append]
    rw [parseExpr.eq_3]
    simp only [peek_head hhead, Bool.and_false, Bool.false_eq_true, if_false, ttype_t, kinds_misc.2.2.2.1, h0, ok_bind,
      peekIs_cons, beq_self_eq_true, if_true, List.tail_cons, hb' rfl]
    exact monoL (by omega) hl

theorem U_ident (s : String) : U (.ident s) [.ident s] (fun ca => ca) := by
  refine ⟨rfl, by simp [headOK], ?_⟩
  intro c rest fuel res _ _ ha hl F hF
  obtain ⟨F, rfl⟩ : ∃ k, F = k + 1 := ⟨F - 1, by simp at hF; omega⟩
  simp only [List.cons_append, List.nil_append]
  rw [parseExpr.eq_3]
  have h1 : (!decide (c ≤ assignRank) && peekIs "Assign" rest) = false := by
    cases hp : peekIs "Assign" rest
    · simp
    · have := ha hp; simp_all
  simp only [h1, Bool.false_eq_true, if_false, ttype_ident, kinds_misc.2.2.2.2.1, identAtom, ok_bind]
  exact monoL (by simp at hF; omega) hl

theorem U_int (n : Nat) : U (.int n) [.int n] (fun _ => false) := by
  refine ⟨rfl, by simp [headOK], ?_⟩
  intro c rest fuel res _ _ ha hl F hF
  obtain ⟨F, rfl⟩ : ∃ k, F = k + 1 := ⟨F - 1, by simp at hF; omega⟩
  simp only [List.cons_append, List.nil_append]
  rw [parseExpr.eq_3]
  have h1 : peekIs "Assign" rest = false := by
    cases hp : peekIs "Assign" rest
    · rfl
    · have := ha hp; simp at this
  simp only [h1, Bool.and_false, Bool.false_eq_true, if_false, ttype_int, kinds_misc.2.2.2.2.2.1, decimalAtom, ok_bind]
  exact monoL (by simp at hF; omega) hl

theorem U_bool (b : Bool) : U (.bool b) [.bool b] (fun _ => false) := by
  refine ⟨rfl, by cases b <;> simp [headOK], ?_⟩
  intro c rest fuel res _ _ ha hl F hF
  obtain ⟨F, rfl⟩ : ∃ k, F = k + 1 := ⟨F - 1, by simp at hF; omega⟩
  simp only [List.cons_append, List.nil_append]
  rw [parseExpr.eq_3]
  have h1 : peekIs "Assign" rest = false := by
    cases hp : peekIs "Assign" rest
    · rfl
    · have := ha hp; simp at this
  cases b <;>
  · simp only [h1, Bool.and_false, Bool.false_eq_true, if_false, ttype_true, ttype_false, kinds_misc.2.2.2.2.2.2.1, kinds_misc.2.2.2.2.2.2.2.1, boolAtom, ok_bind]
    exact monoL (by simp at hF; omega) hl

theorem cont_iff {c tt} : continues c tt = true ↔
    (if rightAssoc tt = true then c ≤ precRank tt else c < precRank tt) ∧ tt ≠ "Semicolon" ∧ tt ≠ "Eof" := by
  rw [continues_def]; cases rightAssoc tt <;> simp [and_assoc]

theorem cont_le {c tt} (h : continues c tt = true) : c ≤ precRank tt := by
  have := (cont_iff.mp h).1
  split at this <;> omega

theorem cont_trans {c op k} (hk : k ∈ infixToks) (h1 : continues c op = true) (h2 : continues (precRank k) op = false) :
    continues c k = true := by
  obtain ⟨k1, k2, _⟩ := infix_facts k hk
  have h1' := cont_iff.mp h1
  have h2' : ¬ _ := fun h => by rw [cont_iff.mpr h] at h2; cases h2
  rw [cont_iff]
  refine ⟨?_, k1, k2⟩
  have h3 : ¬ (if rightAssoc op = true then precRank k ≤ precRank op else precRank k < precRank op) :=
    fun h => h2' ⟨h, h1'.2⟩
  have h4 := h1'.1
  cases ho : rightAssoc op <;> cases rightAssoc k <;>
    simp only [ho, ↓reduceIte, Bool.false_eq_true] at h3 h4 ⊢ <;> omega

theorem mem_infix_of_bin {op} (h : op ∈ binOps) : op ∈ infixToks := by simp [infixToks, h]
theorem mem_infix_of_range {op} (h : op ∈ rangeOps) : op ∈ infixToks := by simp [infixToks, h]
theorem mem_infix_of_binLike {op} (h : op ∈ binLike) : op ∈ infixToks := by
  simp only [binLike, infixToks, List.mem_append] at h ⊢; exact Or.inl h
theorem mem_infix_of_postfix {op} (h : op ∈ postfixToks) : op ∈ infixToks := by
  simp only [postfixToks, infixToks, List.mem_append] at h ⊢; exact Or.inr h

/-- the left operand of `op`, not parenthesised, is accepted in the context `c` of the whole expression -/
theorem above_left {a op c} (ha : rootOK a = true) (hop : op ∈ infixToks) (hc : continues c op = true)
    (hn : needL M op a = false) : aboveCtx M c a = true := by
  have post : ∀ q ∈ postfixToks, continues c q = true := by
    intro q hq
    obtain ⟨_, _, _, hpost⟩ := infix_facts op hop
    obtain ⟨q1, q2, q3⟩ := hpost q hq
    obtain ⟨k1, k2, _⟩ := infix_facts q (mem_infix_of_postfix hq)
    have h1 := (cont_iff.mp hc).1
    rw [cont_iff, q1]
    refine ⟨?_, k1, k2⟩
    cases ho : rightAssoc op
    · simp only [ho, ↓reduceIte, Bool.false_eq_true] at h1 ⊢; omega
    · have := q3 ho; simp only [ho, ↓reduceIte, Bool.false_eq_true] at h1 ⊢; omega
  cases a with
  | ifE _ _ _ => rfl
  | fnE _ _ => rfl
  | null => rfl
  | score => rfl
  | matchE _ _ => rfl
  | arr _ => rfl
  | map _ => rfl
  | lit _ _ => rfl
  | bid _ => rfl
  | int _ => rfl
  | bool _ => rfl
  | ident _ => rfl
  | un _ _ => rfl
  | bin k _ _ =>
    simp only [rootOK, List.contains_iff_mem] at ha
    simp only [needL, rlevel, M_cont, M_lvl] at hn
    simpa [aboveCtx, opTok] using cont_trans (mem_infix_of_bin ha) hc hn
  | assign _ _ =>
    simp only [needL, rlevel, M_cont, M_lvl] at hn
    simpa [aboveCtx, opTok] using cont_trans (by simp [infixToks]) hc hn
  | range k _ _ =>
    simp only [rootOK, List.contains_iff_mem] at ha
    simp only [needL, rlevel, M_cont, M_lvl] at hn
    simpa [aboveCtx, opTok] using cont_trans (mem_infix_of_range ha) hc hn
  | index _ _ => simpa [aboveCtx, opTok] using post "LeftBracket" (by simp [postfixToks])
  | call _ _ => simpa [aboveCtx, opTok] using post "LeftParen" (by simp [postfixToks])

/-- what follows an operand parsed at level `p` does not continue its open right end either -/
theorem stopsTop_right {b p rest} (ha : aboveCtx M p b = true) (hs : stops p rest) (hp : p ≤ unaryRank) :
    stopsTop b rest := by
  intro q hq
  cases b with
  | ifE _ _ _ => simp [rlevel] at hq
  | fnE _ _ => simp [rlevel] at hq
  | null => simp [rlevel] at hq
  | score => simp [rlevel] at hq
  | matchE _ _ => simp [rlevel] at hq
  | arr _ => simp [rlevel] at hq
  | map _ => simp [rlevel] at hq
  | lit _ _ => simp [rlevel] at hq
  | bid _ => simp [rlevel] at hq
  | int _ => simp [rlevel] at hq
  | bool _ => simp [rlevel] at hq
  | ident _ => simp [rlevel] at hq
  | index _ _ => simp [rlevel] at hq
  | call _ _ => simp [rlevel] at hq
  | un _ _ => simp [rlevel] at hq; subst hq; exact stops_mono hs hp
  | bin k _ _ => simp [rlevel] at hq; subst hq; exact stops_mono hs (cont_le (by simpa [aboveCtx, opTok] using ha))
  | assign _ _ => simp [rlevel] at hq; subst hq; exact stops_mono hs (cont_le (by simpa [aboveCtx, opTok] using ha))
  | range k _ _ => simp [rlevel] at hq; subst hq; exact stops_mono hs (cont_le (by simpa [aboveCtx, opTok] using ha))

theorem U_weaken {x rx ok ok'} (h : U x rx ok) (hw : ∀ ca, ok' ca = true → ok ca = true) : U x rx ok' :=
  ⟨h.1, h.2.1, fun c rest fuel res h1 h2 h3 => h.2.2 c rest fuel res h1 h2 (fun hp => hw _ (h3 hp))⟩

theorem U_un {op e re oke} (hop : op ∈ prefixOps) (hU : U e re oke) (b : Bool)
    (hb : b = false → aboveCtx M unaryRank e = true) :
    U (.un op e) (.t op :: wrapIf b re) (fun _ => !b && oke false) := by
  obtain ⟨k1, k2, k3⟩ := kinds_prefix op hop
  refine ⟨by simpa [rootOK] using hop, by simp [headOK, k2, k3], ?_⟩
  intro c rest fuel res _ hs ha hl F hF
  have hs' : stops unaryRank rest := hs unaryRank rfl
  obtain ⟨F, rfl⟩ : ∃ k, F = k + 1 := ⟨F - 1, by simp at hF; omega⟩
  have hE : parseExpr F unaryRank (wrapIf b re ++ rest) = .ok (e, rest) := by
    refine child hU b unaryRank rest 1 (e, rest) ?_ ?_ (loop_stop hs' (Nat.le_refl 1)) F (by simp at hF; omega)
    · intro hb0
      refine ⟨hb hb0, stopsTop_right (hb hb0) hs' (Nat.le_refl _), ?_⟩
      intro hp
      have := ha hp
      simp only [hb0, Bool.not_false, Bool.true_and] at this
      simpa [kinds_misc.2.2.2.2.2.2.2.2.2.2] using this
    · intro hb1
      cases hp : peekIs "Assign" rest
      · rfl
      · have := ha hp; simp [hb1] at this
  simp only [List.cons_append]
  rw [parseExpr.eq_3]
  simp only [peek_head (headOK_wrap hU.2.1), Bool.and_false, Bool.false_eq_true, if_false, ttype_t, k1, hE, ok_bind]
  exact monoL (by simp at hF; omega) hl

theorem binLike_cases {op} (h : op ∈ binLike) : op ∈ binOps ∨ op = "Assign" ∨ op ∈ rangeOps := by
  simp only [binLike, List.mem_append, List.mem_singleton] at h
  rcases h with (h | h) | h
  · exact Or.inl h
  · exact Or.inr (Or.inl h)
  · exact Or.inr (Or.inr h)

theorem not_peek_assign_of_stops {rest} (hs : stops (precRank "Assign") rest) : peekIs "Assign" rest = false := by
  cases rest with
  | nil => simp [peekIs]
  | cons t ts =>
    cases hp : peekIs "Assign" (t :: ts)
    · rfl
    · simp only [peekIs_cons, beq_iff_eq] at hp
      simp only [stops, hp, kinds_misc.2.2.2.2.2.2.2.2.1] at hs
      rw [(infix_facts "Assign" (by simp [infixToks])).2.2.1] at hs
      cases hs

/-- a node `a op b` whose right operand is parsed by `parse_expression(precedence of op)`:
binary operators, assignment, ranges.  `hstep` is the one step of the Pratt loop that builds the node. -/
theorem U_binlike {op a b ra rb oka okb} (node : PExpr) (hop : op ∈ binLike)
    (hroot : rootOK node = true) (hopTok : opTok node = some op) (hrl : rlevel M node = some (precRank op))
    (hstep : ∀ F c rest' rest, continues c op = true → parseExpr F (precRank op) rest' = .ok (b, rest) →
      loop (F+1) c a (Tok.t op :: rest') = loop F c node rest)
    (hUa : U a ra oka) (hUb : U b rb okb) (ba bb : Bool)
    (hba : ba = false → needL M op a = false)
    (hbb : bb = false → aboveCtx M (precRank op) b = true)
    (hasg : op = "Assign" → ba = false ∧ oka true = true) :
    U node (wrapIf ba ra ++ Tok.t op :: wrapIf bb rb) (fun _ => !bb && okb false) := by
  have hopI := mem_infix_of_binLike hop
  refine ⟨hroot, headOK_append (headOK_wrap hUa.2.1), ?_⟩
  intro c rest fuel res hc hs ha hl F hF
  have hc : continues c op = true := by simpa [aboveCtx, hopTok] using hc
  have hs' : stops (precRank op) rest := hs _ hrl
  -- what the assignment check sees after the right operand
  have hpk : peekIs "Assign" rest = true → op ≠ "Assign" ∧ decide (precRank op ≤ assignRank) = false := by
    intro hp
    rcases binLike_cases hop with h | h | h
    · exact ⟨(kinds_bin op h).2.1, by simpa using (kinds_bin op h).2.2⟩
    · subst h; rw [not_peek_assign_of_stops hs'] at hp; cases hp
    · exact ⟨(kinds_range op h).2.1, by simpa using (kinds_range op h).2.2⟩
  have hR : ∀ F1, 1 + 2 * (wrapIf bb rb).length ≤ F1 →
      parseExpr F1 (precRank op) (wrapIf bb rb ++ rest) = .ok (b, rest) := by
    refine child hUb bb (precRank op) rest 1 (b, rest) ?_ ?_ (loop_stop hs' (Nat.le_refl 1))
    · intro hb0
      refine ⟨hbb hb0, stopsTop_right (hbb hb0) hs' (binLike_le_unary op hop).1, ?_⟩
      intro hp
      have := ha hp
      simp only [hb0, Bool.not_false, Bool.true_and] at this
      rw [(hpk hp).2]; exact this
    · intro hb1
      cases hp : peekIs "Assign" rest
      · rfl
      · have := ha hp; simp [hb1] at this
  have hLoop : loop (fuel + 2 * (wrapIf bb rb).length + 1 + 1) c a (Tok.t op :: (wrapIf bb rb ++ rest)) = .ok res := by
    rw [hstep _ c _ rest hc (hR _ (by omega))]
    exact monoL (by omega) hl
  rw [List.append_assoc, List.cons_append]
  refine child hUa ba c _ _ res ?_ ?_ hLoop F ?_
  · intro hb0
    refine ⟨above_left hUa.1 hopI hc (hba hb0), ?_, ?_⟩
    · intro p hp
      have := hba hb0
      simp only [needL, hp, M_cont] at this
      simpa [stops] using this
    · intro hp
      simp only [peekIs_cons, ttype_t, beq_iff_eq] at hp
      have h1 := (hasg hp).2
      subst hp
      have : c ≤ assignRank := by simpa [kinds_misc.2.2.2.2.2.2.2.2.1] using cont_le hc
      simpa [this] using h1
  · intro hb1
    cases hp : peekIs "Assign" (Tok.t op :: (wrapIf bb rb ++ rest))
    · rfl
    · simp only [peekIs_cons, ttype_t, beq_iff_eq] at hp
      have := (hasg hp).1; rw [hb1] at this; cases this
  · simp only [List.length_append, List.length_cons] at hF; omega

theorem U_bin {op a b ra rb oka okb} (hop : op ∈ binOps) (hUa : U a ra oka) (hUb : U b rb okb) (ba bb : Bool)
    (hba : ba = false → needL M op a = false) (hbb : bb = false → aboveCtx M (precRank op) b = true) :
    U (.bin op a b) (wrapIf ba ra ++ Tok.t op :: wrapIf bb rb) (fun _ => !bb && okb false) := by
  refine U_binlike (.bin op a b) (by simp [binLike, hop]) (by simpa [rootOK] using hop) rfl rfl ?_ hUa hUb ba bb hba hbb
    (fun h => absurd h (kinds_bin op hop).2.1)
  intro F c rest' rest hc hp
  rw [loop.eq_3]
  simp only [ttype_t, hc, if_true, (kinds_bin op hop).1, hp, ok_bind]

theorem U_assign {a b ra rb oka okb} (hUa : U a ra oka) (hUb : U b rb okb) (bb : Bool)
    (hba : needL M "Assign" a = false) (hbb : bb = false → aboveCtx M (precRank "Assign") b = true)
    (hoka : oka true = true) :
    U (.assign a b) (wrapIf false ra ++ Tok.t "Assign" :: wrapIf bb rb) (fun _ => !bb && okb false) := by
  refine U_binlike (.assign a b) (by simp [binLike]) rfl rfl rfl ?_ hUa hUb false bb (fun _ => hba) hbb (fun _ => ⟨rfl, hoka⟩)
  intro F c rest' rest hc hp
  rw [loop.eq_3]
  simp only [ttype_t, hc, if_true, kinds_misc.1, hp, ok_bind]

theorem U_range {op a b ra rb oka okb} (hop : op ∈ rangeOps) (hv : validRange a b = true)
    (hUa : U a ra oka) (hUb : U b rb okb) (ba bb : Bool)
    (hba : ba = false → needL M op a = false) (hbb : bb = false → aboveCtx M (precRank op) b = true) :
    U (.range op a b) (wrapIf ba ra ++ Tok.t op :: wrapIf bb rb) (fun _ => !bb && okb false) := by
  refine U_binlike (.range op a b) (by simp [binLike, hop]) (by simpa [rootOK] using hop) rfl rfl ?_ hUa hUb ba bb hba hbb
    (fun h => absurd h (kinds_range op hop).2.1)
  intro F c rest' rest hc hp
  rw [loop.eq_3]
  have hv' : validRangeX a b = true := by simp [validRangeX, hv]
  simp only [ttype_t, hc, if_true, (kinds_range op hop).1, hp, ok_bind, hv']

/-- a postfix node `a q mid` (index, call): `hstep` is the step of the Pratt loop that consumes `q mid` -/
theorem U_postfix {q a ra oka} (node : PExpr) (mid : List Tok) (hq : q ∈ postfixToks)
    (hroot : rootOK node = true) (hopTok : opTok node = some q) (_hrl : rlevel M node = none)
    (hstep : ∀ c rest fuel res, continues c q = true → loop fuel c node rest = .ok res →
      loop (fuel + 2 * mid.length + 2) c a (Tok.t q :: (mid ++ rest)) = .ok res)
    (hUa : U a ra oka) (ba : Bool) (hba : ba = false → needL M q a = false) :
    U node (wrapIf ba ra ++ Tok.t q :: mid) (fun _ => true) := by
  have hqI := mem_infix_of_postfix hq
  have hqA : q ≠ "Assign" := by
    simp only [postfixToks, List.mem_cons, List.not_mem_nil, or_false] at hq
    rcases hq with h | h <;> subst h <;> decide
  refine ⟨hroot, headOK_append (headOK_wrap hUa.2.1), ?_⟩
  intro c rest fuel res hc _ _ hl F hF
  have hc : continues c q = true := by simpa [aboveCtx, hopTok] using hc
  have hLoop := hstep c rest fuel res hc hl
  rw [List.append_assoc, List.cons_append]
  refine child hUa ba c _ _ res ?_ ?_ hLoop F ?_
  · intro hb0
    refine ⟨above_left hUa.1 hqI hc (hba hb0), ?_, ?_⟩
    · intro p hp
      have := hba hb0
      simp only [needL, hp, M_cont] at this
      simpa [stops] using this
    · intro hp
      simp only [peekIs_cons, ttype_t, beq_iff_eq] at hp
      exact absurd hp hqA
  · intro _
    simp [hqA]
  · simp only [List.length_append, List.length_cons] at hF; omega

theorem U_index {a i ra ri oka oki} (hUa : U a ra oka) (hUi : U i ri oki) (ba : Bool)
    (hba : ba = false → needL M "LeftBracket" a = false) :
    U (.index a i) (wrapIf ba ra ++ Tok.t "LeftBracket" :: (ri ++ [Tok.t "RightBracket"])) (fun _ => true) := by
  refine U_postfix (.index a i) _ (by simp [postfixToks]) rfl rfl rfl ?_ hUa ba hba
  intro c rest fuel res hc hl
  have hI : parseExpr (fuel + 2 * (ri ++ [Tok.t "RightBracket"]).length + 1) assignRank (ri ++ Tok.t "RightBracket" :: rest)
      = .ok (i, Tok.t "RightBracket" :: rest) :=
    hUi.2.2 assignRank _ 1 _ (above_assign hUi.1) (stopsTop_closer (by simp [closers]))
      (fun h => by rw [peek_closer (by simp [closers])] at h; cases h)
      (loop_stop (stops_closer (by simp [closers])) (Nat.le_refl 1)) _ (by simp; omega)
  rw [loop.eq_3]
  simp only [ttype_t, hc, if_true, kinds_misc.2.1, List.append_assoc, List.cons_append, List.nil_append, hI, ok_bind,
    peekIs_cons, beq_self_eq_true, List.tail_cons]
  exact monoL (by omega) hl

/-- `r1, r2, … )` and `, r1, r2, … )` for given renderings of the arguments -/
def joinTail : List (List Tok) → List Tok
  | [] => [.t "RightParen"]
  | r :: rs => .t "Comma" :: (r ++ joinTail rs)

def joinArgs : List (List Tok) → List Tok
  | [] => [.t "RightParen"]
  | r :: rs => r ++ joinTail rs

def UL : List PExpr → List (List Tok) → Prop
  | [], [] => True
  | e :: es, r :: rs => (∃ ok, U e r ok) ∧ UL es rs
  | _, _ => False

theorem joinTail_head (rs : List (List Tok)) : ∃ q tl, q ∈ closers ∧ joinTail rs = Tok.t q :: tl := by
  cases rs with
  | nil => exact ⟨"RightParen", [], by simp [closers], rfl⟩
  | cons r rs => exact ⟨"Comma", _, by simp [closers], rfl⟩

theorem parse_arg {e r ok} (hU : U e r ok) (rs : List (List Tok)) (rest : List Tok) (F : Nat) (hF : 1 + 2 * r.length ≤ F) :
    parseExpr F assignRank (r ++ (joinTail rs ++ rest)) = .ok (e, joinTail rs ++ rest) := by
  obtain ⟨q, tl, hq, he⟩ := joinTail_head rs
  rw [he, List.cons_append]
  exact hU.2.2 assignRank _ 1 _ (above_assign hU.1) (stopsTop_closer hq)
    (fun h => by rw [peek_closer hq] at h; cases h) (loop_stop (stops_closer hq) (Nat.le_refl 1)) F hF

theorem parse_tail : ∀ (rs : List (List Tok)) (es : List PExpr), UL es rs → ∀ (acc : List PExpr) (rest : List Tok) (F : Nat),
    2 * (joinTail rs).length ≤ F → parseArgsTail F acc (joinTail rs ++ rest) = .ok (acc ++ es, rest) := by
  intro rs
  induction rs with
  | nil =>
    intro es h acc rest F hF
    cases es with
    | cons e es => simp [UL] at h
    | nil =>
      obtain ⟨F, rfl⟩ : ∃ k, F = k + 1 := ⟨F - 1, by simp [joinTail] at hF; omega⟩
      rw [parseArgsTail.eq_2]
      simp [joinTail]
  | cons r rs ih =>
    intro es h acc rest F hF
    cases es with
    | nil => simp [UL] at h
    | cons e es =>
      obtain ⟨⟨ok, hU⟩, hUL⟩ := h
      simp only [joinTail, List.length_cons, List.length_append] at hF
      obtain ⟨F, rfl⟩ : ∃ k, F = k + 1 := ⟨F - 1, by omega⟩
      rw [parseArgsTail.eq_2]
      simp only [joinTail, List.cons_append, peekIs_cons, ttype_t, beq_self_eq_true, if_true, List.tail_cons,
        List.append_assoc, parse_arg hU rs rest F (by omega), ok_bind]
      rw [ih es hUL (acc ++ [e]) rest F (by omega)]
      simp

theorem parse_args (rs : List (List Tok)) (es : List PExpr) (h : UL es rs) (rest : List Tok) (F : Nat)
    (hF : 2 * (joinArgs rs).length ≤ F) : parseArgs F (joinArgs rs ++ rest) = .ok (es, rest) := by
  cases rs with
  | nil =>
    cases es with
    | cons e es => simp [UL] at h
    | nil =>
      obtain ⟨F, rfl⟩ : ∃ k, F = k + 1 := ⟨F - 1, by simp [joinArgs] at hF; omega⟩
      rw [parseArgs.eq_2]
      simp [joinArgs]
  | cons r rs =>
    cases es with
    | nil => simp [UL] at h
    | cons e es =>
      obtain ⟨⟨ok, hU⟩, hUL⟩ := h
      simp only [joinArgs, List.length_append] at hF
      have hr : 1 ≤ r.length := by
        have := hU.2.1; cases r with
        | nil => simp [headOK] at this
        | cons _ _ => simp
      have hj : 1 ≤ (joinTail rs).length := by
        obtain ⟨q, tl, _, he⟩ := joinTail_head rs; rw [he]; simp
      obtain ⟨F, rfl⟩ : ∃ k, F = k + 1 := ⟨F - 1, by omega⟩
      rw [parseArgs.eq_2]
      simp only [joinArgs, List.append_assoc, peek_head_rp hU.2.1, Bool.false_eq_true, if_false,
        parse_arg hU rs rest F (by omega), ok_bind]
      rw [parse_tail rs es hUL [e] rest F (by omega)]
      simp

theorem U_call {f rf okf} {args : List PExpr} {rs : List (List Tok)} (hUf : U f rf okf) (hUL : UL args rs) (bf : Bool)
    (hbf : bf = false → needL M "LeftParen" f = false) :
    U (.call f args) (wrapIf bf rf ++ Tok.t "LeftParen" :: joinArgs rs) (fun _ => true) := by
  refine U_postfix (.call f args) _ (by simp [postfixToks]) rfl rfl rfl ?_ hUf bf hbf
  intro c rest fuel res hc hl
  rw [loop.eq_3]
  simp only [ttype_t, hc, if_true, kinds_misc.2.2.1,
    parse_args rs args hUL rest (fuel + 2 * (joinArgs rs).length + 1) (by omega), ok_bind]
  exact monoL (by omega) hl

/-! ## the minimal rendering by the parser's own table -/

theorem renderTail_eq (T : Tbl) (es : List PExpr) : renderTailT T es = joinTail (es.map (renderT T)) := by
  induction es with
  | nil => simp [renderTailT, joinTail]
  | cons e es ih => simp [renderTailT, joinTail, ih]

theorem renderArgs_eq (T : Tbl) (es : List PExpr) : renderArgsT T es = joinArgs (es.map (renderT T)) := by
  cases es with
  | nil => simp [renderArgsT, joinArgs]
  | cons e es => simp [renderArgsT, joinArgs, renderTail_eq]

theorem not_eq_false {b : Bool} (h : (!b) = false) : b = true := by cases b <;> simp_all

theorem not_cont_assign {p} (hp : ¬ (p ≤ assignRank)) : continues p "Assign" = false := by
  cases h : continues p "Assign"
  · rfl
  · have := cont_le h; rw [kinds_misc.2.2.2.2.2.2.2.2.1] at this; exact absurd this hp

/-- an assignment target never needs parentheses -/
theorem needL_assign {a} (hw : wfT M a = true) (hok : okBAT M true a = true) : needL M "Assign" a = false := by
  cases a with
  | ifE _ _ _ => rfl
  | fnE _ _ => rfl
  | null => rfl
  | score => rfl
  | matchE _ _ => rfl
  | arr _ => rfl
  | map _ => rfl
  | lit _ _ => rfl
  | bid _ => rfl
  | int _ => rfl
  | bool _ => rfl
  | ident _ => rfl
  | index _ _ => rfl
  | call _ _ => rfl
  | assign _ _ => simp [okBAT] at hok
  | range _ _ _ => simp [okBAT] at hok
  | un _ _ => simpa [needL, rlevel] using not_cont_assign kinds_misc.2.2.2.2.2.2.2.2.2.2
  | bin k _ _ =>
    simp only [wfT, Bool.and_eq_true, List.contains_iff_mem] at hw
    simpa [needL, rlevel] using not_cont_assign (kinds_bin k hw.1.1).2.2

mutual
theorem U_render : ∀ (x : PExpr), wfT M x = true → U x (renderT M x) (fun ca => okBAT M ca x)
  | .ifE _ _ _, h => by simp [wfT] at h
  | .fnE _ _, h => by simp [wfT] at h
  | .null, h => by simp [wfT] at h
  | .score, h => by simp [wfT] at h
  | .matchE _ _, h => by simp [wfT] at h
  | .arr _, h => by simp [wfT] at h
  | .map _, h => by simp [wfT] at h
  | .lit _ _, h => by simp [wfT] at h
  | .bid _, h => by simp [wfT] at h
  | .int n, _ => U_weaken (U_int n) (fun ca h => by simp [okBAT] at h)
  | .bool b, _ => U_weaken (U_bool b) (fun ca h => by simp [okBAT] at h)
  | .ident s, _ => U_weaken (U_ident s) (fun ca h => by simpa [okBAT] using h)
  | .un op e, h => by
    simp only [wfT, Bool.and_eq_true, List.contains_iff_mem] at h
    rw [renderT]
    exact U_weaken (U_un h.1 (U_render e h.2) _ (fun hb => not_eq_false hb)) (fun ca hca => by simpa [okBAT] using hca)
  | .bin op a b, h => by
    simp only [wfT, Bool.and_eq_true, List.contains_iff_mem] at h
    rw [renderT]
    exact U_weaken (U_bin h.1.1 (U_render a h.1.2) (U_render b h.2) _ _ (fun hb => hb) (fun hb => not_eq_false hb))
      (fun ca hca => by simpa [okBAT] using hca)
  | .assign a b, h => by
    simp only [wfT, Bool.and_eq_true] at h
    have hL : needL M "Assign" a = false := needL_assign h.1.2 h.1.1
    rw [renderT, hL]
    exact U_weaken (U_assign (U_render a h.1.2) (U_render b h.2) _ hL (fun hb => not_eq_false hb) h.1.1)
      (fun ca hca => by simp [okBAT] at hca)
  | .range op a b, h => by
    simp only [wfT, Bool.and_eq_true, List.contains_iff_mem] at h
    have wa : wfT M a = true := by cases a <;> cases b <;> simp_all [validRange, wfT]
    have wb : wfT M b = true := by cases a <;> cases b <;> simp_all [validRange, wfT]
    rw [renderT]
    exact U_weaken (U_range h.1 h.2 (U_render a wa) (U_render b wb) _ _ (fun hb => hb) (fun hb => not_eq_false hb))
      (fun ca hca => by simp [okBAT] at hca)
  | .index a i, h => by
    simp only [wfT, Bool.and_eq_true] at h
    rw [renderT]
    exact U_weaken (U_index (U_render a h.1) (U_render i h.2) _ (fun hb => hb)) (fun ca _ => rfl)
  | .call f args, h => by
    simp only [wfT, Bool.and_eq_true] at h
    rw [renderT, renderArgs_eq]
    exact U_weaken (U_call (U_render f h.1) (UL_render args h.2) _ (fun hb => hb)) (fun ca _ => rfl)
theorem UL_render : ∀ (es : List PExpr), wfListT M es = true → UL es (es.map (renderT M))
  | [], _ => trivial
  | e :: es, h => by
    simp only [wfListT, Bool.and_eq_true] at h
    exact ⟨⟨_, U_render e h.1⟩, UL_render es h.2⟩
end

theorem stopsTop_of_assign {x rest} (hx : rootOK x = true) (hs : stops assignRank rest) : stopsTop x rest := by
  intro p hp
  refine stops_mono hs ?_
  cases x with
  | ifE _ _ _ => simp [rlevel] at hp
  | fnE _ _ => simp [rlevel] at hp
  | null => simp [rlevel] at hp
  | score => simp [rlevel] at hp
  | matchE _ _ => simp [rlevel] at hp
  | arr _ => simp [rlevel] at hp
  | map _ => simp [rlevel] at hp
  | lit _ _ => simp [rlevel] at hp
  | bid _ => simp [rlevel] at hp
  | int _ => simp [rlevel] at hp
  | bool _ => simp [rlevel] at hp
  | ident _ => simp [rlevel] at hp
  | index _ _ => simp [rlevel] at hp
  | call _ _ => simp [rlevel] at hp
  | un _ _ => simp [rlevel] at hp; subst hp; exact assign_le_unary
  | bin k _ _ =>
    simp only [rootOK, List.contains_iff_mem] at hx
    simp [rlevel] at hp; subst hp; exact (binLike_le_unary k (by simp [binLike, hx])).2
  | assign _ _ => simp [rlevel] at hp; subst hp; exact (binLike_le_unary "Assign" (by simp [binLike])).2
  | range k _ _ =>
    simp only [rootOK, List.contains_iff_mem] at hx
    simp [rlevel] at hp; subst hp; exact (binLike_le_unary k (by simp [binLike, hx])).2

/-- the round trip at the statement level (`parse_expression(Assignment)`), any continuation that
does not continue the expression, any sufficient fuel -/
theorem parse_render_model (x : PExpr) (hw : wfT M x = true) (rest : List Tok) (hs : stops assignRank rest)
    (F : Nat) (hF : 1 + 2 * (renderT M x).length ≤ F) :
    parseExpr F assignRank (renderT M x ++ rest) = .ok (x, rest) := by
  have hU := U_render x hw
  refine hU.2.2 assignRank rest 1 _ (above_assign hU.1) (stopsTop_of_assign hU.1 hs) ?_ (loop_stop hs (Nat.le_refl 1)) F hF
  intro hp
  rw [not_peek_assign_of_stops (by rw [kinds_misc.2.2.2.2.2.2.2.2.1]; exact hs)] at hp
  cases hp

/-! ## from the documented table to the parser's table -/

theorem cont_agree {op} (h : op ∈ infixToks) (c : Nat) : docTbl.cont c op = continues c op := by
  obtain ⟨h1, h2⟩ := table_agrees_doc.1 op h
  obtain ⟨k1, k2, _⟩ := infix_facts op h
  have e1 : (op != "Semicolon") = true := by simpa using k1
  have e2 : (op != "Eof") = true := by simpa using k2
  rw [continues_def, h1, h2, e1, e2]
  simp [docTbl]

theorem lvl_agree {op} (h : op ∈ infixToks) : docTbl.lvl op = precRank op := ((table_agrees_doc.1 op h).1).symm
theorem unary_agree : docTbl.unary = unaryRank := table_agrees_doc.2.symm

theorem above_agree {x} (hx : rootOK x = true) (c : Nat) : aboveCtx docTbl c x = aboveCtx M c x := by
  unfold aboveCtx
  split
  · rename_i op h; exact cont_agree (opTok_mem hx h) c
  · rfl

theorem rlevel_agree {x} (hx : rootOK x = true) : rlevel docTbl x = rlevel M x := by
  cases x with
  | ifE _ _ _ => rfl
  | fnE _ _ => rfl
  | null => rfl
  | score => rfl
  | matchE _ _ => rfl
  | arr _ => rfl
  | map _ => rfl
  | lit _ _ => rfl
  | bid _ => rfl
  | int _ => rfl
  | bool _ => rfl
  | ident _ => rfl
  | index _ _ => rfl
  | call _ _ => rfl
  | un _ _ => simp [rlevel, unary_agree]
  | bin k _ _ =>
    simp only [rootOK, List.contains_iff_mem] at hx
    simp [rlevel, lvl_agree (mem_infix_of_bin hx)]
  | assign _ _ => simp [rlevel, lvl_agree (show "Assign" ∈ infixToks by simp [infixToks])]
  | range k _ _ =>
    simp only [rootOK, List.contains_iff_mem] at hx
    simp [rlevel, lvl_agree (mem_infix_of_range hx)]

theorem needL_agree {op l} (hop : op ∈ infixToks) (hl : rootOK l = true) : needL docTbl op l = needL M op l := by
  unfold needL
  rw [rlevel_agree hl]
  split
  · exact cont_agree hop _
  · rfl

theorem rootOK_of_wf {T x} (h : wfT T x = true) : rootOK x = true := by
  cases x <;> simp_all [wfT, rootOK]

mutual
theorem agree : ∀ (x : PExpr), wfT docTbl x = true →
    wfT M x = true ∧ renderT docTbl x = renderT M x ∧ ∀ ca, okBAT docTbl ca x = okBAT M ca x
  | .ifE _ _ _, h => by simp [wfT] at h
  | .fnE _ _, h => by simp [wfT] at h
  | .null, h => by simp [wfT] at h
  | .score, h => by simp [wfT] at h
  | .matchE _ _, h => by simp [wfT] at h
  | .arr _, h => by simp [wfT] at h
  | .map _, h => by simp [wfT] at h
  | .lit _ _, h => by simp [wfT] at h
  | .bid _, h => by simp [wfT] at h
  | .int _, _ => ⟨rfl, rfl, fun _ => rfl⟩
  | .bool _, _ => ⟨rfl, rfl, fun _ => rfl⟩
  | .ident _, _ => ⟨rfl, rfl, fun _ => rfl⟩
  | .un op e, h => by
    simp only [wfT, Bool.and_eq_true, List.contains_iff_mem] at h
    obtain ⟨he1, he2, he3⟩ := agree e h.2
    have ha : aboveCtx docTbl docTbl.unary e = aboveCtx M M.unary e := by
      rw [above_agree (rootOK_of_wf h.2), unary_agree]; rfl
    refine ⟨by simp [wfT, h.1, he1], by simp only [renderT, ha, he2], fun ca => by simp only [okBAT, ha, he3]⟩
  | .bin op a b, h => by
    simp only [wfT, Bool.and_eq_true, List.contains_iff_mem] at h
    obtain ⟨ha1, ha2, _⟩ := agree a h.1.2
    obtain ⟨hb1, hb2, hb3⟩ := agree b h.2
    have hop : op ∈ infixToks := mem_infix_of_bin h.1.1
    have hA : aboveCtx docTbl (docTbl.lvl op) b = aboveCtx M (M.lvl op) b := by
      rw [above_agree (rootOK_of_wf h.2), lvl_agree hop]; rfl
    have hN := needL_agree hop (rootOK_of_wf h.1.2)
    refine ⟨by simp [wfT, h.1.1, ha1, hb1], by simp only [renderT, hA, hN, ha2, hb2], fun ca => by simp only [okBAT, hA, hb3]⟩
  | .assign a b, h => by
    simp only [wfT, Bool.and_eq_true] at h
    obtain ⟨ha1, ha2, ha3⟩ := agree a h.1.2
    obtain ⟨hb1, hb2, _⟩ := agree b h.2
    have hop : "Assign" ∈ infixToks := by simp [infixToks]
    have hA : aboveCtx docTbl (docTbl.lvl "Assign") b = aboveCtx M (M.lvl "Assign") b := by
      rw [above_agree (rootOK_of_wf h.2), lvl_agree hop]; rfl
    have hN := needL_agree hop (rootOK_of_wf h.1.2)
    refine ⟨by simp [wfT, ← ha3, h.1.1, ha1, hb1], by simp only [renderT, hA, hN, ha2, hb2], fun ca => rfl⟩
  | .range op a b, h => by
    simp only [wfT, Bool.and_eq_true, List.contains_iff_mem] at h
    have hv := h.2
    refine ⟨by simp [wfT, h.1, h.2], ?_, fun ca => rfl⟩
    cases a <;> cases b <;> simp [validRange] at hv <;> simp [renderT, needL, rlevel, aboveCtx, opTok]
  | .index a i, h => by
    simp only [wfT, Bool.and_eq_true] at h
    obtain ⟨ha1, ha2, _⟩ := agree a h.1
    obtain ⟨hi1, hi2, _⟩ := agree i h.2
    have hN := needL_agree (show "LeftBracket" ∈ infixToks by simp [infixToks]) (rootOK_of_wf h.1)
    refine ⟨by simp [wfT, ha1, hi1], by simp only [renderT, hN, ha2, hi2], fun ca => rfl⟩
  | .call f args, h => by
    simp only [wfT, Bool.and_eq_true] at h
    obtain ⟨hf1, hf2, _⟩ := agree f h.1
    obtain ⟨hl1, hl2, _⟩ := agreeL args h.2
    have hN := needL_agree (show "LeftParen" ∈ infixToks by simp [infixToks]) (rootOK_of_wf h.1)
    refine ⟨by simp [wfT, hf1, hl1], by simp only [renderT, hN, hf2, hl2], fun ca => rfl⟩
theorem agreeL : ∀ (es : List PExpr), wfListT docTbl es = true →
    wfListT M es = true ∧ renderArgsT docTbl es = renderArgsT M es ∧ renderTailT docTbl es = renderTailT M es
  | [], _ => ⟨rfl, rfl, rfl⟩
  | e :: es, h => by
    simp only [wfListT, Bool.and_eq_true] at h
    obtain ⟨he1, he2, _⟩ := agree e h.1
    obtain ⟨hl1, _, hl3⟩ := agreeL es h.2
    exact ⟨by simp [wfListT, he1, hl1], by simp only [renderArgsT, he2, hl3], by simp only [renderTailT, he2, hl3]⟩
end

/-! ## the fully parenthesised rendering -/

theorem U_wrap {x rx ok} (h : U x rx ok) : U x (wrapIf true rx) (fun _ => false) := by
  refine ⟨h.1, headOK_wrap h.2.1, ?_⟩
  intro c rest fuel res _ _ ha hl F hF
  refine child h true c rest fuel res (fun hb => by cases hb) (fun _ => ?_) hl F hF
  cases hp : peekIs "Assign" rest
  · rfl
  · exact absurd (ha hp) (by simp)

theorem renderFullTail_eq (T : Tbl) (es : List PExpr) :
    renderFullTailT T es = joinTail (es.map (fun e => wrapIf true (renderFullT T e))) := by
  induction es with
  | nil => simp [renderFullTailT, joinTail]
  | cons e es ih => simp [renderFullTailT, joinTail, ih]

theorem renderFullArgs_eq (T : Tbl) (es : List PExpr) :
    renderFullArgsT T es = joinArgs (es.map (fun e => wrapIf true (renderFullT T e))) := by
  cases es with
  | nil => simp [renderFullArgsT, joinArgs]
  | cons e es => simp [renderFullArgsT, joinArgs, renderFullTail_eq]

mutual
theorem U_renderFull : ∀ (x : PExpr), wfT M x = true → U x (renderFullT M x) (fun _ => false)
  | .ifE _ _ _, h => by simp [wfT] at h
  | .fnE _ _, h => by simp [wfT] at h
  | .null, h => by simp [wfT] at h
  | .score, h => by simp [wfT] at h
  | .matchE _ _, h => by simp [wfT] at h
  | .arr _, h => by simp [wfT] at h
  | .map _, h => by simp [wfT] at h
  | .lit _ _, h => by simp [wfT] at h
  | .bid _, h => by simp [wfT] at h
  | .int n, _ => U_int n
  | .bool b, _ => U_bool b
  | .ident s, _ => U_weaken (U_ident s) (fun ca h => by simp at h)
  | .un op e, h => by
    simp only [wfT, Bool.and_eq_true, List.contains_iff_mem] at h
    rw [renderFullT]
    exact U_weaken (U_un h.1 (U_renderFull e h.2) true (fun hb => by cases hb)) (fun ca hca => by simp at hca)
  | .bin op a b, h => by
    simp only [wfT, Bool.and_eq_true, List.contains_iff_mem] at h
    rw [renderFullT]
    exact U_weaken (U_bin h.1.1 (U_renderFull a h.1.2) (U_renderFull b h.2) true true (fun hb => by cases hb) (fun hb => by cases hb))
      (fun ca hca => by simp at hca)
  | .assign a b, h => by
    simp only [wfT, Bool.and_eq_true] at h
    rw [renderFullT]
    exact U_weaken (U_assign (U_render a h.1.2) (U_renderFull b h.2) true (needL_assign h.1.2 h.1.1) (fun hb => by cases hb) h.1.1)
      (fun ca hca => by simp at hca)
  | .range op a b, h => by
    simp only [wfT, Bool.and_eq_true, List.contains_iff_mem] at h
    have wa : wfT M a = true := by cases a <;> cases b <;> simp_all [validRange, wfT]
    have wb : wfT M b = true := by cases a <;> cases b <;> simp_all [validRange, wfT]
    have na : needL M op a = false := by cases a <;> cases b <;> simp_all [validRange, needL, rlevel]
    have nb : aboveCtx M (precRank op) b = true := by cases a <;> cases b <;> simp_all [validRange, aboveCtx, opTok]
    rw [renderFullT]
    exact U_weaken (U_range h.1 h.2 (U_render a wa) (U_render b wb) false false (fun _ => na) (fun _ => nb))
      (fun ca hca => by simp at hca)
  | .index a i, h => by
    simp only [wfT, Bool.and_eq_true] at h
    rw [renderFullT]
    exact U_weaken (U_index (U_renderFull a h.1) (U_wrap (U_renderFull i h.2)) true (fun hb => by cases hb)) (fun ca hca => by simp at hca)
  | .call f args, h => by
    simp only [wfT, Bool.and_eq_true] at h
    rw [renderFullT, renderFullArgs_eq]
    exact U_weaken (U_call (U_renderFull f h.1) (UL_renderFull args h.2) true (fun hb => by cases hb)) (fun ca hca => by simp at hca)
theorem UL_renderFull : ∀ (es : List PExpr), wfListT M es = true → UL es (es.map (fun e => wrapIf true (renderFullT M e)))
  | [], _ => trivial
  | e :: es, h => by
    simp only [wfListT, Bool.and_eq_true] at h
    exact ⟨⟨_, U_wrap (U_renderFull e h.1)⟩, UL_renderFull es h.2⟩
end

mutual
theorem agreeFull : ∀ (x : PExpr), wfT docTbl x = true → renderFullT docTbl x = renderFullT M x
  | .ifE _ _ _, h => by simp [wfT] at h
  | .fnE _ _, h => by simp [wfT] at h
  | .null, h => by simp [wfT] at h
  | .score, h => by simp [wfT] at h
  | .matchE _ _, h => by simp [wfT] at h
  | .arr _, h => by simp [wfT] at h
  | .map _, h => by simp [wfT] at h
  | .lit _ _, h => by simp [wfT] at h
  | .bid _, h => by simp [wfT] at h
  | .int _, _ => rfl
  | .bool _, _ => rfl
  | .ident _, _ => rfl
  | .un op e, h => by
    simp only [wfT, Bool.and_eq_true] at h
    simp only [renderFullT, agreeFull e h.2]
  | .bin op a b, h => by
    simp only [wfT, Bool.and_eq_true] at h
    simp only [renderFullT, agreeFull a h.1.2, agreeFull b h.2]
  | .assign a b, h => by
    simp only [wfT, Bool.and_eq_true] at h
    simp only [renderFullT, (agree a h.1.2).2.1, agreeFull b h.2]
  | .range op a b, h => by
    simp only [wfT, Bool.and_eq_true] at h
    have hv := h.2
    cases a <;> cases b <;> simp [validRange] at hv <;> simp [renderFullT, renderT]
  | .index a i, h => by
    simp only [wfT, Bool.and_eq_true] at h
    simp only [renderFullT, agreeFull a h.1, agreeFull i h.2]
  | .call f args, h => by
    simp only [wfT, Bool.and_eq_true] at h
    simp only [renderFullT, agreeFull f h.1, (agreeFullL args h.2).1]
theorem agreeFullL : ∀ (es : List PExpr), wfListT docTbl es = true →
    renderFullArgsT docTbl es = renderFullArgsT M es ∧ renderFullTailT docTbl es = renderFullTailT M es
  | [], _ => ⟨rfl, rfl⟩
  | e :: es, h => by
    simp only [wfListT, Bool.and_eq_true] at h
    exact ⟨by simp only [renderFullArgsT, agreeFull e h.1, (agreeFullL es h.2).2],
           by simp only [renderFullTailT, agreeFull e h.1, (agreeFullL es h.2).2]⟩
end


/-! ## the obligations of C03

`wf`: the operators are operators of the sub-grammar (18 binary, 3 prefix, 2 range tokens), a range
has two integer or two identifier operands (`is_valid_range`), and an assignment target is something the
parser accepts before `=` (`okBAT`: an identifier, or an expression whose last token closes an index or a
call and that needs no parentheses on the way there — `a[0] = 1`, `f(x) = 1`, `-a[0] = 1`, `x + a[0] = 1`).
Nothing is demanded of identifiers or literals: the theorem is about token lists (`Tok`), keywords and
`i64` range are the scanner's business (`P2sh.Parser.ofToken`). -/

def wf (e : PExpr) : Bool := wfT docTbl e
/-- minimal parentheses by the *documented* precedence table -/
def renderMin (e : PExpr) : List Tok := renderT docTbl e
/-- every operand in parentheses (except assignment targets and range operands, where the parser rejects them) -/
def renderFull (e : PExpr) : List Tok := renderFullT docTbl e

/-- a whole token list as one expression at the statement level (`parse_expression(Assignment)`) -/
def parse (fuel : Nat) (ts : List Tok) : Option PExpr :=
  match parseExpr fuel assignRank ts with
  | .ok (e, []) => some e
  | _ => none

def fuel (e : PExpr) : Nat := 2 * (renderMin e).length + 1
def fuelFull (e : PExpr) : Nat := 2 * (renderFull e).length + 1

/-- general form: any continuation that does not continue the expression, any sufficient fuel -/
theorem parseExpr_renderMin (e : PExpr) (hw : wf e = true) (rest : List Tok) (hs : stops assignRank rest)
    (F : Nat) (hF : fuel e ≤ F) : parseExpr F assignRank (renderMin e ++ rest) = .ok (e, rest) := by
  obtain ⟨h1, h2, _⟩ := agree e hw
  have : 1 + 2 * (renderT M e).length ≤ F := by simp only [fuel, renderMin, h2] at hF; omega
  simpa only [renderMin, h2] using parse_render_model e h1 rest hs F this

theorem parseExpr_renderFull (e : PExpr) (hw : wf e = true) (rest : List Tok) (hs : stops assignRank rest)
    (F : Nat) (hF : fuelFull e ≤ F) : parseExpr F assignRank (renderFull e ++ rest) = .ok (e, rest) := by
  obtain ⟨h1, _, _⟩ := agree e hw
  have h2 := agreeFull e hw
  have hU := U_renderFull e h1
  have hF' : 1 + 2 * (renderFullT M e).length ≤ F := by simp only [fuelFull, renderFull, h2] at hF; omega
  simp only [renderFull, h2]
  refine hU.2.2 assignRank rest 1 _ (above_assign hU.1) (stopsTop_of_assign hU.1 hs) ?_ (loop_stop hs (Nat.le_refl 1)) F hF'
  intro hp
  rw [not_peek_assign_of_stops (by rw [kinds_misc.2.2.2.2.2.2.2.2.1]; exact hs)] at hp
  cases hp

/-- **C03**: parsing the minimally parenthesised rendering (by the documented table) of an expression
tree gives back that tree — every tree over the sub-grammar, any size and depth -/
theorem parse_renderMin : ∀ e, wf e = true → parse (fuel e) (renderMin e) = some e := by
  intro e hw
  have := parseExpr_renderMin e hw [] trivial (fuel e) (Nat.le_refl _)
  simp only [List.append_nil] at this
  simp [parse, this]

theorem parse_renderFull : ∀ e, wf e = true → parse (fuelFull e) (renderFull e) = some e := by
  intro e hw
  have := parseExpr_renderFull e hw [] trivial (fuelFull e) (Nat.le_refl _)
  simp only [List.append_nil] at this
  simp [parse, this]

/-- more fuel does not change the result -/
theorem parse_renderMin_fuel (e : PExpr) (hw : wf e = true) (F : Nat) (hF : fuel e ≤ F) : parse F (renderMin e) = some e := by
  have := parseExpr_renderMin e hw [] trivial F hF
  simp only [List.append_nil] at this
  simp [parse, this]

/-- the two renderings of a tree parse to the same tree -/
theorem min_full_same (e : PExpr) (hw : wf e = true) :
    parse (fuel e) (renderMin e) = parse (fuelFull e) (renderFull e) := by
  rw [parse_renderMin e hw, parse_renderFull e hw]

/-! ## the statement-level entry point the driver runs (`P2sh.Parser.parseTop`) -/

/-- the first tokens do not make `parse_statement` leave `parse_expr_statement` / take the label branch -/
def startOK : List Tok → Bool
  | [] => false
  | t :: rest => !(statementKeywords.contains t.ttype) && t.ttype != "Eof" && !(t.ttype == "Identifier" && peekIs "Colon" rest)

theorem start_facts :
    (∀ op ∈ prefixOps, statementKeywords.contains op = false ∧ op ≠ "Eof" ∧ op ≠ "Identifier") ∧
    (∀ op ∈ infixToks, op ≠ "Colon") := by decide +kernel

theorem startOK_wrap_true (ts rest : List Tok) : startOK (wrapIf true ts ++ rest) = true := by
  have h1 : statementKeywords.contains "LeftParen" = false := by decide
  have h2 : ("LeftParen" != "Eof") = true := by decide
  have h3 : ("LeftParen" == "Identifier") = false := by decide
  simp only [wrapIf, if_true, List.cons_append, startOK, ttype_t, h1, h2, h3, Bool.false_and, Bool.not_false, Bool.and_self]

theorem startOK_left {b : Bool} {ra : List Tok} {op : String} {tl : List Tok} (hop : op ∈ infixToks)
    (ih : ∀ rest, peekIs "Colon" rest = false → startOK (ra ++ rest) = true) :
    startOK (wrapIf b ra ++ Tok.t op :: tl) = true := by
  cases b with
  | true => exact startOK_wrap_true _ _
  | false =>
    simp only [wrapIf, Bool.false_eq_true, if_false]
    exact ih _ (by simpa using start_facts.2 op hop)

theorem startOK_render (T : Tbl) : ∀ (x : PExpr), wfT T x = true → ∀ rest, peekIs "Colon" rest = false →
    startOK (renderT T x ++ rest) = true
  | .ifE _ _ _, h, _, _ => by simp [wfT] at h
  | .fnE _ _, h, _, _ => by simp [wfT] at h
  | .null, h, _, _ => by simp [wfT] at h
  | .score, h, _, _ => by simp [wfT] at h
  | .matchE _ _, h, _, _ => by simp [wfT] at h
  | .arr _, h, _, _ => by simp [wfT] at h
  | .map _, h, _, _ => by simp [wfT] at h
  | .lit _ _, h, _, _ => by simp [wfT] at h
  | .bid _, h, _, _ => by simp [wfT] at h
  | .int _, _, rest, _ => by simp [renderT, startOK]; decide
  | .bool b, _, rest, _ => by cases b <;> simp [renderT, startOK] <;> decide
  | .ident _, _, rest, h => by simp only [renderT, List.cons_append, List.nil_append, startOK, ttype_ident, h]; decide
  | .un op e, h, rest, _ => by
    simp only [wfT, Bool.and_eq_true, List.contains_iff_mem] at h
    obtain ⟨k1, k2, k3⟩ := start_facts.1 op h.1
    have k2' : (op != "Eof") = true := by simpa using k2
    have k3' : (op == "Identifier") = false := by simpa using k3
    simp only [renderT, List.cons_append, startOK, ttype_t, k1, k2', k3', Bool.false_and, Bool.not_false, Bool.and_self]
  | .bin op a b, h, rest, _ => by
    simp only [wfT, Bool.and_eq_true, List.contains_iff_mem] at h
    rw [renderT, List.append_assoc, List.cons_append]
    exact startOK_left (mem_infix_of_bin h.1.1) (startOK_render T a h.1.2)
  | .assign a b, h, rest, _ => by
    simp only [wfT, Bool.and_eq_true] at h
    rw [renderT, List.append_assoc, List.cons_append]
    exact startOK_left (by simp [infixToks]) (startOK_render T a h.1.2)
  | .range op a b, h, rest, _ => by
    simp only [wfT, Bool.and_eq_true, List.contains_iff_mem] at h
    have wa : wfT T a = true := by cases a <;> cases b <;> simp_all [validRange, wfT]
    rw [renderT, List.append_assoc, List.cons_append]
    exact startOK_left (mem_infix_of_range h.1) (startOK_render T a wa)
  | .index a i, h, rest, _ => by
    simp only [wfT, Bool.and_eq_true] at h
    rw [renderT, List.append_assoc, List.cons_append]
    exact startOK_left (by simp [infixToks]) (startOK_render T a h.1)
  | .call f args, h, rest, _ => by
    simp only [wfT, Bool.and_eq_true] at h
    rw [renderT, List.append_assoc, List.cons_append]
    exact startOK_left (by simp [infixToks]) (startOK_render T f h.1)

/-- the function the driver runs on the scanner's tokens, on `renderMin e` followed by `Eof` -/
theorem parseTop_renderMin (e : PExpr) (hw : wf e = true) (F : Nat) (hF : fuel e ≤ F) :
    parseTop F (renderMin e ++ [.t "Eof"]) = .ok e := by
  have hs : stops assignRank [Tok.t "Eof"] := stops_closer (by simp [closers])
  have hp := parseExpr_renderMin e hw [.t "Eof"] hs F hF
  have hst := startOK_render docTbl e hw [.t "Eof"] (by decide)
  unfold parseTop
  change startOK (renderMin e ++ [Tok.t "Eof"]) = true at hst
  generalize hts : renderMin e ++ [Tok.t "Eof"] = ts at hp hst
  cases ts with
  | nil => simp [startOK] at hst
  | cons t rest =>
    simp only [startOK, Bool.and_eq_true, Bool.not_eq_true', bne_iff_ne, ne_eq] at hst
    obtain ⟨⟨h1, h2⟩, h3⟩ := hst
    have h2' : (t.ttype == "Eof") = false := by simpa using h2
    have h4 : peekIs "Semicolon" [Tok.t "Eof"] = false := by decide
    simp only [h1, h2', Bool.or_self, Bool.false_eq_true, if_false, h3, hp, ok_bind, h4]
    rfl

/-- … and on scanner tokens: any token list the scanner hands over whose parser view (`ofToken`) is
`renderMin e` followed by `Eof` is parsed to `e` with the fuel the driver uses -/
theorem parseTokens_renderMin (e : PExpr) (hw : wf e = true) (toks : List P2sh.Scanner.Token)
    (h : toks.map ofToken = renderMin e ++ [.t "Eof"]) : parseTokens toks = .ok e := by
  have hl : toks.length = (renderMin e).length + 1 := by
    have := congrArg List.length h
    simpa using this
  unfold parseTokens
  rw [h]
  exact parseTop_renderMin e hw _ (by simp only [fuel, hl]; omega)


/-! ## non-vacuity: concrete trees, their two renderings, and what the parser model makes of token lists -/
section examples
private def i (n : Nat) : PExpr := .int n
private def v (s : String) : PExpr := .ident s
private def T (s : String) : Tok := .t s
private def LP := T "LeftParen"
private def RP := T "RightParen"

-- `1 + 2 * 3` and `(1 + 2) * 3`
example : renderMin (.bin "Plus" (i 1) (.bin "Asterisk" (i 2) (i 3))) = [.int 1, T "Plus", .int 2, T "Asterisk", .int 3] := by decide +kernel
example : parse 11 [.int 1, T "Plus", .int 2, T "Asterisk", .int 3] = some (.bin "Plus" (i 1) (.bin "Asterisk" (i 2) (i 3))) := by rfl
example : renderMin (.bin "Asterisk" (.bin "Plus" (i 1) (i 2)) (i 3)) = [LP, .int 1, T "Plus", .int 2, RP, T "Asterisk", .int 3] := by decide +kernel
example : parse 15 [LP, .int 1, T "Plus", .int 2, RP, T "Asterisk", .int 3] = some (.bin "Asterisk" (.bin "Plus" (i 1) (i 2)) (i 3)) := by rfl
example : renderFull (.bin "Plus" (i 1) (.bin "Asterisk" (i 2) (i 3))) =
    [LP, .int 1, RP, T "Plus", LP, LP, .int 2, RP, T "Asterisk", LP, .int 3, RP, RP] := by decide +kernel
-- `1 - 2 - 3` groups to the left; `1 - (2 - 3)` keeps its parentheses
example : parse 11 [.int 1, T "Minus", .int 2, T "Minus", .int 3] = some (.bin "Minus" (.bin "Minus" (i 1) (i 2)) (i 3)) := by rfl
example : renderMin (.bin "Minus" (.bin "Minus" (i 1) (i 2)) (i 3)) = [.int 1, T "Minus", .int 2, T "Minus", .int 3] := by decide +kernel
example : renderMin (.bin "Minus" (i 1) (.bin "Minus" (i 2) (i 3))) = [.int 1, T "Minus", LP, .int 2, T "Minus", .int 3, RP] := by decide +kernel
-- `a = b = c` groups to the right
example : parse 11 [.ident "a", T "Assign", .ident "b", T "Assign", .ident "c"] = some (.assign (v "a") (.assign (v "b") (v "c"))) := by rfl
example : renderMin (.assign (v "a") (.assign (v "b") (v "c"))) = [.ident "a", T "Assign", .ident "b", T "Assign", .ident "c"] := by decide +kernel
example : wf (.assign (v "a") (.assign (v "b") (v "c"))) = true := by decide +kernel
-- `(a = b) = c`, `1 = 2`, `-a = 1`, `a + b = c` are rejected by the parser; the trees are not well-formed
example : wf (.assign (.assign (v "a") (v "b")) (v "c")) = false := by decide +kernel
example : wf (.assign (i 1) (i 2)) = false := by decide +kernel
example : wf (.assign (.un "Minus" (v "a")) (i 1)) = false := by decide +kernel
example : parse 11 [.ident "a", T "Plus", .ident "b", T "Assign", .ident "c"] = none := by rfl
example : parse 11 [LP, .ident "a", RP, T "Assign", .ident "c"] = none := by rfl
-- … but `-a[0] = 1` is accepted and groups as `(-a[0]) = 1`
example : wf (.assign (.un "Minus" (.index (v "a") (i 0))) (i 1)) = true := by decide +kernel
example : parse 15 [T "Minus", .ident "a", T "LeftBracket", .int 0, T "RightBracket", T "Assign", .int 1] =
    some (.assign (.un "Minus" (.index (v "a") (i 0))) (i 1)) := by rfl
-- `-a[0]`: postfix binds tighter than prefix; `(-a)[0]` keeps its parentheses
example : parse 9 [T "Minus", .ident "a", T "LeftBracket", .int 0, T "RightBracket"] = some (.un "Minus" (.index (v "a") (i 0))) := by rfl
example : renderMin (.un "Minus" (.index (v "a") (i 0))) = [T "Minus", .ident "a", T "LeftBracket", .int 0, T "RightBracket"] := by decide +kernel
example : renderMin (.index (.un "Minus" (v "a")) (i 0)) = [LP, T "Minus", .ident "a", RP, T "LeftBracket", .int 0, T "RightBracket"] := by decide +kernel
-- `!f(x)` and `!(a && b)`
example : parse 9 [T "Bang", .ident "f", LP, .ident "x", RP] = some (.un "Bang" (.call (v "f") [v "x"])) := by rfl
example : renderMin (.un "Bang" (.bin "LogicalAnd" (v "a") (v "b"))) = [T "Bang", LP, .ident "a", T "LogicalAnd", .ident "b", RP] := by decide +kernel
-- `a < b == c`: one level, left to right
example : parse 11 [.ident "a", T "Less", .ident "b", T "Equal", .ident "c"] = some (.bin "Equal" (.bin "Less" (v "a") (v "b")) (v "c")) := by rfl
-- `f(1, x = 2)(y)`, `f()`
example : renderMin (.call (.call (v "f") [i 1, .assign (v "x") (i 2)]) [v "y"]) =
    [.ident "f", LP, .int 1, T "Comma", .ident "x", T "Assign", .int 2, RP, LP, .ident "y", RP] := by decide +kernel
example : parse 23 [.ident "f", LP, .int 1, T "Comma", .ident "x", T "Assign", .int 2, RP, LP, .ident "y", RP] =
    some (.call (.call (v "f") [i 1, .assign (v "x") (i 2)]) [v "y"]) := by rfl
example : parse 7 [.ident "f", LP, RP] = some (.call (v "f") []) := by rfl
-- ranges: `1..2`; `1..2..3` is rejected
example : parse 7 [.int 1, T "RangeEx", .int 2] = some (.range "RangeEx" (i 1) (i 2)) := by rfl
example : parse 11 [.int 1, T "RangeEx", .int 2, T "RangeEx", .int 3] = none := by rfl
example : wf (.range "RangeInc" (v "x") (v "y")) = true := by decide +kernel
example : wf (.range "RangeEx" (i 1) (.range "RangeEx" (i 2) (i 3))) = false := by decide +kernel
-- the theorems instantiated
example : parse (fuel (.bin "Minus" (i 1) (.bin "Minus" (i 2) (i 3)))) (renderMin (.bin "Minus" (i 1) (.bin "Minus" (i 2) (i 3)))) =
    some (.bin "Minus" (i 1) (.bin "Minus" (i 2) (i 3))) := parse_renderMin _ (by decide +kernel)
end examples


end P2sh.Props.C03Parse
