import P2sh.Driver.Util
import P2sh.Driver.Enc
import P2sh.Driver.OpsDrv
import P2sh.Driver.HMapDrv
import P2sh.Driver.PktDrv
import P2sh.Driver.LangDrv
import P2sh.Driver.BuiltinDrv
import P2sh.Driver.ScanDrv
import P2sh.Driver.PcapDrv
import P2sh.Driver.FileDrv
import P2sh.Driver.IoFaultDrv
import P2sh.Driver.VmDrv
import P2sh.Driver.SymtabDrv
import P2sh.Driver.CliDrv
import P2sh.Driver.ReplDrv
import P2sh.Driver.FilterDrv
import P2sh.Driver.CoreDrv
import P2sh.Driver.ParseDrv
import P2sh.Driver.ResolveDrv
open P2sh.Driver

def dispatch (line : String) : String :=
  if line.startsWith "eval " then LangDrv.runEval line else
  if line.startsWith "vmrun " then VmDrv.run line else
  if line.startsWith "repl " then ReplDrv.run line else
  if line.startsWith "filter " then FilterDrv.run line else
  if line.startsWith "filterout " then FilterDrv.runOut line else
  if line.startsWith "core " then CoreDrv.run line else
  if line.startsWith "core2 " then CoreDrv.run2 line else
  if line.startsWith "pexpr " then ParseDrv.run line else
  if line.startsWith "pprog " then ParseDrv.runProg line else
  if line.startsWith "pfull " then ParseDrv.runFull line else
  if line.startsWith "resolve " then ResolveDrv.run line else
  match words line with
  | [] => "bad-op"
  | op :: args =>
    match op with
    | "enc" => Enc.run args
    | "op" => OpsDrv.runOp args
    | "un" => OpsDrv.runUn args
    | "eqhash" => OpsDrv.runEqHash args
    | "hmap" => HMapDrv.run args
    | "pkt" => PktDrv.runPkt args
    | "addr" => PktDrv.runAddr args
    | "builtin" => BuiltinDrv.run args
    | "print" => BuiltinDrv.runPrint args
    | "scan" => ScanDrv.runScan args
    | "pcap" => PcapDrv.run args
    | "pcaphdr" => PcapDrv.runHdr args
    | "fread" => FileDrv.runRead args
    | "fwrite" => FileDrv.runWrite args
    | "fwriten" => FileDrv.runWriteN args
    | "iofault" => IoFaultDrv.run args
    | "symtab" => SymtabDrv.run args
    | "cli" => CliDrv.run args
    | "parse" => "MODEL-SKIP ## nopanic"
    | "compile" => "MODEL-SKIP ## nopanic"
    | _ => s!"bad-op {op}"

partial def loop (h : IO.FS.Stream) (out : IO.FS.Stream) : IO Unit := do
  let line ← h.getLine
  if line.isEmpty then return ()
  let l := line.trimAscii.toString
  if l.isEmpty then loop h out else
  out.putStrLn (dispatch l)
  loop h out

def main : IO Unit := do
  let out ← IO.getStdout
  loop (← IO.getStdin) out
  out.flush
