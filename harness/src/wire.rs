// Canonical text encoding of values and results (DESIGN Appendix C).
pub fn hex(bytes: &[u8]) -> String {
    let mut s = String::with_capacity(bytes.len() * 2);
    for b in bytes {
        s.push_str(&format!("{:02x}", b));
    }
    s
}

pub fn unhex(s: &str) -> Option<Vec<u8>> {
    if s.len() % 2 != 0 {
        return None;
    }
    let mut out = Vec::with_capacity(s.len() / 2);
    let b = s.as_bytes();
    for i in (0..b.len()).step_by(2) {
        let h = (b[i] as char).to_digit(16)?;
        let l = (b[i + 1] as char).to_digit(16)?;
        out.push((h * 16 + l) as u8);
    }
    Some(out)
}
