// Canonical text encoding of values and results (DESIGN Appendix C).
//   n | t | f | i:<dec> | d:<16 hex of f64 bits> | c:<code point> | b:<0..255> | s:<hex utf8>
//   a[v,v,…] | m{k=v,…} (sorted by encoded key) | B:<builtin name> | F | C | H:<kind> | E:<kind> | O:<kind>
use std::collections::HashMap;
use std::rc::Rc;

use crate::builtins::functions::BUILTINFNS;
use crate::code::definitions::Instructions;
use crate::object::array::Array;
use crate::object::error::ErrorObj;
use crate::object::file::FileHandle;
use crate::object::func::{Closure, CompiledFunction};
use crate::object::hmap::HMap;
use crate::object::Object;

pub fn hex(bytes: &[u8]) -> String {
    let mut s = String::with_capacity(bytes.len() * 2);
    for b in bytes {
        s.push_str(&format!("{:02x}", b));
    }
    s
}

pub fn unhex(s: &str) -> Option<Vec<u8>> {
    if s.len() % 2 != 0 {
        return None;
    }
    let mut out = Vec::with_capacity(s.len() / 2);
    let b = s.as_bytes();
    for i in (0..b.len()).step_by(2) {
        let h = (b[i] as char).to_digit(16)?;
        let l = (b[i + 1] as char).to_digit(16)?;
        out.push((h * 16 + l) as u8);
    }
    Some(out)
}

pub fn float_bits(f: f64) -> u64 {
    if f.is_nan() {
        0x7ff8000000000000
    } else {
        f.to_bits()
    }
}

pub fn enc(obj: &Object) -> String {
    match obj {
        Object::Null => "n".to_string(),
        Object::Bool(true) => "t".to_string(),
        Object::Bool(false) => "f".to_string(),
        Object::Integer(i) => format!("i:{}", i),
        Object::Float(f) => format!("d:{:016x}", float_bits(*f)),
        Object::Char(c) => format!("c:{}", *c as u32),
        Object::Byte(b) => format!("b:{}", b),
        Object::Str(s) => format!("s:{}", hex(s.as_bytes())),
        Object::Arr(a) => {
            let items: Vec<String> = a.elements.borrow().iter().map(|e| enc(e)).collect();
            format!("a[{}]", items.join(","))
        }
        Object::Map(m) => {
            let mut items: Vec<String> = m.pairs.borrow().iter().map(|(k, v)| format!("{}={}", enc(k), enc(v))).collect();
            items.sort();
            format!("m{{{}}}", items.join(","))
        }
        Object::Builtin(b) => format!("B:{}", b.name),
        Object::Func(_) => "F".to_string(),
        Object::Clos(_) => "C".to_string(),
        Object::Return(v) => format!("R:{}", enc(v)),
        Object::File(fh) => match fh.as_ref() {
            FileHandle::Stdin => "H:stdin".to_string(),
            FileHandle::Stdout => "H:stdout".to_string(),
            FileHandle::Stderr => "H:stderr".to_string(),
            FileHandle::Reader(_) => "H:reader".to_string(),
            FileHandle::Writer(_) => "H:writer".to_string(),
        },
        Object::Err(e) => match e {
            ErrorObj::IO(_) => "E:io".to_string(),
            ErrorObj::Utf8(_) => "E:utf8".to_string(),
            ErrorObj::Packet(_) => "E:packet".to_string(),
        },
        Object::Pcap(_) => "O:pcap".to_string(),
        Object::Packet(_) => "O:packet".to_string(),
        Object::Eth(_) => "O:eth".to_string(),
        Object::Vlan(_) => "O:vlan".to_string(),
        Object::Ipv4(_) => "O:ipv4".to_string(),
        Object::Ipv6(_) => "O:ipv6".to_string(),
        Object::Udp(_) => "O:udp".to_string(),
        Object::Tcp(_) => "O:tcp".to_string(),
    }
}

struct P<'a> {
    s: &'a [u8],
    i: usize,
}

impl<'a> P<'a> {
    fn peek(&self) -> Option<u8> {
        self.s.get(self.i).copied()
    }
    fn take_until(&mut self, stops: &[u8]) -> &'a str {
        let st = self.i;
        while self.i < self.s.len() && !stops.contains(&self.s[self.i]) {
            self.i += 1;
        }
        std::str::from_utf8(&self.s[st..self.i]).unwrap_or("")
    }
    fn val(&mut self) -> Option<Rc<Object>> {
        let c = self.peek()?;
        self.i += 1;
        let stops = b",]}= ";
        let obj = match c {
            b'n' => Object::Null,
            b't' => Object::Bool(true),
            b'f' => Object::Bool(false),
            b'F' => Object::Func(Rc::new(CompiledFunction::new(Instructions::default(), 0, 0, 0))),
            b'C' => Object::Clos(Rc::new(Closure::new(Rc::new(CompiledFunction::new(Instructions::default(), 0, 0, 0)), Vec::new()))),
            b'i' | b'd' | b'c' | b'b' | b's' | b'B' | b'H' | b'E' | b'O' => {
                if self.peek()? != b':' {
                    return None;
                }
                self.i += 1;
                let t = self.take_until(stops);
                match c {
                    b'i' => Object::Integer(t.parse().ok()?),
                    b'd' => Object::Float(f64::from_bits(u64::from_str_radix(t, 16).ok()?)),
                    b'c' => Object::Char(char::from_u32(t.parse().ok()?)?),
                    b'b' => Object::Byte(t.parse().ok()?),
                    b's' => Object::Str(String::from_utf8(unhex(t)?).ok()?),
                    b'B' => Object::Builtin(Rc::new(BUILTINFNS.iter().find(|b| b.name == t)?.clone())),
                    b'H' => Object::File(Rc::new(match t {
                        "stdin" => FileHandle::Stdin,
                        "stdout" => FileHandle::Stdout,
                        "stderr" => FileHandle::Stderr,
                        _ => return None,
                    })),
                    b'E' => Object::Err(match t {
                        "io" => ErrorObj::IO(std::io::Error::new(std::io::ErrorKind::Other, "x")),
                        "utf8" => ErrorObj::Utf8(String::from_utf8(vec![0xff]).unwrap_err()),
                        _ => return None,
                    }),
                    _ => return None,
                }
            }
            b'a' => {
                if self.peek()? != b'[' {
                    return None;
                }
                self.i += 1;
                let mut items = Vec::new();
                if self.peek()? == b']' {
                    self.i += 1;
                } else {
                    loop {
                        items.push(self.val()?);
                        match self.peek()? {
                            b',' => self.i += 1,
                            b']' => {
                                self.i += 1;
                                break;
                            }
                            _ => return None,
                        }
                    }
                }
                Object::Arr(Rc::new(Array::new(items)))
            }
            b'm' => {
                if self.peek()? != b'{' {
                    return None;
                }
                self.i += 1;
                let mut pairs: HashMap<Rc<Object>, Rc<Object>> = HashMap::new();
                if self.peek()? == b'}' {
                    self.i += 1;
                } else {
                    loop {
                        let k = self.val()?;
                        if self.peek()? != b'=' {
                            return None;
                        }
                        self.i += 1;
                        let v = self.val()?;
                        pairs.insert(k, v);
                        match self.peek()? {
                            b',' => self.i += 1,
                            b'}' => {
                                self.i += 1;
                                break;
                            }
                            _ => return None,
                        }
                    }
                }
                Object::Map(Rc::new(HMap::new(pairs)))
            }
            _ => return None,
        };
        Some(Rc::new(obj))
    }
}

pub fn dec(s: &str) -> Option<Rc<Object>> {
    let mut p = P { s: s.as_bytes(), i: 0 };
    let v = p.val()?;
    if p.i == s.len() {
        Some(v)
    } else {
        None
    }
}
