pub mod enc;

/// One operation per line: `<op> <args…>`; the result is one line of canonical text.
pub fn dispatch(line: &str) -> String {
    let mut it = line.splitn(2, ' ');
    let op = it.next().unwrap_or("");
    let rest = it.next().unwrap_or("");
    match op {
        "enc" => enc::run(rest),
        _ => format!("bad-op {}", op),
    }
}
