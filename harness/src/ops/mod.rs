pub mod enc;
pub mod op;
pub mod hmap;
pub mod lang;
pub mod builtin;
pub mod pcapop;
pub mod symtab;
pub mod pkt;

/// One operation per line: `<op> <args…>`; the result is one line of canonical text.
pub fn dispatch(line: &str) -> String {
    let mut it = line.splitn(2, ' ');
    let op = it.next().unwrap_or("");
    let rest = it.next().unwrap_or("");
    match op {
        "enc" => enc::run(rest),
        "op" => op::run_op(rest),
        "un" => op::run_un(rest),
        "eqhash" => op::run_eqhash(rest),
        "hmap" => hmap::run(rest),
        "scan" => lang::scan(rest),
        "parse" => lang::parse(rest),
        "pexpr" => lang::pexpr(rest),
        "pprog" => lang::pprog(rest),
        "compile" => lang::compile(rest),
        "resolve" => lang::resolve(rest),
        "eval" => lang::eval(rest),
        "vmrun" => lang::vmrun(rest),
        "core" => lang::core(rest),
        "core2" => lang::core2(rest),
        "builtin" => builtin::run(rest),
        "pcap" => pcapop::run(rest),
        "symtab" => symtab::run(rest),
        "pkt" => pkt::run(rest),
        "addr" => pkt::addr(rest),
        _ => format!("bad-op {}", op),
    }
}
