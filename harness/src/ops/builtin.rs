// op `builtin <name> <arg>*` — the builtin called through the real VM (GetBuiltinFn, constants, Call n),
// so that call_builtin's error prefixing is exercised; reports the value, the first argument afterwards
// (push/pop/insert/sort mutate it) or the runtime error and whether it names the builtin.
use std::rc::Rc;

use crate::builtins::functions::BUILTINFNS;
use crate::code::definitions::{make, Instructions};
use crate::code::opcode::Opcode;
use crate::compiler::Bytecode;
use crate::object::Object;
use crate::vm::interpreter::VM;
use crate::wire;

pub fn run(rest: &str) -> String {
    let t: Vec<&str> = rest.split(' ').filter(|x| !x.is_empty()).collect();
    if t.is_empty() {
        return "bad-op".into();
    }
    let name = t[0];
    let Some(idx) = BUILTINFNS.iter().position(|b| b.name == name) else {
        return "bad-op".into();
    };
    let mut consts: Vec<Rc<Object>> = Vec::new();
    for a in &t[1..] {
        match wire::dec(a) {
            Some(v) => consts.push(v),
            None => return "bad-op".into(),
        }
    }
    let mut ins = Instructions::default();
    let mut emit = |op: Opcode, operands: &[usize]| {
        let i = make(op, operands, 1);
        ins.code.extend_from_slice(&i.code);
        ins.lines.extend_from_slice(&i.lines);
    };
    emit(Opcode::GetBuiltinFn, &[idx]);
    for i in 0..consts.len() {
        emit(Opcode::Constant, &[i]);
    }
    emit(Opcode::Call, &[consts.len()]);
    let first = consts.first().cloned();
    let bc = Bytecode { instructions: ins, constants: consts, filters: Vec::new(), filter_end: None };
    let mut vm = VM::new(bc);
    match vm.run() {
        Ok(()) => {
            let a0 = first.map(|f| wire::enc(&f)).unwrap_or("-".into());
            format!("ok {} a0={}", wire::enc(&vm.peek(0)), a0)
        }
        Err(e) => format!("rterr named={} {}", if e.msg.starts_with(&format!("{}: ", name)) { "t" } else { "f" }, wire::hex(e.msg.as_bytes())),
    }
}
