// op `pcap <hex file content> <script>` (C19) — the content is written to a transient file, opened through the
// real `pcap_open`, and the script of steps separated by `,` is run through the real builtins:
//   N     pcap_read_next(f)
//   A     pcap_read_all(f)          A<n>  pcap_read_all(f, n)
//   W     pcap_open(second file, "w"), pcap_write of every packet handed out so far, handle dropped;
//         reports the bytes of that file
//   R     pcap_open(second file), pcap_read_all
// Output: `<open result>;<step>;<step>…` with packet → `pkt:<ts_sec>:<ts_usec>:<caplen>:<wirelen>:<hex data>`
// (header fields through the real getters, data through `Vec<u8>::from(&PcapPacket)`), arrays `a[…,…]`,
// null `n`, error objects `E:<kind>`, runtime errors `rterr`, the written file `w:<hex>`.
// Transient files live in $VERIF_SCRATCH (else the system temp dir) and are removed before returning.
use std::path::PathBuf;
use std::rc::Rc;
use std::sync::atomic::{AtomicUsize, Ordering};

use crate::builtins::functions::BUILTINFNS;
use crate::object::Object;
use crate::wire;

static COUNTER: AtomicUsize = AtomicUsize::new(0);

struct Files(Vec<PathBuf>);
impl Drop for Files {
    fn drop(&mut self) {
        for p in &self.0 {
            let _ = std::fs::remove_file(p);
        }
    }
}

fn call(name: &str, args: Vec<Rc<Object>>) -> Result<Rc<Object>, String> {
    let b = BUILTINFNS.iter().find(|b| b.name == name).unwrap();
    (b.func)(args)
}

fn int_of(o: Rc<Object>) -> String {
    match o.as_ref() {
        Object::Integer(i) => i.to_string(),
        other => format!("?{}", wire::enc(other)),
    }
}

fn show(obj: &Object) -> String {
    match obj {
        Object::Packet(p) => {
            let bytes: Vec<u8> = p.as_ref().into();
            let data = if bytes.len() >= 16 { &bytes[16..] } else { &bytes[..] };
            format!(
                "pkt:{}:{}:{}:{}:{}",
                int_of(p.get_ts_sec()),
                int_of(p.get_ts_usec()),
                int_of(p.get_caplen()),
                int_of(p.get_wirelen()),
                wire::hex(data)
            )
        }
        Object::Arr(a) => {
            let items: Vec<String> = a.elements.borrow().iter().map(|e| show(e)).collect();
            format!("a[{}]", items.join(","))
        }
        Object::Pcap(_) => "P".to_string(),
        other => wire::enc(other),
    }
}

fn show_res(r: &Result<Rc<Object>, String>) -> String {
    match r {
        Ok(v) => show(v),
        Err(_) => "rterr".to_string(),
    }
}

pub fn run(rest: &str) -> String {
    let mut it = rest.splitn(2, ' ');
    let (Some(hexc), Some(script)) = (it.next(), it.next()) else {
        return "bad-op".into();
    };
    let content = if hexc == "-" { Some(Vec::new()) } else { wire::unhex(hexc) };
    let Some(content) = content else {
        return "bad-op".into();
    };
    let dir = std::env::var_os("VERIF_SCRATCH").map(PathBuf::from).unwrap_or_else(std::env::temp_dir);
    let id = COUNTER.fetch_add(1, Ordering::SeqCst);
    let p1 = dir.join(format!("p2v-pcap-{}-{}-in.pcap", std::process::id(), id));
    let p2 = dir.join(format!("p2v-pcap-{}-{}-out.pcap", std::process::id(), id));
    let _guard = Files(vec![p1.clone(), p2.clone()]);
    if std::fs::write(&p1, &content).is_err() {
        return "bad-op scratch".into();
    }
    let s1 = Rc::new(Object::Str(p1.to_string_lossy().into_owned()));
    let s2 = Rc::new(Object::Str(p2.to_string_lossy().into_owned()));
    let opened = call("pcap_open", vec![s1]);
    let mut out = vec![show_res(&opened)];
    let handle = match opened {
        Ok(h) if matches!(h.as_ref(), Object::Pcap(_)) => h,
        _ => return out.join(";"),
    };
    let mut got: Vec<Rc<Object>> = Vec::new();
    for st in script.split(',') {
        if st.is_empty() || st == "-" {
            continue;
        }
        let (tag, body) = st.split_at(1);
        let r = match tag {
            "N" => {
                let r = call("pcap_read_next", vec![handle.clone()]);
                if let Ok(v) = &r {
                    if matches!(v.as_ref(), Object::Packet(_)) {
                        got.push(v.clone());
                    }
                }
                show_res(&r)
            }
            "A" => {
                let mut args = vec![handle.clone()];
                if !body.is_empty() {
                    let Ok(n) = body.parse::<i64>() else { return "bad-op".into() };
                    args.push(Rc::new(Object::Integer(n)));
                }
                let r = call("pcap_read_all", args);
                if let Ok(v) = &r {
                    if let Object::Arr(a) = v.as_ref() {
                        got.extend(a.elements.borrow().iter().cloned());
                    }
                }
                show_res(&r)
            }
            "W" => {
                let w = call("pcap_open", vec![s2.clone(), Rc::new(Object::Str("w".into()))]);
                match w {
                    Ok(wh) if matches!(wh.as_ref(), Object::Pcap(_)) => {
                        let mut bad = None;
                        for p in &got {
                            let r = call("pcap_write", vec![wh.clone(), p.clone()]);
                            match &r {
                                Ok(v) if matches!(v.as_ref(), Object::Integer(_)) => {}
                                _ => {
                                    bad = Some(show_res(&r));
                                    break;
                                }
                            }
                        }
                        drop(wh); // the BufWriter is flushed when the last reference goes
                        match bad {
                            Some(b) => format!("w:!{}", b),
                            None => match std::fs::read(&p2) {
                                Ok(bytes) => format!("w:{}", wire::hex(&bytes)),
                                Err(_) => "w:!missing".to_string(),
                            },
                        }
                    }
                    other => format!("w:!{}", show_res(&other)),
                }
            }
            "R" if !p2.exists() => "nofile".to_string(),
            "R" => {
                let r = call("pcap_open", vec![s2.clone()]);
                match r {
                    Ok(h2) if matches!(h2.as_ref(), Object::Pcap(_)) => show_res(&call("pcap_read_all", vec![h2])),
                    other => show_res(&other),
                }
            }
            _ => return "bad-op".into(),
        };
        out.push(r);
    }
    out.join(";")
}
