// Language-level ops on the real scanner / parser / compiler / VM:
//   scan <hex src>    -> tokens
//   parse <hex src>   -> AST s-expression + number of parse errors
//   compile <hex src> -> bytecode dump (code, lines, constants with nested functions, filters) or compile error
//   eval <hex src>    -> final value, observation array `obs`, runtime error line, operand-stack height
use std::rc::Rc;

use crate::code::definitions::Instructions;
use crate::compiler::Compiler;
use crate::object::func::CompiledFunction;
use crate::object::Object;
use crate::parser::ast::expr::*;
use crate::parser::ast::stmt::*;
use crate::parser::ast::Program;
use crate::parser::Parser;
use crate::scanner::token::TokenType;
use crate::scanner::Scanner;
use crate::vm::interpreter::VM;
use crate::wire;

fn src_of(rest: &str) -> Option<String> {
    String::from_utf8(wire::unhex(rest.trim().split(' ').next().unwrap_or(""))?).ok()
}

pub fn scan(rest: &str) -> String {
    let Some(src) = src_of(rest) else { return "bad-op".into() };
    let mut sc = Scanner::new(&src);
    let mut out = Vec::new();
    // the scanner consumes at least one char per token; 2*len+2 is a generous watchdog
    let limit = src.chars().count() * 2 + 4;
    for _ in 0..limit {
        let t = sc.next_token();
        out.push(format!("{:?}:{}:{}", t.ttype, wire::hex(t.literal.as_bytes()), t.line));
        if t.ttype == TokenType::Eof {
            return format!("toks {}", out.join(" "));
        }
    }
    "HANG".into()
}

fn acc(c: &ParseContext) -> &'static str {
    match c.access {
        AccessType::Get => "get",
        AccessType::Set => "set",
    }
}

fn blk(b: &BlockStatement) -> String {
    let items: Vec<String> = b.statements.iter().map(stmt).collect();
    format!("(blk:{}{}{})", b.token.line, if items.is_empty() { "" } else { " " }, items.join(" "))
}

fn pat(p: &MatchPattern) -> String {
    match p {
        MatchPattern::Boolean(b) => format!("(pbool:{} {})", b.token.line, if b.value { "t" } else { "f" }),
        MatchPattern::Integer(n) => format!("(pint:{} {})", n.token.line, n.value),
        MatchPattern::Char(c) => format!("(pchar:{} {})", c.token.line, c.value as u32),
        MatchPattern::Byte(b) => format!("(pbyte:{} {})", b.token.line, b.value),
        MatchPattern::Str(s) => format!("(pstr:{} {})", s.token.line, wire::hex(s.value.as_bytes())),
        MatchPattern::Range(r) => format!("(prange:{} {} {} {})", r.token.line, r.operator, expr(&r.begin), expr(&r.end)),
        MatchPattern::Default(u) => format!("(pdef:{})", u.token.line),
    }
}

fn params(ps: &[Identifier]) -> String {
    let items: Vec<String> = ps.iter().map(|p| wire::hex(p.value.as_bytes())).collect();
    format!("(params{}{})", if items.is_empty() { "" } else { " " }, items.join(" "))
}

fn func(f: &FunctionLiteral, head: &str) -> String {
    let name = if f.name.is_empty() { "-".to_string() } else { wire::hex(f.name.as_bytes()) };
    format!("({}:{} {} {} {})", head, f.token.line, name, params(&f.params), blk(&f.body))
}

pub fn expr(e: &Expression) -> String {
    match e {
        Expression::Null(n) => format!("(null:{})", n.token.line),
        Expression::Score(u) => format!("(score:{})", u.token.line),
        Expression::Ident(i) => format!("(id:{} {} {})", i.token.line, wire::hex(i.value.as_bytes()), acc(&i.context)),
        Expression::Builtin(b) => format!("(bid:{} {})", b.token.line, b.value),
        Expression::Integer(n) => format!("(int:{} {})", n.token.line, n.value),
        Expression::Float(n) => format!("(float:{} {:016x})", n.token.line, wire::float_bits(n.value)),
        Expression::Str(s) => format!("(str:{} {})", s.token.line, wire::hex(s.value.as_bytes())),
        Expression::Char(c) => format!("(char:{} {})", c.token.line, c.value as u32),
        Expression::Byte(b) => format!("(byte:{} {})", b.token.line, b.value),
        Expression::Unary(u) => format!("(un:{} {} {})", u.token.line, u.operator, expr(&u.right)),
        Expression::Binary(b) => format!("(bin:{} {} {} {})", b.token.line, b.operator, expr(&b.left), expr(&b.right)),
        Expression::Bool(b) => format!("(bool:{} {})", b.token.line, if b.value { "t" } else { "f" }),
        Expression::If(i) => {
            let e = match &i.else_if {
                ElseIfExpr::Empty => "(noelse)".to_string(),
                ElseIfExpr::Else(b) => format!("(else {})", blk(b)),
                ElseIfExpr::ElseIf(x) => format!("(elif {})", expr(x)),
            };
            format!("(if:{} {} {} {})", i.token.line, expr(&i.condition), blk(&i.then_stmt), e)
        }
        Expression::Match(m) => {
            let arms: Vec<String> = m
                .arms
                .iter()
                .map(|a| {
                    let ps: Vec<String> = a.patterns.iter().map(pat).collect();
                    format!("(arm:{} (pats {}) {})", a.token.line, ps.join(" "), blk(&a.body))
                })
                .collect();
            format!("(match:{} {} {})", m.token.line, expr(&m.expr), arms.join(" "))
        }
        Expression::Function(f) => func(f, "fn"),
        Expression::Call(c) => {
            let args: Vec<String> = c.args.iter().map(expr).collect();
            format!("(call:{} {}{}{})", c.token.line, expr(&c.func), if args.is_empty() { "" } else { " " }, args.join(" "))
        }
        Expression::Array(a) => {
            let items: Vec<String> = a.elements.iter().map(expr).collect();
            format!("(arr:{}{}{})", a.token.line, if items.is_empty() { "" } else { " " }, items.join(" "))
        }
        Expression::Hash(h) => {
            let items: Vec<String> = h.pairs.iter().map(|(k, v)| format!("(kv {} {})", expr(k), expr(v))).collect();
            format!("(map:{}{}{})", h.token.line, if items.is_empty() { "" } else { " " }, items.join(" "))
        }
        Expression::Index(i) => format!("(index:{} {} {} {})", i.token.line, expr(&i.left), expr(&i.index), acc(&i.context)),
        Expression::Assign(a) => format!("(assign:{} {} {})", a.token.line, expr(&a.left), expr(&a.right)),
        Expression::Range(r) => format!("(range:{} {} {} {})", r.token.line, r.operator, expr(&r.begin), expr(&r.end)),
        Expression::Dot(d) => format!("(dot:{} {} {} {})", d.token.line, expr(&d.left), expr(&d.property), acc(&d.context)),
        Expression::Prop(p) => format!("(prop:{} {} {})", p.token.line, p.value as u8, acc(&p.context)),
        Expression::Invalid => "(invalid)".to_string(),
    }
}

fn label(l: &Option<crate::scanner::token::Token>) -> String {
    match l {
        Some(t) => wire::hex(t.literal.as_bytes()),
        None => "-".to_string(),
    }
}

pub fn stmt(s: &Statement) -> String {
    match s {
        Statement::Let(l) => format!("(let:{} {} {})", l.token.line, wire::hex(l.name.value.as_bytes()), expr(&l.value)),
        Statement::Return(r) => format!("(ret:{} {})", r.token.line, r.value.as_ref().map(expr).unwrap_or("-".into())),
        Statement::Expr(e) => format!("(expr:{} {})", e.token.line, expr(&e.value)),
        Statement::Block(b) => blk(b),
        Statement::Loop(l) => format!("(loop:{} {} {})", l.token.line, label(&l.label), blk(&l.body)),
        Statement::While(w) => format!("(while:{} {} {} {})", w.token.line, label(&w.label), expr(&w.condition), blk(&w.body)),
        Statement::Break(b) => format!("(break:{} {})", b.token.line, label(&b.label)),
        Statement::Continue(c) => format!("(continue:{} {})", c.token.line, label(&c.label)),
        Statement::Function(f) => func(f, "fnstmt"),
        Statement::Filter(f) => {
            let p = match &f.pattern {
                FilterPattern::Expr(e) => format!("(pexpr {})", expr(e)),
                FilterPattern::End => "(pend)".to_string(),
                FilterPattern::None => "(pnone)".to_string(),
            };
            format!("(filter:{} {} {})", f.token.line, p, f.action.as_ref().map(blk).unwrap_or("-".into()))
        }
        Statement::Invalid => "(sinvalid)".to_string(),
    }
}

fn program(p: &Program) -> String {
    let items: Vec<String> = p.statements.iter().map(stmt).collect();
    format!("(prog{}{})", if items.is_empty() { "" } else { " " }, items.join(" "))
}

pub fn parse(rest: &str) -> String {
    let Some(src) = src_of(rest) else { return "bad-op".into() };
    let mut parser = Parser::new(Scanner::new(&src));
    let prog = parser.parse_program();
    let nerr = parser.parse_errors().len();
    let lines: Vec<String> = parser
        .parse_errors()
        .iter()
        .map(|e| e.trim_start_matches("[line ").split(']').next().unwrap_or("?").to_string())
        .collect();
    format!("ast errs={} errlines=[{}] {}", nerr, lines.join(","), program(&prog))
}

/// canonical text of an expression of the operator / atom sub-grammar (the format of
/// `P2sh.Parser.PExpr.canon` in the Lean model); anything else prints as `(other)`
fn pcanon(e: &Expression) -> String {
    match e {
        Expression::Integer(n) => format!("(int {})", n.value),
        Expression::Bool(b) => format!("(bool {})", if b.value { "t" } else { "f" }),
        Expression::Ident(i) => format!("(id {})", wire::hex(i.value.as_bytes())),
        Expression::Unary(u) => format!("(un {:?} {})", u.token.ttype, pcanon(&u.right)),
        Expression::Binary(b) => format!("(bin {:?} {} {})", b.token.ttype, pcanon(&b.left), pcanon(&b.right)),
        Expression::Assign(a) => format!("(assign {} {})", pcanon(&a.left), pcanon(&a.right)),
        Expression::Range(r) => format!("(range {:?} {} {})", r.token.ttype, pcanon(&r.begin), pcanon(&r.end)),
        Expression::Index(i) => format!("(index {} {})", pcanon(&i.left), pcanon(&i.index)),
        Expression::Call(c) => {
            let args: Vec<String> = c.args.iter().map(|a| format!(" {}", pcanon(a))).collect();
            format!("(call {}{})", pcanon(&c.func), args.join(""))
        }
        Expression::If(i) => {
            let e = match &i.else_if {
                ElseIfExpr::Empty => "(noelse)".to_string(),
                ElseIfExpr::Else(b) => format!("(else {})", pblk(b)),
                ElseIfExpr::ElseIf(x) => format!("(elif {})", pcanon(x)),
            };
            format!("(if {} {} {})", pcanon(&i.condition), pblk(&i.then_stmt), e)
        }
        Expression::Function(f) => format!("(fn {} {})", pparams(&f.params), pblk(&f.body)),
        _ => "(other)".to_string(),
    }
}

fn pparams(ps: &[Identifier]) -> String {
    let items: Vec<String> = ps.iter().map(|p| format!(" {}", wire::hex(p.value.as_bytes()))).collect();
    format!("(params{})", items.join(""))
}

fn pblk(b: &BlockStatement) -> String {
    let items: Vec<String> = b.statements.iter().map(|s| format!(" {}", pstmt(s))).collect();
    format!("(blk{})", items.join(""))
}

/// canonical text of a statement (the format of `P2sh.Parser.PStmt.canon`)
fn pstmt(s: &Statement) -> String {
    match s {
        Statement::Let(l) => format!("(let {} {})", wire::hex(l.name.value.as_bytes()), pcanon(&l.value)),
        Statement::Return(r) => match &r.value {
            Some(v) => format!("(ret {})", pcanon(v)),
            None => "(ret)".to_string(),
        },
        Statement::Expr(e) => format!("(expr {})", pcanon(&e.value)),
        Statement::Block(b) => pblk(b),
        Statement::While(w) if w.label.is_none() => format!("(while {} {})", pcanon(&w.condition), pblk(&w.body)),
        Statement::Loop(l) if l.label.is_none() => format!("(loop {})", pblk(&l.body)),
        Statement::Break(b) => format!("(break {})", label(&b.label)),
        Statement::Continue(c) => format!("(continue {})", label(&c.label)),
        Statement::Function(f) => format!("(fnstmt {} {} {})", wire::hex(f.name.as_bytes()), pparams(&f.params), pblk(&f.body)),
        _ => "(sother)".to_string(),
    }
}

/// `pexpr <hex src> [@@ …]`: the real parser on a program that is one expression statement (C03)
pub fn pexpr(rest: &str) -> String {
    let Some(src) = src_of(rest) else { return "bad-op".into() };
    let mut parser = Parser::new(Scanner::new(&src));
    let prog = parser.parse_program();
    if !parser.parse_errors().is_empty() {
        return "perr".into();
    }
    match prog.statements.as_slice() {
        [Statement::Expr(e)] => format!("ok {}", pcanon(&e.value)),
        _ => "multi".into(),
    }
}

/// `pprog <hex src> [@@ …]`: the real parser on a whole program (C01): `perr` or the canonical statement list
pub fn pprog(rest: &str) -> String {
    let Some(src) = src_of(rest) else { return "bad-op".into() };
    let mut parser = Parser::new(Scanner::new(&src));
    let prog = parser.parse_program();
    if !parser.parse_errors().is_empty() {
        return "perr".into();
    }
    let items: Vec<String> = prog.statements.iter().map(|s| format!(" {}", pstmt(s))).collect();
    format!("ok (prog{})", items.join(""))
}

fn nums<T: std::fmt::Display>(xs: &[T]) -> String {
    let v: Vec<String> = xs.iter().map(|x| x.to_string()).collect();
    v.join(",")
}

fn dump_fn(f: &CompiledFunction) -> String {
    format!("fn(code=[{}];lines=[{}];locals={};params={};line={})", nums(&f.instructions.code), nums(&f.instructions.lines), f.num_locals, f.num_params, f.line)
}

fn dump_const(o: &Object) -> String {
    match o {
        Object::Func(f) => dump_fn(f),
        other => wire::enc(other),
    }
}

pub fn compile_src(src: &str) -> Result<Compiler, String> {
    let mut parser = Parser::new(Scanner::new(src));
    let prog = parser.parse_program();
    let nerr = parser.parse_errors().len();
    if nerr > 0 {
        return Err(format!("perr {}", nerr));
    }
    let mut compiler = Compiler::new();
    match compiler.compile(prog) {
        Ok(()) => Ok(compiler),
        Err(e) => {
            // "[line N] compile error: msg"
            let text = format!("{}", e);
            let line = text.trim_start_matches("[line ").split(']').next().unwrap_or("?").to_string();
            Err(format!("cerr {} {}", line, wire::hex(text.as_bytes())))
        }
    }
}

pub fn compile(rest: &str) -> String {
    let Some(src) = src_of(rest) else { return "bad-op".into() };
    match compile_src(&src) {
        Err(e) => e,
        Ok(c) => {
            let bc = c.bytecode();
            let consts: Vec<String> = bc.constants.iter().map(|o| dump_const(o)).collect();
            let filters: Vec<String> = bc.filters.iter().map(|f| dump_fn(f)).collect();
            let fend = bc.filter_end.as_ref().map(|f| dump_fn(f)).unwrap_or("-".into());
            format!(
                "bc code=[{}] lines=[{}] consts=[{}] filters=[{}] end={}",
                nums(&bc.instructions.code),
                nums(&bc.instructions.lines),
                consts.join("|"),
                filters.join("|"),
                fend
            )
        }
    }
}

pub fn eval(rest: &str) -> String {
    let Some(src) = src_of(rest) else { return "bad-op".into() };
    let mut c = match compile_src(&src) {
        Err(e) => return e,
        Ok(c) => c,
    };
    // index of the global `obs` (observation array), if the program defines one at top level
    let obs_idx = c.symtab.resolve("obs", 0).and_then(|s| if format!("{}", s.scope) == "GLOBAL" { Some(s.index) } else { None });
    let bc = c.bytecode();
    let mut vm = VM::new(bc);
    let r = vm.run();
    let obs = obs_idx.map(|i| wire::enc(&vm.globals[i])).unwrap_or("-".into());
    let sp = vm.verif_sp();
    match r {
        Ok(()) => format!("ok {} obs={} sp={}", wire::enc(&vm.last_popped()), obs, sp),
        Err(e) => format!("rterr {} {} obs={}", e.line, wire::hex(e.msg.as_bytes()), obs),
    }
}

/// `vmrun <hex src>`: like `eval`, but reports global slot 0 (the observation array of generated
/// programs) so that the VM model, which runs the real compiler's bytecode, can be compared
pub fn vmrun(rest: &str) -> String {
    let Some(src) = src_of(rest) else { return "bad-op".into() };
    let c = match compile_src(&src) {
        Err(e) => return e,
        Ok(c) => c,
    };
    let bc = c.bytecode();
    let mut vm = VM::new(bc);
    let r = vm.run();
    let g0 = wire::enc(&vm.globals[0]);
    let sp = vm.verif_sp();
    match r {
        Ok(()) => format!("ok {} g0={} sp={}", wire::enc(&vm.last_popped()), g0, sp),
        Err(e) => format!("rterr {} {} g0={}", e.line, wire::hex(e.msg.as_bytes()), g0),
    }
}

/// `core <hex src>`: main code bytes, constants, the defined globals after the run and the last popped value —
/// compared byte-for-byte with the functional compiler model of the core fragment (lean/P2sh/Core)
pub fn core(rest: &str) -> String {
    let Some(src) = src_of(rest) else { return "bad-op".into() };
    let c = match compile_src(&src) {
        Err(e) => return e,
        Ok(c) => c,
    };
    let n = c.symtab.get_num_definitions();
    let bc = c.bytecode();
    let code = nums(&bc.instructions.code);
    // C13: the compiler's line table, one entry per code byte (compared with `Core.lineTable`)
    let lines = nums(&bc.instructions.lines);
    let consts: Vec<String> = bc.constants.iter().map(|o| dump_const(o)).collect();
    let mut vm = VM::new(bc);
    let r = vm.run();
    let gs: Vec<String> = (0..n).map(|i| wire::enc(&vm.globals[i])).collect();
    match r {
        Ok(()) => format!("code=[{}] lines=[{}] consts=[{}] ok g=[{}] last={} sp={}", code, lines, consts.join("|"), gs.join(","), wire::enc(&vm.last_popped()), vm.verif_sp()),
        Err(e) => format!("code=[{}] lines=[{}] consts=[{}] rterr {}", code, lines, consts.join("|"), e.line),
    }
}

/// `core2 <hex line 1> <hex line 2>`: the REPL's way of compiling a second line — a fresh
/// instruction stream in the carried state (symbol table, constant pool, globals); see
/// `run_prompt` in src/main.rs.  Prints the second line's code, the whole pool, the globals.
pub fn core2(rest: &str) -> String {
    let mut it = rest.trim().split(' ');
    let (Some(h1), Some(h2)) = (it.next(), it.next()) else { return "bad-op".into() };
    let (Some(s1), Some(s2)) = (wire::unhex(h1).and_then(|b| String::from_utf8(b).ok()), wire::unhex(h2).and_then(|b| String::from_utf8(b).ok())) else {
        return "bad-op".into();
    };
    let c1 = match compile_src(&s1) {
        Err(e) => return format!("line1 {}", e),
        Ok(c) => c,
    };
    let bc1 = c1.bytecode();
    let mut vm1 = VM::new(bc1);
    if let Err(e) = vm1.run() {
        return format!("line1 rterr {}", e.line);
    }
    let mut parser = Parser::new(Scanner::new(&s2));
    let prog = parser.parse_program();
    if !parser.parse_errors().is_empty() {
        return "line2 perr".into();
    }
    let mut c2 = Compiler::new_with_state(c1.symtab, c1.constants);
    if let Err(e) = c2.compile(prog) {
        return format!("line2 cerr {}", wire::hex(format!("{}", e).as_bytes()));
    }
    let n = c2.symtab.get_num_definitions();
    let bc2 = c2.bytecode();
    let code = nums(&bc2.instructions.code);
    let consts: Vec<String> = bc2.constants.iter().map(|o| dump_const(o)).collect();
    let mut vm2 = VM::new_with_global_store(bc2, vm1.globals);
    let r = vm2.run();
    let gs: Vec<String> = (0..n).map(|i| wire::enc(&vm2.globals[i])).collect();
    match r {
        Ok(()) => format!("code=[{}] consts=[{}] ok g=[{}] last={} sp={}", code, consts.join("|"), gs.join(","), wire::enc(&vm2.last_popped()), vm2.verif_sp()),
        Err(e) => format!("code=[{}] consts=[{}] rterr {}", code, consts.join("|"), e.line),
    }
}

/// the name-related instructions of one instruction stream, in byte order, one token each:
/// `GetGlobal:i SetGlobal:i DefineGlobal:i GetLocal:i SetLocal:i DefineLocal:i GetFree=i SetFree=i CurrClosure
/// GetBuiltinFn:i GetBuiltinVar:i Closure:<free count>:c=<constant index>`
fn name_instrs(ins: &Instructions) -> String {
    let code = &ins.code;
    let mut out: Vec<String> = Vec::new();
    let mut ip = 0;
    while ip < code.len() {
        let op = crate::code::opcode::Opcode::from(code[ip]);
        let Ok(def) = crate::code::definitions::lookup(code[ip]) else {
            out.push(format!("Invalid:{}", code[ip]));
            break;
        };
        let widths: usize = crate::code::definitions::operand_widths(op).iter().sum();
        if ip + 1 + widths > code.len() {
            out.push("Truncated".to_string());
            break;
        }
        let (operands, n) = crate::code::definitions::read_operands(def, &code[ip + 1..]);
        use crate::code::opcode::Opcode::*;
        match op {
            GetGlobal | SetGlobal | DefineGlobal | GetLocal | SetLocal | DefineLocal | GetBuiltinFn | GetBuiltinVar => {
                out.push(format!("{:?}:{}", op, operands[0]))
            }
            GetFree | SetFree => out.push(format!("{:?}={}", op, operands[0])),
            CurrClosure => out.push("CurrClosure".to_string()),
            Closure => out.push(format!("Closure:{}:c={}", operands[1], operands[0])),
            _ => {}
        }
        ip += 1 + n;
    }
    out.iter().map(|s| format!("{} ", s)).collect::<Vec<String>>().join("")
}

/// `resolve <hex src> [@@ …]` (C04): what the real compiler emitted for every name of the program.
/// Traversal: `main[ … ]` (the top-level code), then every function constant in constant-pool order as
/// `fn[ c=<index> … ]` (a function is added to the pool when its literal has been compiled: inner functions
/// first), then the filters in `Bytecode::filters` order as `filter[ … ]`, then the `end` filter as `end[ … ]`,
/// then `.`; inside a section the name-related instructions in byte order (see `name_instrs`).
/// A compile error prints `cerr <line>`, a parse error `perr`.
pub fn resolve(rest: &str) -> String {
    let Some(src) = src_of(rest) else { return "bad-op".into() };
    let c = match compile_src(&src) {
        Err(e) => {
            let mut it = e.split(' ');
            return match (it.next(), it.next()) {
                (Some("cerr"), Some(line)) => format!("cerr {}", line),
                _ => "perr".into(),
            };
        }
        Ok(c) => c,
    };
    let bc = c.bytecode();
    let mut parts = vec![format!("main[ {}]", name_instrs(&bc.instructions))];
    for (i, o) in bc.constants.iter().enumerate() {
        match o.as_ref() {
            Object::Func(f) => parts.push(format!("fn[ c={} {}]", i, name_instrs(&f.instructions))),
            Object::Clos(cl) => parts.push(format!("fn[ c={} {}]", i, name_instrs(&cl.func.instructions))),
            _ => {}
        }
    }
    for f in bc.filters.iter() {
        parts.push(format!("filter[ {}]", name_instrs(&f.instructions)));
    }
    if let Some(f) = bc.filter_end.as_ref() {
        parts.push(format!("end[ {}]", name_instrs(&f.instructions)));
    }
    format!("ok {} .", parts.join(" "))
}
