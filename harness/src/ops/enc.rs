// op `enc <opcode byte> <operand>*` : definitions::make + lookup + read_operands on the real code
use crate::code::definitions::{self, lookup, read_operands};
use crate::code::opcode::Opcode;

pub fn run(rest: &str) -> String {
    let nums: Vec<usize> = rest.split_whitespace().filter_map(|t| t.parse().ok()).collect();
    if nums.is_empty() {
        return "bad-op".to_string();
    }
    let opb = nums[0] as u8;
    let op = Opcode::from(opb);
    let opnum: u8 = op.into();
    let ins = definitions::make(op, &nums[1..], 7);
    let code: Vec<String> = ins.code.iter().map(|b| b.to_string()).collect();
    let mut s = format!("op={} code=[{}] lines={}", opnum, code.join(","), ins.lines.len());
    if !ins.code.is_empty() {
        match lookup(ins.code[0]) {
            Ok(def) => {
                let (ops, off) = read_operands(def, &ins.code[1..]);
                let ops: Vec<String> = ops.iter().map(|b| b.to_string()).collect();
                s.push_str(&format!(" dec=[{}] off={}", ops.join(","), off));
            }
            Err(_) => s.push_str(" dec=undefined"),
        }
    }
    s
}
