// ops `pkt <frame> <script>` and `addr <mac|v4|v6> <hex text>` (C15–C18).
//
// `pkt`: <frame> is `<hex>` (record header 0,0,len,len), `-` (empty frame) or `<sec>.<usec>.<caplen>.<wirelen>.<hex>`.
// A PcapPacket is built with the verification hook and driven through the REAL VM property code: every step is a
// tiny bytecode program (Constant / Dollar / GetProp / SetProp) run by a fresh `VM` whose current packet is the
// packet under test.  Steps, separated by `;`:
//   G<path>          read   `pkt.a.b.c`  or  `$n.a.b`      -> ok <wire value> | rterr
//   S<path>=<value>  assign `pkt.a.b = v` / `$n.a = v`     -> ok <wire value> | rterr
//   W                Vec<u8>::from(&PcapPacket)            -> ok <hex>
//   R                serialise, then re-parse the bytes (record header + data) into a fresh packet that replaces
//                    the packet under test                 -> ok <hex>
// A panic inside one step prints `PANIC` at that position and the script goes on.
use std::collections::HashMap;
use std::panic::{self, AssertUnwindSafe};
use std::rc::Rc;

use crate::builtins::pcap::{PcapPacket, PcapPacketHeader};
use crate::builtins::protocols::ipv4addr::Ipv4Address;
use crate::builtins::protocols::ipv6addr::Ipv6Address;
use crate::builtins::protocols::macaddress::MacAddress;
use crate::code::definitions::{make, Instructions};
use crate::code::opcode::Opcode;
use crate::code::prop::PacketPropType;
use crate::compiler::Bytecode;
use crate::object::Object;
use crate::vm::interpreter::VM;
use crate::wire;

/// the parser's PACKET_PROP_MAP (private there): Display name of every variant below Invalid, plus the alias
fn prop_map() -> HashMap<String, u8> {
    let mut map = HashMap::new();
    for p in 0..PacketPropType::Invalid as u8 {
        let t: PacketPropType = p.into();
        map.insert(t.to_string(), p);
    }
    map.insert("nsec".to_string(), PacketPropType::USec as u8);
    map
}

fn parse_frame(tok: &str) -> Option<(u32, u32, u32, u32, Vec<u8>)> {
    if tok == "-" {
        return Some((0, 0, 0, 0, Vec::new()));
    }
    if tok.contains('.') {
        let p: Vec<&str> = tok.split('.').collect();
        if p.len() != 5 {
            return None;
        }
        let data = wire::unhex(p[4])?;
        return Some((p[0].parse().ok()?, p[1].parse().ok()?, p[2].parse().ok()?, p[3].parse().ok()?, data));
    }
    let data = wire::unhex(tok)?;
    let n = data.len() as u32;
    Some((0, 0, n, n, data))
}

enum Head {
    Pkt,
    Dollar(i64),
}

fn parse_path(path: &str, props: &HashMap<String, u8>) -> Option<(Head, Vec<u8>)> {
    let mut comps = path.split('.');
    let first = comps.next()?;
    let mut out = Vec::new();
    let head = if let Some(n) = first.strip_prefix('$') {
        Head::Dollar(n.parse().ok()?)
    } else {
        out.push(*props.get(first)?);
        Head::Pkt
    };
    for c in comps {
        out.push(*props.get(c)?);
    }
    Some((head, out))
}

fn run_step(pkt: &Rc<PcapPacket>, head: &Head, props: &[u8], setval: Option<Rc<Object>>) -> String {
    let mut consts: Vec<Rc<Object>> = Vec::new();
    let mut ops: Vec<(Opcode, Vec<usize>)> = Vec::new();
    match head {
        Head::Pkt => {
            consts.push(Rc::new(Object::Packet(pkt.clone())));
            ops.push((Opcode::Constant, vec![0]));
        }
        Head::Dollar(n) => {
            consts.push(Rc::new(Object::Integer(*n)));
            ops.push((Opcode::Constant, vec![0]));
            ops.push((Opcode::Dollar, vec![]));
        }
    }
    let n = props.len();
    for (i, p) in props.iter().enumerate() {
        if i + 1 == n {
            if let Some(v) = &setval {
                consts.push(v.clone());
                ops.push((Opcode::Constant, vec![consts.len() - 1]));
                ops.push((Opcode::SetProp, vec![*p as usize]));
                continue;
            }
        }
        ops.push((Opcode::GetProp, vec![*p as usize]));
    }
    let mut ins = Instructions::default();
    for (op, operands) in &ops {
        let i = make(*op, operands, 1);
        ins.code.extend_from_slice(&i.code);
        ins.lines.extend_from_slice(&i.lines);
    }
    let bc = Bytecode { instructions: ins, constants: consts, filters: Vec::new(), filter_end: None };
    let mut vm = VM::new(bc);
    vm.set_curr_pkt(pkt.clone());
    match vm.run() {
        Ok(()) => format!("ok {}", wire::enc(&vm.peek(0))),
        Err(e) => format!("rterr {}", wire::hex(e.msg.as_bytes())),
    }
}

fn guarded<F: FnOnce() -> String>(f: F) -> String {
    match panic::catch_unwind(AssertUnwindSafe(f)) {
        Ok(s) => s,
        Err(_) => "PANIC".to_string(),
    }
}

pub fn run(rest: &str) -> String {
    let mut it = rest.splitn(2, ' ');
    let (Some(ftok), Some(script)) = (it.next(), it.next()) else {
        return "bad-op".into();
    };
    let Some((sec, usec, caplen, wirelen, data)) = parse_frame(ftok) else {
        return "bad-op".into();
    };
    let props = prop_map();
    let mut pkt = Rc::new(PcapPacket::verif_new(sec, usec, caplen, wirelen, data));
    let mut out: Vec<String> = Vec::new();
    for st in script.split(';') {
        if st.is_empty() {
            continue;
        }
        let (tag, body) = st.split_at(1);
        let r = match tag {
            "G" => {
                let Some((head, ps)) = parse_path(body, &props) else { return "bad-op".into() };
                guarded(|| run_step(&pkt, &head, &ps, None))
            }
            "S" => {
                let Some(eq) = body.find('=') else { return "bad-op".into() };
                let Some((head, ps)) = parse_path(&body[..eq], &props) else { return "bad-op".into() };
                let Some(v) = wire::dec(&body[eq + 1..]) else { return "bad-op".into() };
                if ps.is_empty() {
                    return "bad-op".into();
                }
                guarded(|| run_step(&pkt, &head, &ps, Some(v)))
            }
            "W" => guarded(|| {
                let bytes: Vec<u8> = Vec::<u8>::from(pkt.as_ref());
                format!("ok {}", wire::hex(&bytes))
            }),
            "R" => {
                let mut newpkt: Option<Rc<PcapPacket>> = None;
                let r = guarded(|| {
                    let bytes: Vec<u8> = Vec::<u8>::from(pkt.as_ref());
                    if let Ok(h) = PcapPacketHeader::from_bytes(&bytes) {
                        newpkt = Some(Rc::new(PcapPacket::verif_new(h.ts_sec, h.ts_usec, h.caplen, h.wirelen, bytes[16..].to_vec())));
                    }
                    format!("ok {}", wire::hex(&bytes))
                });
                if let Some(p) = newpkt {
                    pkt = p;
                }
                r
            }
            _ => return "bad-op".into(),
        };
        out.push(r);
    }
    out.join(";")
}

pub fn addr(rest: &str) -> String {
    let t: Vec<&str> = rest.split(' ').collect();
    if t.len() != 2 {
        return "bad-op".into();
    }
    let Some(raw) = wire::unhex(t[1]) else { return "bad-op".into() };
    let Ok(text) = String::from_utf8(raw) else { return "bad-op".into() };
    fn fmt(bytes: Vec<u8>, shown: String, rt: Option<Vec<u8>>) -> String {
        let rt = match rt {
            Some(b) => wire::hex(&b),
            None => "reject".to_string(),
        };
        format!("ok {} {} rt={}", wire::hex(&bytes), wire::hex(shown.as_bytes()), rt)
    }
    // `ok <address bytes> <displayed text> rt=<address bytes of from_str(displayed text) | reject>`
    match t[0] {
        "mac" => match MacAddress::from_str(&text) {
            Ok(a) => {
                let shown = a.to_string();
                let rt = MacAddress::from_str(&shown).ok().map(|x| Vec::<u8>::from(&x));
                fmt((&a).into(), shown, rt)
            }
            Err(_) => "reject".into(),
        },
        "v4" => match Ipv4Address::from_str(&text) {
            Ok(a) => {
                let shown = a.to_string();
                let rt = Ipv4Address::from_str(&shown).ok().map(|x| Vec::<u8>::from(&x));
                fmt((&a).into(), shown, rt)
            }
            Err(_) => "reject".into(),
        },
        "v6" => match Ipv6Address::from_str(&text) {
            Ok(a) => {
                let shown = a.to_string();
                let rt = Ipv6Address::from_str(&shown).ok().map(|x| Vec::<u8>::from(&x));
                fmt((&a).into(), shown, rt)
            }
            Err(_) => "reject".into(),
        },
        _ => "bad-op".into(),
    }
}
