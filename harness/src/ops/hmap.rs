// op `hmap <initial map> <step>;<step>;…` — a real HMap driven through the builtins get/contains/insert/len
// and through the VM's index expressions.  Steps: I<k>=<v> insert(m,k,v) · S<k>=<v> m[k]=v · G<k> get(m,k) ·
// X<k> m[k] · C<k> contains(m,k) · L len(m) · D dump
use std::rc::Rc;

use crate::builtins::functions::BUILTINFNS;
use crate::code::opcode::Opcode;
use crate::object::Object;
use crate::ops::op::run_code;
use crate::wire;

fn call(name: &str, args: Vec<Rc<Object>>) -> String {
    let b = BUILTINFNS.iter().find(|b| b.name == name).unwrap();
    match (b.func)(args) {
        Ok(v) => format!("ok {}", wire::enc(&v)),
        Err(e) => format!("rterr {}", wire::hex(e.as_bytes())),
    }
}

pub fn run(rest: &str) -> String {
    let mut it = rest.splitn(2, ' ');
    let (Some(m0), Some(steps)) = (it.next(), it.next()) else {
        return "bad-op".into();
    };
    let Some(m) = wire::dec(m0) else {
        return "bad-op".into();
    };
    let mut out = Vec::new();
    for st in steps.split(';') {
        if st.is_empty() {
            continue;
        }
        let (tag, body) = st.split_at(1);
        let r = match tag {
            "I" | "S" => {
                // key=value: the key is a complete value; find the '=' that separates them at depth 0
                let bytes = body.as_bytes();
                let mut depth = 0i32;
                let mut pos = None;
                for (i, c) in bytes.iter().enumerate() {
                    match c {
                        b'[' | b'{' => depth += 1,
                        b']' | b'}' => depth -= 1,
                        b'=' if depth == 0 => {
                            pos = Some(i);
                            break;
                        }
                        _ => {}
                    }
                }
                let Some(p) = pos else { return "bad-op".into() };
                let (Some(k), Some(v)) = (wire::dec(&body[..p]), wire::dec(&body[p + 1..])) else {
                    return "bad-op".into();
                };
                if tag == "I" {
                    call("insert", vec![m.clone(), k, v])
                } else {
                    run_code(vec![v, m.clone(), k], &[(Opcode::Constant, vec![0]), (Opcode::Constant, vec![1]), (Opcode::Constant, vec![2]), (Opcode::SetIndex, vec![])])
                }
            }
            "G" | "X" | "C" => {
                let Some(k) = wire::dec(body) else { return "bad-op".into() };
                match tag {
                    "G" => call("get", vec![m.clone(), k]),
                    "C" => call("contains", vec![m.clone(), k]),
                    _ => run_code(vec![m.clone(), k], &[(Opcode::Constant, vec![0]), (Opcode::Constant, vec![1]), (Opcode::GetIndex, vec![])]),
                }
            }
            "L" => call("len", vec![m.clone()]),
            "D" => format!("ok {}", wire::enc(&m)),
            _ => return "bad-op".into(),
        };
        out.push(r);
    }
    out.join(";")
}
