// op `symtab <step>;<step>;…` — the real SymbolTable driven step by step:
//   D<name>,<depth> define · R<name>,<depth> resolve · L<depth> leave_block · E enter (new_enclosed) · X leave to outer
//   F<name> define_function_name · B<idx>,<name> define_builtin_fn
use crate::compiler::symtab::SymbolTable;

fn sym(s: &crate::compiler::symtab::Symbol) -> String {
    format!("{}:{}:{}:{}", s.name, s.scope, s.index, s.depth)
}

pub fn run(rest: &str) -> String {
    let mut t = SymbolTable::default();
    let mut out = Vec::new();
    for st in rest.trim().split(';') {
        if st.is_empty() {
            continue;
        }
        let (tag, body) = st.split_at(1);
        let parts: Vec<&str> = body.split(',').collect();
        match tag {
            "D" => {
                let s = t.define(parts[0], parts[1].parse().unwrap_or(0));
                out.push(sym(&s));
            }
            "R" => match t.resolve(parts[0], parts[1].parse().unwrap_or(0)) {
                Some(s) => out.push(sym(&s)),
                None => out.push("none".into()),
            },
            "L" => {
                t.leave_block(parts[0].parse().unwrap_or(0));
                out.push("-".into());
            }
            "E" => {
                t = SymbolTable::new_enclosed(t);
                out.push("-".into());
            }
            "X" => {
                let frees: Vec<String> = t.free_symbols.iter().map(|s| sym(s)).collect();
                let n = t.get_num_definitions();
                match t.outer.take() {
                    Some(o) => t = *o,
                    None => return "bad-op".into(),
                }
                out.push(format!("free=[{}] n={}", frees.join("|"), n));
            }
            "F" => {
                let s = t.define_function_name(parts[0]);
                out.push(sym(&s));
            }
            "B" => {
                let s = t.define_builtin_fn(parts[0].parse().unwrap_or(0), parts[1]);
                out.push(sym(&s));
            }
            _ => return "bad-op".into(),
        }
    }
    out.join(";")
}
