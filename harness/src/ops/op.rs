// ops `op <Operator> <l> <r>`, `un <Minus|Bang|Not> <v>`, `eqhash <a> <b>`:
// operators through the real VM on constructed constants; Object::eq / partial_cmp / Hash / is_falsey / is_a_valid_key
use std::cmp::Ordering;
use std::hash::{Hash, Hasher};
use std::rc::Rc;

use crate::code::definitions::{make, Instructions};
use crate::code::opcode::Opcode;
use crate::compiler::Bytecode;
use crate::object::Object;
use crate::vm::interpreter::VM;
use crate::wire;

fn opcode(name: &str) -> Option<Opcode> {
    Some(match name {
        "Add" => Opcode::Add,
        "Sub" => Opcode::Sub,
        "Mul" => Opcode::Mul,
        "Div" => Opcode::Div,
        "Mod" => Opcode::Mod,
        "Equal" => Opcode::Equal,
        "NotEqual" => Opcode::NotEqual,
        "Greater" => Opcode::Greater,
        "GreaterEq" => Opcode::GreaterEq,
        "And" => Opcode::And,
        "Or" => Opcode::Or,
        "Xor" => Opcode::Xor,
        "ShiftLeft" => Opcode::ShiftLeft,
        "ShiftRight" => Opcode::ShiftRight,
        "Minus" => Opcode::Minus,
        "Bang" => Opcode::Bang,
        "Not" => Opcode::Not,
        _ => return None,
    })
}

pub fn run_code(consts: Vec<Rc<Object>>, ops: &[(Opcode, Vec<usize>)]) -> String {
    let mut ins = Instructions::default();
    for (op, operands) in ops {
        let i = make(*op, operands, 1);
        ins.code.extend_from_slice(&i.code);
        ins.lines.extend_from_slice(&i.lines);
    }
    let bc = Bytecode { instructions: ins, constants: consts, filters: Vec::new(), filter_end: None };
    let mut vm = VM::new(bc);
    match vm.run() {
        Ok(()) => format!("ok {}", wire::enc(&vm.peek(0))),
        Err(e) => format!("rterr {}", wire::hex(e.msg.as_bytes())),
    }
}

pub fn run_op(rest: &str) -> String {
    let t: Vec<&str> = rest.split(' ').collect();
    if t.len() != 3 {
        return "bad-op".into();
    }
    let (Some(op), Some(l), Some(r)) = (opcode(t[0]), wire::dec(t[1]), wire::dec(t[2])) else {
        return "bad-op".into();
    };
    run_code(vec![l, r], &[(Opcode::Constant, vec![0]), (Opcode::Constant, vec![1]), (op, vec![])])
}

pub fn run_un(rest: &str) -> String {
    let t: Vec<&str> = rest.split(' ').collect();
    if t.len() != 2 {
        return "bad-op".into();
    }
    let (Some(op), Some(v)) = (opcode(t[0]), wire::dec(t[1])) else {
        return "bad-op".into();
    };
    run_code(vec![v], &[(Opcode::Constant, vec![0]), (op, vec![])])
}

pub struct Rec(pub Vec<u8>);
impl Hasher for Rec {
    fn finish(&self) -> u64 {
        0
    }
    fn write(&mut self, bytes: &[u8]) {
        self.0.extend_from_slice(bytes);
    }
}

pub fn hash_stream(o: &Object) -> String {
    let mut h = Rec(Vec::new());
    o.hash(&mut h);
    wire::hex(&h.0)
}

fn tf(b: bool) -> &'static str {
    if b {
        "t"
    } else {
        "f"
    }
}

pub fn run_eqhash(rest: &str) -> String {
    let t: Vec<&str> = rest.split(' ').collect();
    if t.len() != 2 {
        return "bad-op".into();
    }
    let (Some(a), Some(b)) = (wire::dec(t[0]), wire::dec(t[1])) else {
        return "bad-op".into();
    };
    let cmp = match a.as_ref().partial_cmp(b.as_ref()) {
        Some(Ordering::Less) => "lt",
        Some(Ordering::Equal) => "eq",
        Some(Ordering::Greater) => "gt",
        None => "none",
    };
    format!(
        "eq={} ne={} cmp={} ha={} hb={} fa={} fb={} ka={} kb={}",
        tf(a.as_ref() == b.as_ref()),
        tf(a.as_ref() != b.as_ref()),
        cmp,
        hash_stream(&a),
        hash_stream(&b),
        tf(a.is_falsey()),
        tf(b.is_falsey()),
        tf(a.is_a_valid_key()),
        tf(b.is_a_valid_key()),
    )
}
