#!/usr/bin/env python3
"""Confirm a seeded change and run the registered quick check(s) against it.
usage: tools/seedcheck.py <out-dir with patch.diff demo.sh meta.json> <name> [extra property ids…]
Copies the material to /verif/seeded/<name>/ and writes what was run into its meta.json."""
import json, os, shutil, subprocess, sys, time

src, name = sys.argv[1], sys.argv[2]
extra = sys.argv[3:]
meta = json.load(open(os.path.join(src, "meta.json")))
prop = meta["property"]
wt = f"/tmp/sc/{name}"
os.makedirs("/tmp/sc", exist_ok=True)
def sh(cmd, cwd=None, timeout=3600):
    p = subprocess.run(cmd, shell=True, cwd=cwd, stdout=subprocess.PIPE, stderr=subprocess.STDOUT, timeout=timeout)
    return p.returncode, p.stdout.decode("utf-8", "replace")
sh(f"git -C /repo worktree remove --force {wt}")
rc, out = sh(f"git -C /repo worktree add -q {wt} HEAD")
res = {"applied": False}
try:
    rc, out = sh(f"git apply {os.path.abspath(src)}/patch.diff", cwd=wt)
    if rc != 0:
        res["apply_error"] = out[-400:]
        print(name, "PATCH DOES NOT APPLY TO HEAD:", out[-300:])
        raise SystemExit
    res["applied"] = True
    # unchanged build (shared) and changed build
    if not os.path.exists("/tmp/sc/orig/target/debug/p2sh"):
        sh("git -C /repo worktree remove --force /tmp/sc/orig"); sh("git -C /repo worktree add -q /tmp/sc/orig HEAD")
        rc, out = sh("cargo build --offline -q", cwd="/tmp/sc/orig")
    rc, out = sh("cargo build --offline -q", cwd=wt)
    res["builds"] = rc == 0
    rc, out = sh("cargo test --offline 2>&1 | grep 'test result'", cwd=wt)
    res["tests"] = out.strip()
    if "verif_hooks" in json.dumps(meta):
        # the demonstration drives the REPL through the scripted-line hook (the real prompt needs a terminal)
        sh("cargo build --offline -q --features verif_hooks", cwd=wt)
        sh("cargo build --offline -q --features verif_hooks", cwd="/tmp/sc/orig")
        res["demo_binaries_built_with"] = "--features verif_hooks"
    rc1, o1 = sh(f"bash {os.path.abspath(src)}/demo.sh {wt}/target/debug/p2sh", cwd=os.path.abspath(src), timeout=600)
    rc0, o0 = sh(f"bash {os.path.abspath(src)}/demo.sh /tmp/sc/orig/target/debug/p2sh", cwd=os.path.abspath(src), timeout=600)
    res["demo_on_changed_rc"] = rc1
    res["demo_on_unchanged_rc"] = rc0
    checks = {}
    for pid in [prop] + extra:
        t = time.time()
        rc, out = sh(f"./check {pid} --repo {wt}", cwd="/verif", timeout=3600)
        v = [l for l in out.splitlines() if l.startswith(("VIOLATION", "KNOWN-FINDING"))]
        summ = [l for l in out.splitlines() if l.startswith(pid + " [")]
        checks[pid] = {"rc": rc, "violation_lines": v[:4], "summary": summ[-1] if summ else out[-300:], "wall_s": round(time.time() - t, 1)}
        # keep one replay as illustration
    res["checks"] = checks
finally:
    sh(f"git -C /repo worktree remove --force {wt}")
    shutil.rmtree(f"/verif/.build/alt-" + __import__("hashlib").sha1(wt.encode()).hexdigest()[:10], ignore_errors=True)
dst = f"/verif/seeded/{name}"
os.makedirs(dst, exist_ok=True)
for f in os.listdir(src):
    p = os.path.join(src, f)
    if os.path.isfile(p) and os.path.getsize(p) < 2_000_000:
        shutil.copy2(p, dst)
meta["confirmed"] = res
meta["what_i_ran"] = "tools/seedcheck.py: git apply on a scratch worktree of /repo HEAD; cargo build; cargo test --offline; demo.sh against the changed and an unchanged build; ./check <property> --repo <worktree>"
json.dump(meta, open(os.path.join(dst, "meta.json"), "w"), indent=1)
print(name, json.dumps(res)[:1500])
