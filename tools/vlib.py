"""Framework shared by every property check (see DESIGN.md §5).

Decision procedure of a check:
  translator (Gen/*.lean from the working tree)        -> tie problems (T)
  lake build of the property's theorem modules + audit -> proof problems (P)
  cargo build of harness / p2sh from the working tree
  corpus + generated cases: model vs impl              -> correspondence problems (C)
                            impl vs spec (oracle)      -> violations with a replay
"""
import fcntl
import hashlib
import importlib
import json
import os
import random
import re
import shutil
import subprocess
import sys
import tempfile
import time

VERIF = os.path.dirname(os.path.dirname(os.path.abspath(__file__)))
LEAN = os.path.join(VERIF, "lean")
BUILD = os.path.join(VERIF, ".build")
ALLOWED_AXIOMS = {"propext", "Classical.choice", "Quot.sound"}
MODULES = ["builtins", "cliargs", "code", "compiler", "object", "parser", "repl", "scanner", "vm"]


class Ctx:
    def __init__(self, prop, tier="quick", seed=None, repo=None):
        self.prop = prop
        self.tier = os.environ.get("VERIF_TIER") or tier
        if self.tier not in ("quick", "thorough"):
            self.tier = "quick"
        s = os.environ.get("VERIF_SEED")
        self.seed = int(s) if s not in (None, "") else (seed if seed is not None else 1)
        self.repo = os.path.abspath(repo or os.environ.get("VERIF_REPO") or "/repo")
        self.key = "main" if self.repo == "/repo" else "alt-" + hashlib.sha1(self.repo.encode()).hexdigest()[:10]
        self.bdir = os.path.join(BUILD, self.key)
        os.makedirs(self.bdir, exist_ok=True)
        self.rng = random.Random(self.seed)
        self.problems = []  # dicts {kind: T|P|C, name, detail}
        self.notes = []
        self.t0 = time.time()
        self.scratch = os.path.join(self.bdir, "scratch", str(os.getpid()))

    def thorough(self):
        return self.tier == "thorough"

    def scale(self, quick, thorough):
        return thorough if self.thorough() else quick

    def mkscratch(self):
        os.makedirs(self.scratch, exist_ok=True)
        return self.scratch

    def cleanup(self):
        shutil.rmtree(self.scratch, ignore_errors=True)


class Lock:
    def __init__(self, name):
        os.makedirs(BUILD, exist_ok=True)
        self.path = os.path.join(BUILD, "." + name + ".lock")

    def __enter__(self):
        self.f = open(self.path, "w")
        fcntl.flock(self.f, fcntl.LOCK_EX)
        return self

    def __exit__(self, *a):
        fcntl.flock(self.f, fcntl.LOCK_UN)
        self.f.close()


def sh(cmd, cwd=None, env=None, timeout=None, input=None):
    e = dict(os.environ)
    e.update({"CARGO_NET_OFFLINE": "true"})
    if env:
        e.update(env)
    p = subprocess.run(cmd, cwd=cwd, env=e, stdout=subprocess.PIPE, stderr=subprocess.STDOUT, timeout=timeout, input=input)
    return p.returncode, p.stdout.decode("utf-8", "replace")


# ---------------------------------------------------------------- translator

def gen_dir(ctx):
    # Gen files live in the lean project for the main repo; alternate repos get a private copy of the project
    return os.path.join(lean_dir(ctx), "P2sh", "Gen")


def lean_dir(ctx):
    if ctx.key == "main":
        return LEAN
    d = os.path.join(ctx.bdir, "lean")
    return d


def sync_alt_lean(ctx):
    """Alternate repos (scratch worktrees) get their own copy of the lean project so that
    regenerated tables do not disturb the main one."""
    if ctx.key == "main":
        return
    d = lean_dir(ctx)
    os.makedirs(d, exist_ok=True)
    rc, out = sh(["rsync", "-a", "--delete", "--exclude", ".lake", "--exclude", "P2sh/Gen", LEAN + "/", d + "/"])
    if rc != 0:
        raise RuntimeError("rsync failed: " + out)
    if not os.path.isdir(os.path.join(d, ".lake")) and os.path.isdir(os.path.join(LEAN, ".lake")):
        sh(["cp", "-a", os.path.join(LEAN, ".lake"), os.path.join(d, ".lake")])
    os.makedirs(os.path.join(d, "P2sh", "Gen"), exist_ok=True)
    for f in os.listdir(os.path.join(LEAN, "P2sh", "Gen")):
        dst = os.path.join(d, "P2sh", "Gen", f)
        if not os.path.exists(dst):
            shutil.copy2(os.path.join(LEAN, "P2sh", "Gen", f), dst)


def run_translator(ctx):
    with Lock("lean-" + ctx.key):
        sync_alt_lean(ctx)
        rc, out = sh([sys.executable, os.path.join(VERIF, "extract", "translate.py"), ctx.repo, gen_dir(ctx)])
    if rc != 0:
        ctx.problems.append({"kind": "T", "name": "translator", "detail": out[-2000:]})
        return
    try:
        res = json.loads(out.strip().splitlines()[-1])
    except Exception:
        ctx.problems.append({"kind": "T", "name": "translator", "detail": out[-2000:]})
        return
    for f in res.get("failed", []):
        ctx.problems.append({"kind": "T", "name": "Gen." + f["table"], "detail": f["error"]})
    ctx.gen_changed = res.get("changed", [])


# ---------------------------------------------------------------- lean

FORBIDDEN = re.compile(r"\b(sorry|admit|native_decide|implemented_by|unsafe)\b|^\s*axiom\s|maxHeartbeats\s+0\b")


def strip_lean_comments(text):
    out = []
    i, n, depth = 0, len(text), 0
    while i < n:
        if text.startswith("/-", i):
            depth += 1
            i += 2
        elif depth and text.startswith("-/", i):
            depth -= 1
            i += 2
        elif depth:
            if text[i] == "\n":
                out.append("\n")
            i += 1
        elif text.startswith("--", i):
            j = text.find("\n", i)
            i = n if j < 0 else j
        elif text[i] == '"':
            j = i + 1
            while j < n and text[j] != '"':
                if text[j] == "\\":
                    j += 1
                j += 1
            out.append('""')
            i = j + 1
        else:
            out.append(text[i])
            i += 1
    return "".join(out)


def forbidden_scan(ctx):
    hits = []
    root = os.path.join(lean_dir(ctx), "P2sh")
    for dp, dn, fn in os.walk(root):
        if "/Driver" in dp:
            continue
        for f in fn:
            if not f.endswith(".lean"):
                continue
            p = os.path.join(dp, f)
            text = strip_lean_comments(open(p, encoding="utf-8").read())
            for ln, line in enumerate(text.splitlines(), 1):
                if FORBIDDEN.search(line):
                    hits.append(f"{os.path.relpath(p, lean_dir(ctx))}:{ln}: {line.strip()[:120]}")
    return hits


def lake_build(ctx, targets, timeout=3000):
    with Lock("lean-" + ctx.key):
        rc, out = sh(["lake", "build"] + targets, cwd=lean_dir(ctx), timeout=timeout)
    return rc == 0, out


def driver_path(ctx):
    return os.path.join(lean_dir(ctx), ".lake", "build", "bin", "driver")


def good_driver_path():
    return os.path.join(BUILD, "driver.good")


def load_obligations():
    with open(os.path.join(VERIF, "obligations.json")) as f:
        return json.load(f)


def axiom_audit(ctx, modules, theorems, allowed_extra=()):
    """#print axioms for every obligation; returns (discharged list, failures list)."""
    src = "".join(f"import {m}\n" for m in modules) + "".join(f"#print axioms {t}\n" for t in theorems)
    with Lock("lean-" + ctx.key):
        rc, out = sh(["lake", "env", "lean", "--stdin"], cwd=lean_dir(ctx), input=src.encode(), timeout=1200)
    discharged, failures = [], []
    flat = re.sub(r"\s+", " ", out)
    for t in theorems:
        m = re.search(r"'" + re.escape(t) + r"' depends on axioms: \[([^\]]*)\]", flat)
        if m:
            axs = [a.strip() for a in m.group(1).split(",") if a.strip()]
            bad = [a for a in axs if a not in ALLOWED_AXIOMS and a not in allowed_extra]
            if bad:
                failures.append({"theorem": t, "detail": "axioms outside the allowed list: " + ", ".join(bad)})
            else:
                discharged.append({"theorem": t, "axioms": axs})
        elif re.search(r"'" + re.escape(t) + r"' does not depend on any axioms", flat):
            discharged.append({"theorem": t, "axioms": []})
        else:
            failures.append({"theorem": t, "detail": "not present in the compiled environment: " + out[-400:]})
    return discharged, failures


def lean_step(ctx, mod):
    """Build the property's theorem modules, audit axioms, build the driver."""
    obl = load_obligations().get(ctx.prop, {})
    theorems = obl.get("theorems", [])
    modules = obl.get("modules", [])
    allowed_extra = tuple(obl.get("bv_decide_allowed", []))
    ok, out = lake_build(ctx, modules)
    ctx.lean_log = out[-6000:]
    ctx.obligations = theorems
    ctx.discharged = []
    if not ok:
        errs = [l for l in out.splitlines() if "error" in l][:12]
        ctx.problems.append({"kind": "P", "name": "lake build " + " ".join(modules), "detail": "\n".join(errs) or out[-1500:]})
        # which theorems still check?  audit whatever compiled
    hits = forbidden_scan(ctx)
    if hits:
        ctx.problems.append({"kind": "P", "name": "forbidden-token", "detail": "\n".join(hits[:20])})
    if ok:
        d, f = axiom_audit(ctx, modules, theorems, allowed_extra)
        ctx.discharged = d
        for x in f:
            ctx.problems.append({"kind": "P", "name": x["theorem"], "detail": x["detail"]})
    okd, outd = lake_build(ctx, ["driver"])
    if okd:
        ctx.driver = driver_path(ctx)
    else:
        ctx.problems.append({"kind": "P", "name": "lake build driver", "detail": "\n".join([l for l in outd.splitlines() if "error" in l][:12])})
        ctx.driver = good_driver_path() if os.path.exists(good_driver_path()) else None
    if ctx.thorough() and ok:
        # independent re-check of the compiled theorem modules
        for m in modules:
            with Lock("lean-" + ctx.key):
                rc, o = sh(["lake", "env", "leanchecker", m], cwd=lean_dir(ctx), timeout=3000)
            if rc != 0:
                ctx.problems.append({"kind": "P", "name": "leanchecker " + m, "detail": o[-800:]})
            else:
                ctx.notes.append("leanchecker ok: " + m)


# ---------------------------------------------------------------- cargo

def harness_dir(ctx):
    return os.path.join(ctx.bdir, "harness-src")


def build_harness(ctx):
    """Instantiate harness/ against ctx.repo (mods.rs with absolute #[path]s) and build it."""
    with Lock("cargo-" + ctx.key):
        hd = harness_dir(ctx)
        os.makedirs(hd, exist_ok=True)
        rc, out = sh(["rsync", "-a", "--delete", "--exclude", "target", "--exclude", "src/mods.rs",
                      os.path.join(VERIF, "harness") + "/", hd + "/"])
        if rc != 0:
            raise RuntimeError(out)
        mods = "".join(f'#[path = "{ctx.repo}/src/{m}/mod.rs"] mod {m};\n' for m in MODULES)
        mp = os.path.join(hd, "src", "mods.rs")
        if not os.path.exists(mp) or open(mp).read() != mods:
            open(mp, "w").write(mods)
        tdir = os.path.join(ctx.bdir, "harness-target")
        rc, out = sh(["cargo", "build", "--offline", "-q"], cwd=hd, env={"CARGO_TARGET_DIR": tdir}, timeout=1800)
    if rc != 0:
        errs = [l for l in out.splitlines() if l.startswith("error")][:10]
        return None, "\n".join(errs) or out[-1500:]
    return os.path.join(tdir, "debug", "p2sh-verif-harness"), ""


def build_p2sh(ctx, release=False):
    with Lock("cargo-" + ctx.key):
        tdir = os.path.join(ctx.bdir, "p2sh-target")
        cmd = ["cargo", "build", "--offline", "-q", "--features", "verif_hooks"] + (["--release"] if release else [])
        rc, out = sh(cmd, cwd=ctx.repo, env={"CARGO_TARGET_DIR": tdir}, timeout=1800)
    if rc != 0:
        errs = [l for l in out.splitlines() if l.startswith("error")][:10]
        return None, "\n".join(errs) or out[-1500:]
    return os.path.join(tdir, "release" if release else "debug", "p2sh"), ""


# ---------------------------------------------------------------- engines

MAX_HANGS_PER_SHARD = 2
MAX_ABORTS_PER_SHARD = 12
DRIVER_MEMORY_CAP = 6 * 1024 ** 3


def _cap_memory():
    import resource
    resource.setrlimit(resource.RLIMIT_AS, (DRIVER_MEMORY_CAP, DRIVER_MEMORY_CAP))


# the implementation under test gets an address-space limit too: a generated program that makes p2sh ask for more is "more
# memory than the machine has" (the allocator's refusal is reported as ABORT(alloc-failed) and judged as such); without
# it one such program took a thorough run (and everything else on the machine) down at 29–44 GB
HARNESS_MEMORY_CAP = 6 * 1024 ** 3


def _cap_memory_harness():
    import resource
    resource.setrlimit(resource.RLIMIT_AS, (HARNESS_MEMORY_CAP, HARNESS_MEMORY_CAP))


def _run_lines(exe, lines, timeout, label, extra_env=None):
    """Feed `lines` to a line-protocol executable; returns one output per line.
    A process that dies or stalls marks the offending line ABORT/HANG and is restarted."""
    results = []
    idx = 0
    hangs = 0
    aborts = 0
    n = len(lines)
    e = dict(os.environ)
    # the compiler clones its instruction buffer on every emit; without these glibc settings a 64 KB
    # function takes minutes to compile (mmap/munmap per clone), with them a fraction of a second
    e.setdefault("MALLOC_MMAP_THRESHOLD_", "1073741824")
    e.setdefault("MALLOC_TRIM_THRESHOLD_", "1073741824")
    e.setdefault("MALLOC_TOP_PAD_", "67108864")
    if extra_env:
        e.update(extra_env)
    while idx < n:
        chunk = lines[idx:]
        data = ("\n".join(chunk) + "\n").encode("utf-8")
        # `timeout` is the allowance for one stuck case; a shard also gets time for the work it holds
        # (thorough-tier shards hold thousands of lines and the machine may be busy)
        eff_timeout = timeout + 0.03 * len(chunk) + len(data) / 200000.0
        try:
            with tempfile.TemporaryFile() as errf:
                p = subprocess.run([exe], input=data, stdout=subprocess.PIPE, stderr=errf, timeout=eff_timeout, env=e,
                                   preexec_fn=_cap_memory if label == "driver" else _cap_memory_harness)
                errf.seek(max(0, errf.tell() - 4000))
                errtail = errf.read().decode("utf-8", "replace")
            text = p.stdout.decode("utf-8", "replace")
            outs = text.splitlines()
            if text and not text.endswith("\n"):
                outs = outs[:-1]      # a partial last line of a process that died
            status = "ABORT" if p.returncode != 0 else "MISSING"
            sig = f"{status}({p.returncode})"
            if p.returncode != 0 and "memory allocation of" in errtail and "bytes failed" in errtail:
                # the allocator refused a request: "more memory than the machine has"
                sig = "ABORT(alloc-failed)"
        except subprocess.TimeoutExpired as te:
            text = (te.stdout or b"").decode("utf-8", "replace")
            outs = text.splitlines()
            if text and not text.endswith("\n"):
                outs = outs[:-1]
            # the last line may be partial; drop it if it does not end cleanly
            sig = "HANG"
        if label == "driver" and sig != "MISSING(0)" and (sig.startswith("ABORT") or sig == "HANG"):
            # the Lean model (its deep-copying `reify`, its fuel) gave up on this case: no model output and no
            # verdict for it — never a statement about the implementation
            sig = "MODEL-SKIP driver-gave-up ## any"
        outs = outs[: len(chunk)]
        results.extend(outs)
        idx += len(outs)
        if idx < n and len(outs) < len(chunk):
            results.append(sig)
            idx += 1
            if sig.startswith("ABORT"):
                aborts += 1
                if aborts >= MAX_ABORTS_PER_SHARD:
                    # a process that dies again and again (e.g. filling its address space in a loop that no longer stops) costs
                    # its whole run time each time: the violation is established, the rest of the shard is not run
                    results.extend(["NOHARNESS not-run-after-%d-aborts" % aborts] * (n - idx))
                    idx = n
            if sig == "HANG":
                hangs += 1
                if hangs >= MAX_HANGS_PER_SHARD:
                    # every hang costs a full timeout: the violation is established, the rest of the shard is not run
                    results.extend(["NOHARNESS not-run-after-%d-hangs" % hangs] * (n - idx))
                    idx = n
    return results


def run_parallel(exe, lines, timeout=120, shards=None, label="", extra_env=None):
    import concurrent.futures as cf
    if not lines:
        return []
    nshards = shards or min(16, max(1, len(lines) // 400))
    size = (len(lines) + nshards - 1) // nshards
    parts = [lines[i : i + size] for i in range(0, len(lines), size)]
    with cf.ThreadPoolExecutor(max_workers=len(parts)) as ex:
        futs = [ex.submit(_run_lines, exe, part, timeout, label, extra_env) for part in parts]
        out = []
        for f in futs:
            out.extend(f.result())
    return out


def split_driver(line):
    """driver line 'model ## spec' -> (model, spec)"""
    if " ## " in line:
        m, s = line.rsplit(" ## ", 1)
        return m, s
    return line, "any"


def judge_spec(spec, impl):
    """True if `impl` satisfies the oracle verdict `spec`."""
    if spec == "any":
        return True
    if spec == "nopanic":
        return not impl.startswith(("PANIC", "ABORT", "HANG"))
    if spec.startswith("eq "):
        return impl == spec[3:]
    if spec.startswith("has "):
        return (" " + spec[4:] + " ") in (" " + impl + " ")
    if spec.startswith("hasall "):
        return all((" " + frag + " ") in (" " + impl + " ") for frag in spec[7:].split(" "))
    if spec.startswith("prefix "):
        return impl.startswith(spec[7:])
    if spec.startswith("oneof "):
        # an alternative ending in `*` is a prefix
        return any(impl == alt or (alt.endswith("*") and impl.startswith(alt[:-1])) for alt in spec[6:].split(" || "))
    if spec.startswith("m "):
        want = spec[2:].split(" ")
        got = impl.split(" ")
        if len(got) < len(want):
            return False
        for w, g in zip(want, got):
            if w == "*":
                continue
            if "=" in w and w.endswith("=*"):
                if not g.startswith(w[:-1]):
                    return False
                continue
            if w != g:
                return False
        return True
    if spec.startswith("steps "):
        want = spec[6:].split(";")
        got = impl.split(";")
        if len(want) != len(got):
            return False
        # a step ending in `*` is a prefix (the unconstrained tail of a step)
        return all(w == "-" or w == g or (w.endswith("*") and g.startswith(w[:-1])) for w, g in zip(want, got))
    if spec.startswith("not "):
        return not judge_spec(spec[4:], impl)
    raise ValueError("unknown spec verdict: " + spec)


# ---------------------------------------------------------------- findings, replay, evidence

def load_known():
    p = os.path.join(VERIF, "known_findings.json")
    if not os.path.exists(p):
        return []
    with open(p) as f:
        return json.load(f).get("findings", [])


def write_replay(ctx, payload):
    if getattr(ctx, "replay_path", None):
        return ctx.replay_path
    d = os.path.join(VERIF, "replays")
    os.makedirs(d, exist_ok=True)
    n = 0
    while True:
        p = os.path.join(d, f"{ctx.prop}-{ctx.seed}-{n}.json")
        if not os.path.exists(p):
            break
        n += 1
    payload = dict(payload)
    payload.setdefault("property", ctx.prop)
    payload.setdefault("seed", ctx.seed)
    payload.setdefault("tier", ctx.tier)
    with open(p, "w") as f:
        json.dump(payload, f, indent=1, ensure_ascii=False)
    return p


def write_evidence(ctx, coverage, violations, assumptions):
    if getattr(ctx, "replay_path", None):
        return None
    # evidence under /verif/evidence describes /repo only; runs against scratch worktrees keep theirs apart
    d = os.path.join(VERIF, "evidence") if ctx.key == "main" else os.path.join(ctx.bdir, "evidence")
    os.makedirs(d, exist_ok=True)
    # a property with no closed theorem yet is reported at the level its check really has
    level = "proof" if coverage.get("obligations", 0) > 0 else "exploration"
    if level != "proof":
        coverage = {k: v for k, v in coverage.items() if k not in ("obligations", "discharged")}
        coverage["open_theorems_only"] = True
    ev = {
        "property_id": ctx.prop,
        "tier": ctx.tier,
        "seed": ctx.seed,
        "level": level,
        "coverage": coverage,
        "assumptions": assumptions,
        "wall_s": round(time.time() - ctx.t0, 2),
        "violations": violations,
    }
    p = os.path.join(d, ctx.prop + ".json")
    tmp = p + ".tmp"
    with open(tmp, "w") as f:
        json.dump(ev, f, indent=1, ensure_ascii=False)
    os.replace(tmp, p)
    return p


def lang_lines(ctx, sources, op="eval", ast_sources=None):
    """Two-phase language engine: the real parser prints the AST of every source text
    (harness op `parse`); the line sent to the Lean driver carries that AST so the reference
    semantics needs no parser model.  Sources with parse errors get the AST anyway."""
    if not ctx.harness:
        return [f"{op} {s.encode('utf-8').hex()} @@ (prog)" for s in sources]
    plines = ["parse " + s.encode("utf-8").hex() for s in (ast_sources or sources)]
    outs = run_parallel(ctx.harness, plines, timeout=120, label="parse")
    lines = []
    for s, o in zip(sources, outs):
        sx = "(prog)"
        if o.startswith("ast "):
            i = o.find("(prog")
            if i >= 0 and " errs=0 " in o[:i]:
                sx = o[i:]
            else:
                sx = "(perr)"
        elif o.startswith(("PANIC", "ABORT", "HANG")):
            sx = "(crash)"
        lines.append(f"{op} {s.encode('utf-8').hex()} @@ {sx}")
    return lines


def vmrun_lines(ctx, sources, static=None):
    """The VM model runs the REAL compiler's bytecode: harness op `compile` dumps it, the driver op `vmrun` executes
    the dump on the Lean VM model (and runs the verified bytecode verifier Bcv on it), the harness op `vmrun` executes
    the same source on the real VM.  `static` (one bool per source, or True for all): the driver only runs Bcv on the
    dump — for program families where the VM model's deep copies of shared arrays can explode."""
    if static is None or static is False:
        static = [False] * len(sources)
    elif static is True:
        static = [True] * len(sources)
    mark = [" static" if st else "" for st in static]
    if not ctx.harness:
        return [f"vmrun {s.encode('utf-8').hex()}{m} @@ -" for s, m in zip(sources, mark)]
    clines = ["compile " + s.encode("utf-8").hex() for s in sources]
    outs = run_parallel(ctx.harness, clines, timeout=120, label="compile")
    return [f"vmrun {s.encode('utf-8').hex()}{m} @@ {o}" for s, m, o in zip(sources, mark, outs)]


TRUSTED_BASE = [
    "Lean 4.33.0 kernel (lake build; leanchecker re-check in the thorough tier)",
    "axioms: propext, Classical.choice, Quot.sound only (audited with #print axioms per obligation)",
    "translator verif/extract/translate.py (regenerates P2sh/Gen/*.lean from the working tree on every run)",
    "correspondence machinery: verif/harness (real p2sh code in-process), lean driver, generators/canonicaliser in verif/tools",
    "hand-written models in P2sh/Model are modelled, not verified: tied to the code only by the correspondence runs",
]


# ---------------------------------------------------------------- the generic check

def load_prop_module(prop):
    sys.path.insert(0, os.path.join(VERIF, "tools"))
    return importlib.import_module("props." + prop.lower())


class Case:
    __slots__ = ("line", "tags", "impl", "model", "spec", "extra")

    def __init__(self, line, tags=(), extra=None):
        self.line = line
        self.tags = tuple(tags)
        self.impl = None
        self.model = None
        self.spec = None
        self.extra = extra


def run_check(prop, tier, repo=None, replay=None):
    ctx = Ctx(prop, tier, repo=repo)
    if replay is not None:
        ctx.replay_path = replay.get("_path")
        if "seed" in replay and not os.environ.get("VERIF_SEED"):
            ctx.seed = replay["seed"]
    mod = load_prop_module(prop)
    try:
        return _run_check(ctx, mod, replay)
    finally:
        ctx.cleanup()


def _run_check(ctx, mod, replay):
    run_translator(ctx)
    lean_step(ctx, mod)
    harness, herr = build_harness(ctx)
    if harness is None:
        # the working tree does not build inside the harness: nothing can be shown
        ctx.problems.append({"kind": "C", "name": "harness build", "detail": herr})
    ctx.harness = harness
    ctx.p2sh = {}
    for prof in getattr(mod, "BINARY_PROFILES", []):
        exe, err = build_p2sh(ctx, release=(prof == "release"))
        if exe is None:
            ctx.problems.append({"kind": "C", "name": "p2sh build " + prof, "detail": err})
        ctx.p2sh[prof] = exe

    # ---- cases
    cases = []
    if replay is not None:
        for l in replay.get("lines", []):
            cases.append(Case(l, ("replay",)))
    else:
        corpus = os.path.join(VERIF, "corpus", ctx.prop + ".txt")
        if os.path.exists(corpus):
            for l in open(corpus, encoding="utf-8").read().splitlines():
                if l.strip() and not l.startswith("#"):
                    cases.append(Case(l, ("corpus",)))
        for c in mod.cases(ctx):
            cases.append(c if isinstance(c, Case) else Case(c))
    lines = [c.line for c in cases]

    # ---- run model+spec (lean driver) and implementation
    if ctx.driver:
        douts = run_parallel(ctx.driver, lines, timeout=getattr(mod, "DRIVER_TIMEOUT", 300), label="driver")
    else:
        douts = ["NODRIVER ## any"] * len(lines)
    run_impl = getattr(mod, "run_impl", None)
    if run_impl is not None:
        iouts = run_impl(ctx, cases)
    elif harness:
        iouts = run_parallel(harness, lines, timeout=getattr(mod, "HARNESS_TIMEOUT", 120), label="harness")
    else:
        iouts = ["NOHARNESS"] * len(lines)
    mcanon = getattr(mod, "canon", lambda s: s)
    spec_override = getattr(mod, "spec_override", None)

    def canon(s):
        # panic message wording is never compared (kept in Case.extra for the replay)
        if s.startswith("PANIC "):
            s = "PANIC"
        return mcanon(s)

    for c, d, i in zip(cases, douts, iouts):
        c.model, c.spec = split_driver(d)
        if i.startswith("PANIC "):
            c.extra = dict(c.extra or {})
            c.extra["panic"] = bytes.fromhex(i[6:]).decode("utf-8", "replace") if all(ch in "0123456789abcdef" for ch in i[6:]) else i[6:]
        c.impl = canon(i)
        c.model = canon(c.model)
        if spec_override is not None:
            c.spec = spec_override(c)

    # ---- judge
    known = [k for k in load_known() if k.get("property") == ctx.prop and k.get("status") == "known"]
    known_keys = {k["key"]: k for k in known}
    classify = getattr(mod, "classify", lambda c: None)
    model_skip = getattr(mod, "model_skip", lambda c: False)
    disagreements, oracle_fail, known_hits = [], [], {}
    extra_judge = getattr(mod, "judge", None)
    nontrivial = getattr(mod, "nontrivial", lambda c: not c.impl.startswith(("bad-op", "PANIC", "ABORT", "HANG")))
    seen_nt = set()
    dist = {}
    for c in cases:
        for t in c.tags:
            dist[t] = dist.get(t, 0) + 1
        if c.impl.startswith("NOHARNESS") or c.model.startswith("NODRIVER"):
            continue
        try:
            ok = judge_spec(c.spec, c.impl)
        except ValueError as e:
            ctx.problems.append({"kind": "C", "name": "driver output", "detail": f"{c.line} -> {c.model} ## {c.spec}"})
            ok = True
        if ok and extra_judge is not None and extra_judge(c) is False:
            ok = False
        memex = getattr(mod, "MEMORY_EXCLUSION_IN_UNCONSTRAINED", True)
        if callable(memex):
            memex = memex(c)
        if (not ok and c.spec == "nopanic" and memex
                and ((c.impl == "PANIC" and (c.extra or {}).get("panic", "").strip().startswith("capacity overflow")) or c.impl == "ABORT(alloc-failed)")):
            # C08's statement excludes "requests for more memory than the machine has".  Where the oracle
            # computes the request it says so itself (verdict `any`); in a program it leaves unconstrained
            # (verdict `nopanic`) the size of the request is not known to it, and Rust's "capacity overflow"
            # is exactly such a request (a Vec/String longer than isize::MAX): excluded, counted, not a violation.
            dist["excluded:capacity-overflow-in-unconstrained-program"] = dist.get("excluded:capacity-overflow-in-unconstrained-program", 0) + 1
            ok = True
        if not ok:
            key = classify(c)
            if key is not None and key in known_keys:
                known_hits.setdefault(key, []).append(c)
            else:
                oracle_fail.append(c)
        # the model marks a request beyond 16 MiB with its `capacity overflow` guard; the real allocator either
        # panics with that message or refuses the request (abort): the same excluded event
        mem_same = c.impl == "ABORT(alloc-failed)" and c.model.startswith("PANIC")
        if c.model != c.impl and not mem_same and not model_skip(c) and not c.model.startswith("MODEL-SKIP"):
            key = classify(c) if ok is False else None
            disagreements.append(c)
        if nontrivial(c):
            seen_nt.add(c.line)

    # ---- generator guards: a module may state what its case distribution must keep looking like (a generator that
    # silently stopped reaching the code — every program rejected, every file unreadable — is a broken tie, not a pass)
    g = getattr(mod, "guards", None)
    if g:
        for msg in g(ctx, cases):
            ctx.problems.append(msg)
    floor = NONTRIVIAL_FLOOR.get(ctx.prop)
    if floor and ctx.thorough():
        floor = floor / 2       # the thorough tier scales the random families, whose share of non-trivial cases is lower
    if floor and cases and len(seen_nt) < floor * len(cases):
        ctx.problems.append(f"generator degenerate: only {len(seen_nt)} of {len(cases)} cases are non-trivial (floor {floor:.2f}: about half of what this check "
                            "reaches on the tree it was built for) — the cases no longer exercise the code")

    # ---- report
    for key, cs in sorted(known_hits.items()):
        print(f"KNOWN-FINDING: property={ctx.prop} {known_keys[key]['what']} [key={key}; {len(cs)} case(s), e.g. {cs[0].line[:100]}]")
    violations = 0
    rc = 0
    replays = []
    if oracle_fail:
        shrink = getattr(mod, "shrink", None)
        # group by classification so different violations each get a replay (max 5)
        groups = {}
        for c in oracle_fail:
            groups.setdefault(classify(c) or "unclassified", []).append(c)
        for key, cs in list(groups.items())[:5]:
            c = cs[0]
            if shrink:
                try:
                    c = shrink(ctx, c) or c
                except Exception:
                    pass
            p = write_replay(ctx, {
                "kind": "oracle-failure",
                "what": f"implementation output violates the specification of {ctx.prop} on this input",
                "class": key,
                "lines": [c.line],
                "impl": c.impl, "model": c.model, "spec": c.spec, "extra": c.extra,
                "count_in_class": len(cs),
                "repo": ctx.repo,
            })
            replays.append(p)
            print(f"VIOLATION property={ctx.prop} replay={p}")
            violations += 1
        rc = 1
    elif ctx.problems or disagreements:
        detail = {
            "kind": "proof-or-tie-broken",
            "what": "the property is no longer shown to hold: a proof obligation, a generated table or the model/implementation correspondence no longer checks; the search found no input on which the implementation violates the specification",
            "problems": ctx.problems,
            "model_disagreements": [{"line": c.line, "impl": c.impl, "model": c.model} for c in disagreements[:20]],
            "lines": [c.line for c in disagreements[:20]],
            "repo": ctx.repo,
        }
        p = write_replay(ctx, detail)
        replays.append(p)
        print(f"VIOLATION property={ctx.prop} replay={p} no-failing-input-found")
        violations += 1
        rc = 1

    obligations = list(ctx.obligations)
    coverage = {
        "obligations": len(obligations),
        "discharged": len(ctx.discharged),
        "checker_cmd": "lake build " + " ".join(load_obligations().get(ctx.prop, {}).get("modules", [])) + " && lake env lean --stdin <<< '#print axioms <each obligation>'" + (" && lake env leanchecker <modules>" if ctx.thorough() else ""),
        "trusted_base": TRUSTED_BASE + list(getattr(mod, "TRUSTED_EXTRA", [])),
        "obligation_names": obligations,
        "discharged_detail": ctx.discharged,
        "open_obligations": load_obligations().get(ctx.prop, {}).get("open", []),
        "evaluations": len(cases),
        "distinct_nontrivial": len(seen_nt),
        "rule": getattr(mod, "RULE", "cases are op lines sent to both the Lean driver (model + spec) and the real code; distinct = distinct op line; non-trivial = the implementation produced a result other than bad-op/PANIC/ABORT/HANG"),
        "samples": [{"line": c.line, "impl": c.impl, "model": c.model, "spec": c.spec} for c in _sample(cases, 6, ctx)],
        "distribution": dist,
        "model_disagreements": len(disagreements),
        "oracle_failures": len(oracle_fail),
        "known_findings_hit": {k: len(v) for k, v in known_hits.items()},
        "problems": ctx.problems,
        "replays": replays,
        "exhaustive": bool(getattr(mod, "EXHAUSTIVE", False)),
        "notes": ctx.notes + list(getattr(mod, "NOTES", [])),
    }
    extra = getattr(mod, "extra_coverage", None)
    if extra:
        coverage.update(extra(ctx, cases))
    write_evidence(ctx, coverage, violations, list(getattr(mod, "ASSUMPTIONS", [])))
    nd = len(ctx.discharged)
    print(f"{ctx.prop} [{ctx.tier}] obligations {nd}/{len(obligations)} discharged; cases {len(cases)} (non-trivial distinct {len(seen_nt)}); "
          f"model disagreements {len(disagreements)}; oracle failures {len(oracle_fail)}; known-finding hits {sum(len(v) for v in known_hits.values())}; "
          f"problems {len(ctx.problems)}; {time.time() - ctx.t0:.1f}s")
    return rc


# fraction of non-trivial cases below which a run is reported as a broken tie (about half of the fraction observed on the tree the
# checks were built for, both tiers)
NONTRIVIAL_FLOOR = {"C01": 0.5, "C02": 0.15, "C03": 0.35, "C04": 0.18, "C05": 0.2, "C06": 0.3, "C07": 0.17, "C08": 0.45, "C09": 0.5, "C10": 0.35,
                    "C11": 0.4, "C12": 0.3, "C13": 0.4, "C14": 0.4, "C15": 0.5, "C16": 0.5, "C17": 0.45, "C18": 0.35, "C19": 0.3, "C20": 0.5,
                    "C21": 0.45, "C22": 0.5, "C23": 0.3, "C24": 0.5}


def _sample(cases, k, ctx):
    if len(cases) <= k:
        return cases
    r = random.Random(ctx.seed)
    idx = sorted(r.sample(range(len(cases)), k))
    return [cases[i] for i in idx]
