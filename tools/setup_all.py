"""setup_cmd: build the Lean project (every registered theorem module + driver) and warm the cargo builds."""
import json
import os
import shutil
import sys

import vlib


def main():
    ctx = vlib.Ctx("setup")
    vlib.run_translator(ctx)
    obl = vlib.load_obligations()
    mods = sorted({m for v in obl.values() for m in v.get("modules", [])})
    ok, out = vlib.lake_build(ctx, mods + ["driver"], timeout=7200)
    print(out[-3000:])
    if not ok:
        print("setup: lake build failed")
        return 1
    os.makedirs(vlib.BUILD, exist_ok=True)
    shutil.copy2(vlib.driver_path(ctx), vlib.good_driver_path())
    h, err = vlib.build_harness(ctx)
    if h is None:
        print("setup: harness build failed\n" + err)
        return 1
    for rel in (False, True):
        exe, err = vlib.build_p2sh(ctx, release=rel)
        if exe is None:
            print("setup: p2sh build failed\n" + err)
            return 1
    print("setup ok; problems:", json.dumps(ctx.problems))
    return 0


if __name__ == "__main__":
    sys.exit(main())
