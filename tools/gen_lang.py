"""Generator of typed, mostly valid p2sh programs (C02, C04, C05, C06, C07, C13).

Every program starts with `let obs = [];` and reports values with `push(obs, v)`.
All loops are bounded by construction (a dedicated counter incremented at the top of the
body), recursion by a decreasing integer parameter.  Every construct is written on one line
or with its operator/bracket tokens on the line of the construct's first token where the
oracle compares lines.
"""
import random

I64_MAX = (1 << 63) - 1
I64_MIN = -(1 << 63)

INT_LITS = [0, 1, 2, 3, 5, 7, 10, 63, 64, 100, 255, 256, 1 << 31, I64_MAX, I64_MAX - 1]
STR_LITS = ["", "a", "b", "ab", "zz", "é", "日本", "a b", "0"]
CHAR_LITS = ["a", "b", "z", "0", "é"]


class Scope:
    def __init__(self, parent=None, fn=False):
        self.vars = {}  # name -> type
        self.parent = parent
        self.fn = fn  # function boundary

    def lookup_all(self):
        out = {}
        s = self
        chain = []
        while s:
            chain.append(s)
            s = s.parent
        for s in reversed(chain):
            out.update(s.vars)
        return out

    def locals_of_fn(self):
        """names assignable without touching captured variables: those defined in the current
        function (up to the function boundary) or at global level if not inside a function"""
        out = {}
        s = self
        chain = []
        while s:
            chain.append(s)
            if s.fn:
                break
            s = s.parent
        for s in reversed(chain):
            out.update(s.vars)
        return out

    def in_fn(self):
        s = self
        while s:
            if s.fn:
                return True
            s = s.parent
        return False


class Gen:
    def __init__(self, rng, max_stmts=10, max_depth=4, error_rate=0.01, features=None):
        self.rng = rng
        self.max_depth = max_depth
        self.max_stmts = max_stmts
        self.error_rate = error_rate
        self.counter = 0
        self.lines = []
        self.indent = 0
        self.features = features or {}
        self.loop_labels = []  # stack of (label or None) for the current function
        self.fn_depth = 0
        self.globals_by_ref = {}

    # ------------------------------------------------------------ helpers
    def fresh(self, prefix="v"):
        self.counter += 1
        return f"{prefix}{self.counter}"

    def emit(self, text):
        self.lines.append("  " * self.indent + text)

    def pick(self, xs):
        return self.rng.choice(xs)

    def chance(self, p):
        return self.rng.random() < p

    def vars_of(self, scope, ty, assignable=False):
        d = scope.locals_of_fn() if assignable else scope.lookup_all()
        if assignable and not scope.in_fn():
            d = scope.lookup_all()
        return [n for n, t in d.items() if t == ty and not n.startswith("i_")]

    # ------------------------------------------------------------ expressions
    def int_lit(self):
        r = self.rng.random()
        if r < 0.6:
            return str(self.rng.randint(0, 20))
        if r < 0.9:
            return str(self.pick(INT_LITS))
        return self.pick(["0x1F", "0o17", "0b101", "9223372036854775807"])

    def expr(self, scope, ty, depth=0):
        if self.chance(self.error_rate) and depth > 0:
            # type confusion: exercises the runtime-error paths
            ty = self.pick(["I", "B", "S", "A", "N"])
        f = getattr(self, "expr_" + ty)
        return f(scope, depth)

    def expr_N(self, scope, depth):
        return "null"

    def expr_I(self, scope, depth):
        vs = self.vars_of(scope, "I")
        leaf = depth >= self.max_depth or self.chance(0.3)
        if leaf:
            if vs and self.chance(0.6):
                return self.pick(vs)
            return self.int_lit()
        r = self.rng.random()
        if r < 0.45:
            op = self.pick(["+", "-", "*", "+", "-", "*", "/", "%", "&", "|", "^", "<<", ">>"])
            if op in ("/", "%") and not self.chance(0.1):
                # mostly non-zero divisors (the zero case is kept, rarely)
                return f"({self.expr(scope, 'I', depth + 1)} {op} {self.rng.randint(1, 9)})"
            return f"({self.expr(scope, 'I', depth + 1)} {op} {self.expr(scope, 'I', depth + 1)})"
        if r < 0.52:
            return f"(-{self.expr(scope, 'I', depth + 1)})"
        if r < 0.56:
            return f"(~{self.expr(scope, 'I', depth + 1)})"
        if r < 0.64:
            arrs = self.vars_of(scope, "A")
            if arrs:
                return f"len({self.pick(arrs)})"
            return f"len({self.expr(scope, 'S', depth + 1)})"
        if r < 0.72:
            arrs = self.vars_of(scope, "A")
            if arrs and self.chance(0.3):
                a = self.pick(arrs)
                return f"get({a}, {self.rng.randint(0, 3)})" if self.chance(0.7) else f"{a}[{self.rng.randint(0, 2)}]"
            return f"[{self.int_lit()}, {self.int_lit()}, {self.int_lit()}][{self.rng.randint(0, 2 if self.chance(0.9) else 3)}]"
        if r < 0.80:
            fns = [n for n, t in scope.lookup_all().items() if isinstance(t, tuple) and t[0] == "FN" and t[2] == "I"]
            if fns:
                f = self.pick(fns)
                ar = scope.lookup_all()[f][1]
                args = ", ".join(self.expr(scope, "I", depth + 2) for _ in range(ar))
                return f"{f}({args})"
            return self.int_lit()
        if r < 0.88:
            c = self.expr(scope, "B", depth + 1)
            # a branch may end in an assignment (its value is the assigned value) or hold statements before its value
            def branch():
                vs = self.vars_of(scope, "I", assignable=True)
                r2 = self.rng.random()
                if vs and r2 < 0.2:
                    return f"{self.pick(vs)} = {self.expr(scope, 'I', depth + 1)}"
                if vs and r2 < 0.3:
                    return f"{self.pick(vs)} = {self.expr(scope, 'I', depth + 1)}; {self.expr(scope, 'I', depth + 1)}"
                return self.expr(scope, 'I', depth + 1)
            return f"if {c} {{ {branch()} }} else {{ {branch()} }}"
        if r < 0.94:
            return self.match_expr(scope, depth + 1)
        ms = self.vars_of(scope, "M")
        if ms:
            return f"get({self.pick(ms)}, {self.rng.randint(0, 4)})"
        return self.int_lit()

    def match_expr(self, scope, depth):
        scrut = self.expr(scope, "I", depth + 1)
        arms = []
        used = set()
        for _ in range(self.rng.randint(1, 3)):
            r = self.rng.random()
            if r < 0.5:
                k = self.rng.randint(0, 6)
                pat = str(k)
            elif r < 0.75:
                a = self.rng.randint(0, 5)
                b = a + self.rng.randint(0, 4)
                pat = f"{a}{self.pick(['..', '..='])}{b}"
            else:
                pat = f"{self.rng.randint(0, 3)} | {self.rng.randint(4, 9)}"
            if pat in used:
                continue
            used.add(pat)
            vs = self.vars_of(scope, "I", assignable=True)
            if vs and self.chance(0.15):
                arms.append(f"{pat} => {{ {self.pick(vs)} = {self.expr(scope, 'I', depth + 2)} }}")
            else:
                arms.append(f"{pat} => {self.expr(scope, 'I', depth + 2)}")
        if self.chance(0.6):
            arms.append(f"_ => {self.expr(scope, 'I', depth + 2)}")
        return f"match {scrut} {{ {', '.join(arms)} }}"

    def expr_B(self, scope, depth):
        vs = self.vars_of(scope, "B")
        if depth >= self.max_depth or self.chance(0.25):
            if vs and self.chance(0.5):
                return self.pick(vs)
            return self.pick(["true", "false"])
        r = self.rng.random()
        if r < 0.06:
            # array equality: equal arrays, proper prefixes, the empty array, unrelated arrays
            op = self.pick(["==", "!="])
            a = self.expr(scope, "A", depth + 2)
            form = self.rng.randint(0, 4)
            if form == 0:
                return f"({a} {op} {a})"
            if form == 1:
                return f"({a} {op} ({a} + {self.expr(scope, 'A', depth + 2)}))"
            if form == 2:
                return f"(({a} + [{self.int_lit()}]) {op} {a})"
            if form == 3:
                return f"([] {op} {a})"
            return f"({a} {op} {self.expr(scope, 'A', depth + 2)})"
        if r < 0.45:
            op = self.pick(["<", "<=", ">", ">=", "==", "!="])
            return f"({self.expr(scope, 'I', depth + 1)} {op} {self.expr(scope, 'I', depth + 1)})"
        if r < 0.6:
            op = self.pick(["&&", "||"])
            return f"({self.expr(scope, 'B', depth + 1)} {op} {self.expr(scope, 'B', depth + 1)})"
        if r < 0.7:
            return f"(!{self.expr(scope, self.pick(['B', 'I', 'S', 'A', 'F']), depth + 1)})"
        if r < 0.8:
            op = self.pick(["<", "<=", ">", ">=", "==", "!="])
            return f"({self.expr(scope, 'S', depth + 1)} {op} {self.expr(scope, 'S', depth + 1)})"
        if r < 0.9:
            ms = self.vars_of(scope, "M")
            if ms:
                return f"contains({self.pick(ms)}, {self.rng.randint(0, 4)})"
        return self.pick(["true", "false"])

    FLOAT_LITS = ["0.0", "-0.0", "1.5", "2.0", "1e-20", "5e-324", "2.5e-16", "1e308", "0.1", "100."]

    def expr_F(self, scope, depth):
        """doubles, incl. subnormals and magnitudes below the machine epsilon (truthy!), never NaN"""
        if depth >= self.max_depth or self.chance(0.6):
            return self.pick(self.FLOAT_LITS)
        r = self.rng.random()
        if r < 0.4:
            return f"({self.expr(scope, 'F', depth + 1)} {self.pick(['+', '-', '*'])} {self.pick(self.FLOAT_LITS)})"
        if r < 0.7:
            return f"({self.rng.randint(0, 9)} * {self.pick(self.FLOAT_LITS)})"
        return f"({self.pick(self.FLOAT_LITS)} / {self.pick(['2.0', '4', '1e10'])})"

    def expr_S(self, scope, depth):
        vs = self.vars_of(scope, "S")
        if depth >= self.max_depth or self.chance(0.4):
            if vs and self.chance(0.5):
                return self.pick(vs)
            return '"' + self.pick(STR_LITS) + '"'
        r = self.rng.random()
        if r < 0.4:
            return f"({self.expr(scope, 'S', depth + 1)} + {self.expr(scope, 'S', depth + 1)})"
        if r < 0.6:
            return f"str({self.expr(scope, 'I', depth + 1)})"
        if r < 0.75:
            return f"({self.expr(scope, 'S', depth + 2)} * {self.rng.randint(0, 3)})"
        if r < 0.85:
            return f"('{self.pick(CHAR_LITS)}' + '{self.pick(CHAR_LITS)}')"
        return '"' + self.pick(STR_LITS) + '"'

    def expr_A(self, scope, depth):
        vs = self.vars_of(scope, "A")
        if depth >= self.max_depth or self.chance(0.3):
            if vs and self.chance(0.5):
                return self.pick(vs)
            n = self.rng.randint(0, 4)
            return "[" + ", ".join(self.expr(scope, "I", depth + 2) for _ in range(n)) + "]"
        r = self.rng.random()
        if r < 0.4:
            return f"({self.expr(scope, 'A', depth + 1)} + {self.expr(scope, 'A', depth + 1)})"
        n = self.rng.randint(0, 4)
        return "[" + ", ".join(self.expr(scope, "I", depth + 1) for _ in range(n)) + "]"

    def expr_M(self, scope, depth):
        n = self.rng.randint(0, 4)
        pairs = ", ".join(f"{self.rng.randint(0, 4)}: {self.expr(scope, 'I', depth + 2)}" for _ in range(n))
        return "map {" + pairs + "}"

    def obs_expr(self, scope, depth=1):
        ty = self.pick(["I", "I", "I", "I", "B", "S", "A", "F"])
        return self.expr(scope, ty, depth)

    # ------------------------------------------------------------ statements
    def block(self, scope, budget, in_loop=False, fn=False):
        inner = Scope(scope, fn=fn)
        self.indent += 1
        n = self.rng.randint(1, max(1, budget))
        for _ in range(n):
            # mostly halve the nesting budget; sometimes only decrement it, so that blocks inside
            # blocks inside functions (and functions written there) do occur
            self.stmt(inner, budget - 1 if self.chance(0.4) else budget // 2, in_loop)
        self.indent -= 1
        return inner

    def stmt(self, scope, budget, in_loop=False):
        r = self.rng.random()
        if r < 0.22:
            self.stmt_let(scope)
        elif r < 0.40:
            self.emit(f"push(obs, {self.obs_expr(scope)});")
        elif r < 0.52:
            self.stmt_assign(scope)
        elif r < 0.62 and budget > 0:
            self.stmt_if(scope, budget, in_loop)
        elif r < 0.72 and budget > 0:
            self.stmt_loop(scope, budget)
        elif r < 0.80 and budget > 0 and self.fn_depth < 2:
            self.stmt_fn(scope, budget)
        elif r < 0.86 and budget > 0:
            self.emit("{")
            self.block(scope, budget, in_loop)
            self.emit("}")
        elif r < 0.90 and in_loop and self.loop_labels:
            kind = self.pick(["break", "continue"])
            labels = [l for l in self.loop_labels if l]
            if labels and self.chance(0.4):
                self.emit(f"{kind} {self.pick(labels)};")
            else:
                self.emit(f"{kind};")
        elif r < 0.94:
            arrs = self.vars_of(scope, "A")
            if arrs:
                a = self.pick(arrs)
                self.emit(self.pick([f"push({a}, {self.expr(scope, 'I', 2)});", f"{a}[{self.rng.randint(0, 3)}] = {self.expr(scope, 'I', 2)};", f"push(obs, pop({a}));"]))
            else:
                self.stmt_let(scope)
        elif r < 0.97:
            ms = self.vars_of(scope, "M")
            if ms:
                m = self.pick(ms)
                self.emit(self.pick([f"insert({m}, {self.rng.randint(0, 4)}, {self.expr(scope, 'I', 2)});", f"{m}[{self.rng.randint(0, 4)}] = {self.expr(scope, 'I', 2)};", f"push(obs, len({m}));"]))
            else:
                self.stmt_let(scope)
        else:
            self.emit(f"{self.expr(scope, 'I', 1)};")

    def stmt_let(self, scope):
        ty = self.pick(["I", "I", "I", "B", "S", "A", "M"])
        # shadowing: sometimes reuse a visible name
        names = list(scope.lookup_all().keys())
        reuse = [n for n in names if not n.startswith(("obs", "i_", "f")) and n not in scope.vars]
        if reuse and self.chance(0.25):
            name = self.pick(reuse)
        else:
            name = self.fresh("v")
        e = self.expr(scope, ty, 1)
        self.emit(f"let {name} = {e};")
        scope.vars[name] = ty

    def stmt_assign(self, scope):
        ty = self.pick(["I", "I", "B", "S"])
        # mostly the running function's own variables; sometimes a captured one (the rest of the
        # activation must see the new value; later activations are unspecified)
        vs = self.vars_of(scope, ty, assignable=not self.chance(0.3))
        if not vs:
            return self.stmt_let(scope)
        v = self.pick(vs)
        self.emit(f"{v} = {self.expr(scope, ty, 1)};")

    def stmt_if(self, scope, budget, in_loop):
        cty = self.pick(["B", "B", "B", "I", "S", "A", "F"])
        self.emit(f"if {self.expr(scope, cty, 1)} {{")
        self.block(scope, budget, in_loop)
        r = self.rng.random()
        if r < 0.3:
            self.emit(f"}} else if {self.expr(scope, 'B', 1)} {{")
            self.block(scope, budget, in_loop)
            self.emit("} else {")
            self.block(scope, budget, in_loop)
            self.emit("}")
        elif r < 0.6:
            self.emit("} else {")
            self.block(scope, budget, in_loop)
            self.emit("}")
        else:
            self.emit("}")

    def stmt_loop(self, scope, budget):
        i = self.fresh("i_")
        k = self.rng.randint(1, 5)
        label = self.fresh("L") if self.chance(0.35) else None
        self.emit(f"let {i} = 0;")
        scope.vars[i] = "I"
        prefix = f"{label}: " if label else ""
        self.loop_labels.append(label)
        if self.chance(0.5):
            self.emit(f"{prefix}while {i} < {k} {{")
            self.indent += 1
            self.emit(f"{i} = {i} + 1;")
            self.indent -= 1
        else:
            self.emit(f"{prefix}loop {{")
            self.indent += 1
            self.emit(f"{i} = {i} + 1;")
            self.emit(f"if {i} > {k} {{ break; }}")
            self.indent -= 1
        self.block(scope, budget, in_loop=True)
        self.emit("}")
        self.loop_labels.pop()

    def stmt_fn(self, scope, budget):
        name = self.fresh("f")
        ar = self.rng.randint(0, 3)
        params = [self.fresh("p") for _ in range(ar)]
        style = self.rng.random()
        if style < 0.5:
            self.emit(f"fn {name}({', '.join(params)}) {{")
        else:
            self.emit(f"let {name} = fn({', '.join(params)}) {{")
        # the function's own name is registered only after its body is generated, so generated
        # bodies never recurse (bounded recursion is covered by SPECIALS)
        inner = Scope(scope, fn=True)
        for p in params:
            inner.vars[p] = "I"
        saved = self.loop_labels
        self.loop_labels = []
        self.fn_depth += 1
        self.indent += 1
        n = self.rng.randint(0, max(1, budget))
        body = Scope(inner)
        for _ in range(n):
            self.stmt(body, budget - 1 if self.chance(0.4) else budget // 2, False)
        # a function may produce no value (body empty or ending in a let): calling it yields null
        void = self.chance(0.15)
        if void:
            if self.chance(0.6):
                self.emit(f"let t_{name} = {self.expr(body, 'I', 1)};")
        elif self.chance(0.5):
            self.emit(f"return {self.expr(body, 'I', 1)};")
        else:
            self.emit(f"{self.expr(body, 'I', 1)}")
        self.indent -= 1
        self.fn_depth -= 1
        self.loop_labels = saved
        self.emit("}" if style < 0.5 else "};")
        scope.vars[name] = ("FN", ar, "N" if void else "I")
        if self.chance(0.7):
            args = ", ".join(self.expr(scope, "I", 2) for _ in range(ar if self.chance(0.93) else ar + 1))
            if void:
                # the (null) result used positionally: as an array element, an operand, an argument
                self.emit(self.pick([f"push(obs, [{name}({args}), 1]);", f"push(obs, null == {name}({args}));", f"push(obs, {name}({args}));", f"{name}({args});"]))
            else:
                self.emit(f"push(obs, {name}({args}));")

    # ------------------------------------------------------------ program
    def program(self):
        self.lines = []
        top = Scope()
        top.vars["obs"] = "O"
        self.emit("let obs = [];")
        n = self.rng.randint(2, self.max_stmts)
        for _ in range(n):
            self.stmt(top, 3, False)
        # final expression statement (the "final value")
        self.emit(self.obs_expr(top, 1))
        return "\n".join(self.lines) + "\n"


SPECIALS = [
    # closures capture by value at creation; globals by reference
    "let obs = [];\nfn mk(a) {\n  let b = a * 2;\n  return fn(c) { a + b + c };\n}\nlet f1 = mk(1);\nlet f2 = mk(10);\npush(obs, f1(1));\npush(obs, f2(1));\nf1(2) + f2(2)\n",
    "let obs = [];\nlet g = 1;\nfn rd() { g }\nfn wr(x) { g = x; }\npush(obs, rd());\nwr(5);\npush(obs, rd());\ng = 7;\nrd()\n",
    "let obs = [];\nfn outer() {\n  let x = 1;\n  let f = fn() { x };\n  x = 2;\n  return f();\n}\npush(obs, outer());\n0\n",
    "let obs = [];\nfn fact(n) {\n  if n <= 1 { return 1; }\n  return n * fact(n - 1);\n}\npush(obs, fact(10));\nfact(20)\n",
    "let obs = [];\nlet fib = fn(n) { if n < 2 { n } else { fib(n - 1) + fib(n - 2) } };\npush(obs, fib(12));\nfib(5)\n",
    "let obs = [];\nlet x = 1;\n{\n  let x = 2;\n  push(obs, x);\n  {\n    let x = 3;\n    push(obs, x);\n  }\n  push(obs, x);\n}\npush(obs, x);\nx\n",
    "let obs = [];\nlet a = [1, 2];\nlet b = a;\npush(b, 3);\npush(obs, len(a));\na[0] = 9;\npush(obs, b[0]);\nlet m = map {1: 2};\nlet n = m;\nn[5] = 6;\npush(obs, len(m));\nm[5]\n",
    "let obs = [];\nlet i = 0;\nouter: while i < 4 {\n  i = i + 1;\n  let j = 0;\n  loop {\n    j = j + 1;\n    if j > 3 { break; }\n    if j == 2 { continue outer; }\n    if i == 3 { break outer; }\n    push(obs, i * 10 + j);\n  }\n}\ni\n",
    "let obs = [];\nfn t(x) { push(obs, x); x }\nlet r1 = t(1) + t(2) * t(3);\nlet r2 = t(4) < t(5);\nlet r3 = t(6) <= t(7);\nlet r4 = [t(8), t(9)];\nlet a = [0, 0];\na[t(0)] = t(1);\nt(0) && t(5);\nt(1) || t(6);\nr1\n",
    "let obs = [];\npush(obs, match 3 { 1 | 2 => 10, 3..5 => 20, _ => 30 });\npush(obs, match 5 { 3..5 => 20, 5..=5 => 25 });\npush(obs, match \"b\" { \"a\"..\"c\" => 1, _ => 2 });\npush(obs, match 'x' { 'a' => 1 });\nmatch true { false => 0, true => 1 }\n",
    "let obs = [];\nlet f = fn(a, b) { a - b };\npush(obs, f(1, 2));\nf(1)\n",
    "let obs = [];\nlet x = 5;\nfn f() {\n  let x = 6;\n  return x;\n}\npush(obs, f());\nx\n",
    "let obs = [];\nlet fs = [];\nlet i = 0;\nwhile i < 3 {\n  i = i + 1;\n  let y = i * 10;\n  push(fs, fn() { y });\n}\npush(obs, fs[0]());\nfs[2]()\n",
]

FAULTY = [
    "let obs = [];\npush(obs, 1);\nnope + 1\n",
    "let obs = [];\nbreak;\n",
    "let obs = [];\nlet i = 0;\nwhile i < 1 { i = i + 1; continue nolabel; }\n",
    "let obs = [];\nreturn 5;\n",
    "let obs = [];\nfn f() { while true { fn g() { break; } } }\n",
    "let obs = [];\nmatch 1 { 1 => 2, \"a\" => 3 }\n",
    "let obs = [];\n{ let z = 1; }\nz\n",
    "let obs = [];\nfn f() { let q = 1; }\nq\n",
    "let obs = [];\nif true { let w = 1; }\nw\n",
    "let obs = [];\nlet i = 0;\na: while i < 2 { i = i + 1; fn h() { continue a; } }\n",
]


def programs(rng, n, **kw):
    out = []
    for _ in range(n):
        g = Gen(rng, **kw)
        out.append(g.program())
    return out


def faulty_variant(rng, src):
    """Inject one static fault into a valid program."""
    lines = src.rstrip("\n").split("\n")
    k = rng.randrange(1, len(lines) + 1)
    fault = rng.choice(["undefined_q9 + 1;", "break;", "return 1;", "push(obs, zz_undefined);", "break nolabel_x;", "continue nolabel_y;"])
    indent = ""
    lines.insert(k, indent + fault)
    return "\n".join(lines) + "\n"
