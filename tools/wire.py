"""Wire encoding of values (DESIGN Appendix C) and value pools for generators."""
import struct

I64_MIN = -(1 << 63)
I64_MAX = (1 << 63) - 1


def s(text):
    return "s:" + text.encode("utf-8").hex()


def i(n):
    return f"i:{n}"


def d(x):
    if isinstance(x, str):
        return "d:" + x
    if x != x:
        return "d:7ff8000000000000"
    return "d:" + struct.pack(">d", x).hex()


def c(ch):
    return f"c:{ord(ch) if isinstance(ch, str) else ch}"


def b(n):
    return f"b:{n}"


def a(*xs):
    return "a[" + ",".join(xs) + "]"


def m(*pairs):
    return "m{" + ",".join(f"{k}={v}" for k, v in pairs) + "}"


NULL, TRUE, FALSE = "n", "t", "f"

INTS = [0, 1, -1, 2, 3, 7, -7, 63, 64, 65, -64, 255, 256, 1 << 31, 1 << 32, (1 << 53), (1 << 53) + 1, -(1 << 53) - 1, I64_MAX, I64_MIN, I64_MAX - 1, I64_MIN + 1]
FLOATS = [0.0, -0.0, 1.0, -1.0, 1.5, 2.0, 2.5, -2.5, 0.1, 63.0, 64.0, float("inf"), float("-inf"), float("nan"),
          float(1 << 53), 9.223372036854775807e18, -9.223372036854775808e18, 1e308, -1e308, 5e-324, 1e-300, 3.0, 7.0]
BYTES = [0, 1, 2, 3, 7, 127, 128, 255]
STRS = ["", "a", "b", "ab", "ba", "é", "aé", "日本"]
CHARS = ["\0", "a", "b", "é", "\U0001F600"]
ARRS = [a(), a(i(1)), a(i(1), s("a")), a(a(i(1))), a(d(1.0)), a(NULL), a(i(0))]
MAPS = [m(), m((i(1), i(2))), m((s("a"), a())), m((i(1), i(2)), (s("k"), NULL))]
OTHERS = ["B:len", "B:puts", "F", "C", "H:stdin", "H:stdout", "E:io", "E:utf8"]


def pool(kind):
    return {
        "null": [NULL],
        "bool": [TRUE, FALSE],
        "int": [i(x) for x in INTS],
        "float": [d(x) for x in FLOATS],
        "byte": [b(x) for x in BYTES],
        "char": [c(x) for x in CHARS],
        "str": [s(x) for x in STRS],
        "arr": ARRS,
        "map": MAPS,
        "other": OTHERS,
    }[kind]


KINDS = ["null", "bool", "int", "float", "byte", "char", "str", "arr", "map", "other"]


def rand_int(rng):
    r = rng.random()
    if r < 0.3:
        return rng.choice(INTS)
    if r < 0.6:
        return rng.randint(-100, 100)
    if r < 0.8:
        return rng.randint(I64_MIN, I64_MAX)
    k = rng.randint(0, 63)
    return max(I64_MIN, min(I64_MAX, rng.choice([-1, 1]) * ((1 << k) + rng.randint(-2, 2))))


def rand_float(rng):
    r = rng.random()
    if r < 0.3:
        return rng.choice(FLOATS)
    if r < 0.6:
        return rng.randint(-1000, 1000) / rng.choice([1, 2, 4, 8, 10, 3])
    bits = rng.getrandbits(64)
    return struct.unpack(">d", struct.pack(">Q", bits))[0]


def rand_val(rng, depth=2, kinds=None):
    k = rng.choice(kinds or KINDS)
    if k == "int":
        return i(rand_int(rng))
    if k == "float":
        return d(rand_float(rng))
    if k == "arr" and depth > 0:
        return a(*[rand_val(rng, depth - 1) for _ in range(rng.randint(0, 3))])
    if k == "map" and depth > 0:
        keys = ["null", "bool", "int", "float", "byte", "char", "str"]
        return m(*[(rand_val(rng, 0, keys), rand_val(rng, depth - 1)) for _ in range(rng.randint(0, 3))])
    return rng.choice(pool(k))


import re

_RTERR = re.compile(r"\brterr [0-9a-f]*")


def canon_rterr(line):
    if "rterr " in line:
        return _RTERR.sub("rterr", line)
    return line


def rust_f64(x):
    """Rust's `Display` for f64: the shortest decimal digits that round-trip (closest to the
    exact value; an exact tie rounds half up), written positionally without exponent"""
    from decimal import Decimal, ROUND_HALF_UP, localcontext
    if x != x:
        return "NaN"
    if x in (float("inf"), float("-inf")):
        return "inf" if x > 0 else "-inf"
    if x == 0:
        return "-0" if str(x).startswith("-") else "0"
    with localcontext() as cx:
        cx.prec = 800
        exact = Decimal(x)
        best = None
        for p in range(1, 18):
            q = exact.adjusted() - p + 1
            cand = exact.quantize(Decimal(1).scaleb(q), rounding=ROUND_HALF_UP)
            if float(cand) == x:
                best = cand
                break
        if best is None:
            best = Decimal(repr(x))
        t = format(best, "f")
    if "." in t:
        t = t.rstrip("0").rstrip(".")
    return t


_MARK = re.compile(r"e29fa6([0-9a-f]*?)e29fa7")


def expand_float_markers(line):
    """model strings carry floats as the marker ⟦bits⟧ (hex inside s:<hex>); expand to Rust's text"""
    if "e29fa6" not in line:
        return line

    def rep(m):
        bits = int(bytes.fromhex(m.group(1)).decode())
        x = struct.unpack(">d", struct.pack(">Q", bits))[0]
        return rust_f64(x).encode().hex()
    return _MARK.sub(rep, line)
