#!/usr/bin/env python3
"""Serialised access to the shared Lean project / cargo dirs:  tools/lk.py lake build <targets…> | tools/lk.py harness"""
import sys, os
sys.path.insert(0, os.path.dirname(os.path.abspath(__file__)))
import vlib
ctx = vlib.Ctx("tool")
if sys.argv[1] == "lake":
    with vlib.Lock("lean-main"):
        rc, out = vlib.sh(["lake"] + sys.argv[2:], cwd=vlib.LEAN, timeout=7200)
    print(out[-6000:]); sys.exit(rc)
elif sys.argv[1] == "harness":
    h, err = vlib.build_harness(ctx)
    print(h or err); sys.exit(0 if h else 1)
elif sys.argv[1] == "p2sh":
    exe, err = vlib.build_p2sh(ctx, release=(len(sys.argv) > 2 and sys.argv[2] == "release"))
    print(exe or err); sys.exit(0 if exe else 1)
