#!/bin/bash
# stage a file with lines matching a regex removed (used while other contributors' work is in progress)
# usage: tools/stage_filtered.sh <path> <egrep-regex-of-lines-to-leave-out>
set -e
f="$1"; re="$2"
sha=$(grep -Ev "$re" "$f" | git hash-object -w --stdin)
mode=$(git ls-files -s "$f" | cut -d' ' -f1); mode=${mode:-100644}
git update-index --add --cacheinfo "$mode,$sha,$f"
