"""Which of the repairs proposed for the file-I/O defects (DESIGN §8: F16, F17, F18, F31, F32) does a working tree contain?

The C21/C22 models carry one flag per repair (`FileRead.Fixes`, `IoFaults.Fixes`); the flags are read off the source of the
tree under check, here, and passed to the Lean driver with every op line (`fx=…`).  Detection is by the *shape of the
builtin's body*; a wrong guess cannot pass silently: the model then disagrees with the implementation on the
correspondence run and the check fails with `proof-or-tie-broken`."""
import os
import re


def _strip(src):
    src = re.sub(r"//[^\n]*", "", src)
    return re.sub(r"/\*.*?\*/", "", src, flags=re.S)


def fn_body(src, name):
    m = re.search(r"\bfn\s+" + re.escape(name) + r"\s*(<[^>]*>)?\s*\(", src)
    if not m:
        return None
    i = src.find("{", m.end())
    depth, j = 0, i
    while j < len(src):
        if src[j] == "{":
            depth += 1
        elif src[j] == "}":
            depth -= 1
            if depth == 0:
                return src[i:j + 1]
        j += 1
    return None


def probe(repo):
    """-> dict of booleans; a builtin that cannot be found counts as unrepaired"""
    try:
        src = _strip(open(os.path.join(repo, "src", "builtins", "functions.rs"), encoding="utf-8").read())
    except OSError:
        return {}
    body = lambda n: fn_body(src, n) or ""
    rff, opn, rts, ext, fl, po, wr = (body(n) for n in ("read_from_file", "builtin_open", "builtin_read_to_string", "builtin_exit", "builtin_flush",
                                                         "builtin_pcap_open", "builtin_write"))
    m = re.search(r'"a"\s*=>(.*?)"w"\s*=>', opn, flags=re.S)
    arm_a = m.group(1) if m else ""
    return {
        "readloop": bool(rff) and not re.search(r"bytes_read\s*<\s*read_len", rff),          # F16: no early exit on a short read
        "append": ".create(true)" in re.sub(r"\s+", "", arm_a),                               # F17
        "stdin": "FileHandle::Stdin" in rts and "read_to_end" in rts.split("FileHandle::Stdin", 1)[-1],   # F31
        "exit": bool(re.search(r"flush", ext)),                                               # F32
        "flush": bool(fl) and ".expect(" not in fl,                                           # F18 flush
        "pcapopen": bool(re.search(r"Object::Err\(_\)\s*=>\s*return\s+Ok\(", po)),            # F18 pcap_open: open's error object is returned
        "wstd": bool(wr) and "print!" not in wr,                                              # write to stdout/stderr
    }


def token(repo, names):
    p = probe(repo)
    on = [n for n in names if p.get(n)]
    return "fx=" + (",".join(on) or "-")
