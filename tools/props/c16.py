"""C16 — header accessors decode the RFC-defined fields and layers."""
from vlib import Case
from props import pktlib as P

RULE = ("op `pkt <frame> <script>` with read-only scripts: every G step goes through the real GetProp / Dollar code; the spec (Lean, Spec/Rfc.lean) gives the "
        "RFC bit slice / address text / payload bytes / layer object expected at each step, `-` where the statement is silent (a named layer whose name "
        "disagrees with the type field, malformed length fields, TCP reserved bits); field sweeps embed every value of a field in random surrounding bytes; "
        "distinct = distinct op line; non-trivial = at least one read returned a value")
NOTES = ["the model is the code after /repo commits aefd4e7 (tcp.flags = control bits, payload after data offset*4, truncated TCP header = error object), d83dd30 (IPv4 header "
         "running past the capture = error object, no panic), cc7014b (named layer getters check the type field) and 7e7b19c (vlan.ipv6): getter_is_slice, payload_offset, "
         "truncated_is_error_object, dispatch_agrees hold without exclusions",
         "the witness lines of the repaired findings in known_findings.json are run as regression inputs on every check"]
ASSUMPTIONS = ["an address is 'returned in its textual form' when the text is one of: MAC two-digit groups in either case; dotted quad; IPv6 as eight plain groups, "
               "RFC 5952 compressed, or zero-padded, in either case",
               "a payload may stop at the end of the frame or where an enclosing length field (IPv4 total length, IPv6 payload length, UDP length) says",
               "below a header whose length field is smaller than its fixed part (IHL < 5, data offset < 5) nothing is demanded",
               "$n beyond an error object and n > 10 are left unconstrained"]
HARNESS_TIMEOUT = 600
DRIVER_TIMEOUT = 900
EXHAUSTIVE = False

_spec_override, _judge, _classify = P.make_hooks("C16", "G")
canon = P.canon
BINARY_PROFILES = ["dev"]


def spec_override(c):
    return c.spec if c.line.startswith("pcaphdr ") else _spec_override(c)


def judge(c):
    return None if c.line.startswith("pcaphdr ") else _judge(c)


def classify(c):
    return "pcap-object-properties" if c.line.startswith("pcaphdr ") else _classify(c)


def nontrivial(c):
    return "ok " in c.impl or c.impl.startswith("hdr ")


# ---- the pcap object's properties, end to end: a file with the given global header is opened by a script that prints them
HDR_SCRIPT = ('let f = pcap_open("%s");\nif is_error(f) { puts("open=E"); } else {\n'
              '  puts("hdr ", f.magic, " ", f.major, " ", f.minor, " ", f.thiszone, " ", f.sigfigs, " ", f.snaplen, " ", f.linktype);\n}\n')


def run_hdr(exe, scratch, idx, c):
    import os, subprocess
    d = os.path.join(scratch, f"h{idx}")
    os.makedirs(d, exist_ok=True)
    path = os.path.join(d, "in.pcap")
    with open(path, "wb") as f:
        f.write(bytes.fromhex(c.line.split(" ")[1]))
    sp = os.path.join(d, "s.p2")
    with open(sp, "w") as f:
        f.write(HDR_SCRIPT % path)
    try:
        p = subprocess.run([exe, sp], stdin=subprocess.DEVNULL, stdout=subprocess.PIPE, stderr=subprocess.PIPE, timeout=30)
    except subprocess.TimeoutExpired:
        return "HANG"
    err = p.stderr.decode("utf-8", "replace")
    if "panicked" in err:
        return "PANIC " + err[:160].encode("utf-8").hex()
    out = p.stdout.decode("utf-8", "replace").strip().splitlines()
    if "Runtime error" in err:
        return "rterr"
    return out[0] if out else "noresult"


def run_impl(ctx, cases):
    import concurrent.futures as cf
    import vlib
    outs = [None] * len(cases)
    hidx = [k for k, c in enumerate(cases) if not c.line.startswith("pcaphdr ")]
    hout = vlib.run_parallel(ctx.harness, [cases[k].line for k in hidx], timeout=HARNESS_TIMEOUT, label="harness") if ctx.harness else ["NOHARNESS"] * len(hidx)
    for k, o in zip(hidx, hout):
        outs[k] = o
    gidx = [k for k, c in enumerate(cases) if c.line.startswith("pcaphdr ")]
    exe = ctx.p2sh.get("dev")
    if not exe:
        for k in gidx:
            outs[k] = "NOHARNESS"
    else:
        scratch = ctx.mkscratch()
        with cf.ThreadPoolExecutor(max_workers=16) as ex:
            for k, o in zip(gidx, ex.map(lambda k: run_hdr(exe, scratch, k, cases[k]), gidx)):
                outs[k] = o
    return outs


def sweep_values(ctx, width):
    if width <= 8 or ctx.thorough() and width <= 16:
        return range(1 << width)
    if width <= 16:
        return sorted(set(list(range(0, 1 << width, 97)) + [0, 1, 255, 256, 257, (1 << width) - 1, (1 << width) - 2, 1 << (width - 1)]
                          + [ctx.rng.randrange(1 << width) for _ in range(200)]))
    b = [0, 1, (1 << width) - 1, 1 << (width - 1), (1 << width) - 2, 0x01020304 & ((1 << width) - 1)]
    return sorted(set(b + [ctx.rng.randrange(1 << width) for _ in range(ctx.scale(300, 20000))]))


def cases(ctx):
    global EXHAUSTIVE
    EXHAUSTIVE = ctx.thorough()
    rng = ctx.rng
    out = []
    shapes = P.shapes()
    host = {"eth": "eth-ipv4-udp", "vlan": "eth-vlan-ipv4-udp", "ipv4": "eth-ipv4-udp", "ipv6": "eth-ipv6-udp", "tcp": "eth-ipv4-tcp", "udp": "eth-ipv6-udp"}
    # ---- field sweeps: every value of the field, random neighbours
    for layer, prop, off, width in P.FIELDS:
        layers = shapes[host[layer]]
        names = P.path_of(layers)
        idx = names.index(layer)
        path = ".".join(names[: idx + 1])
        for v in sweep_values(ctx, width):
            frame = P.build(layers, rng)
            start = dict(P.starts(layers, frame))[layer]
            frame = P.set_bits(frame, 8 * start + off, width, v)
            steps = [f"G{path}.{prop}", f"G${idx + 1}.{prop}"]
            if layer == "tcp" and prop == "dataoff":
                steps.append(f"G{path}.len")
            if (layer, prop) in (("eth", "type"), ("vlan", "type"), ("ipv4", "proto"), ("ipv6", "nextheader")):
                steps += [f"G${idx + 2}", f"G${idx + 3}"]
            if (layer, prop) in (("ipv4", "ihl"), ("tcp", "dataoff"), ("ipv4", "totlen"), ("ipv6", "len"), ("udp", "len")):
                steps += [f"G{path}.payload", f"G${idx + 2}"]
            out.append(Case(P.pkt_line(frame, steps), ("sweep", f"{layer}.{prop}")))
    # ---- every EtherType under a VLAN tag as well, protocol under IPv4-in-VLAN
    for v in (range(65536) if ctx.thorough() else [0x8100, 0x0800, 0x86DD, 0x0806, 0x9100, 0, 0xFFFF] + [rng.randrange(65536) for _ in range(200)]):
        frame = P.build(shapes["eth-vlan-ipv4-udp"], rng)
        frame = P.set_bits(frame, 8 * 14 + 16, 16, v)
        out.append(Case(P.pkt_line(frame, ["G$2.type", "G$3", "G$4"]), ("dispatch", "vlan.type")))
    # ---- wide fields and addresses
    for _ in range(ctx.scale(400, 20000)):
        name = rng.choice(["eth-ipv4-tcp", "eth-ipv6-udp", "eth-vlan-ipv4-udp", "eth-ipv6-tcp", "eth-ipv4-ipv6-udp"])
        layers = shapes[name]
        frame = bytearray(P.build(layers, rng))
        # boundary-heavy address bytes
        for kind, st in P.starts(layers, bytes(frame)):
            if kind == "ipv6" and rng.random() < 0.7:
                for g in range(16):
                    if rng.random() < 0.5:
                        frame[st + 8 + 2 * g: st + 10 + 2 * g] = rng.choice([b"\x00\x00", b"\x00\x01", b"\xff\xff", b"\x0a\xbc"])
            if kind == "ipv4" and rng.random() < 0.5:
                frame[st + 12: st + 20] = bytes(rng.choice([0, 1, 9, 10, 99, 100, 199, 200, 255]) for _ in range(8))
            if kind == "eth" and rng.random() < 0.5:
                frame[0:12] = bytes(rng.choice([0, 9, 10, 15, 16, 0xAB, 0xFF]) for _ in range(12))
        hdr = [rng.choice([0, 1, 0xFFFFFFFF, rng.getrandbits(32)]) for _ in range(4)]
        out.append(Case(P.pkt_line(bytes(frame), P.full_read_script(layers)[:-1], hdr), ("full-path", name)))
    # ---- every shape, every property on the dispatch path, $0..$11; truncations
    for name, layers in shapes.items():
        frame = P.build(layers, rng)
        cuts = list(range(len(frame) + 1)) if ctx.thorough() else sorted(set(list(range(0, len(frame) + 1, 7)) + [len(frame), 13, 14, 17, 18, 33, 34, 37, 38, 41, 42, 53, 54, 61, 62, 73, 74]))
        for cut in [c for c in cuts if c <= len(frame)]:
            fr = frame[:cut]
            out.append(Case(P.pkt_line(fr, P.full_read_script(layers)[:-1]), ("truncated-full-path", name)))
            out.append(Case(P.pkt_line(fr, P.dollar_script()[:-1]), ("truncated-dollar", name)))
    # ---- payload delimitation: length fields shorter / longer than the frame
    for _ in range(ctx.scale(300, 10000)):
        name = rng.choice(["eth-ipv4-udp", "eth-ipv4-tcp", "eth-ipv6-udp", "eth-ipv6-tcp", "eth-vlan-ipv4-udp"])
        layers = [P.L(l.kind, **dict(l.kw)) for l in shapes[name]]
        for l in layers:
            if l.kind == "ipv4":
                l.kw["ihl"] = rng.choice([5, 5, 5, 6, 8, 15])
                l.kw["totlen"] = rng.choice([0, 19, 20, 28, 40, 60, 1500, 65535])
            if l.kind == "ipv6":
                l.kw["plen"] = rng.choice([0, 7, 8, 20, 40, 65535])
            if l.kind == "udp":
                l.kw["len"] = rng.choice([0, 7, 8, 9, 20, 65535])
            if l.kind == "tcp":
                l.kw["doff"] = rng.choice([5, 5, 6, 8, 15])
        frame = P.build(layers, rng, payload=P.rb(rng, rng.choice([0, 3, 18, 40])))
        names = P.path_of(layers)
        steps = ["Gpayload"] + [f"G{'.'.join(names[:i + 1])}.payload" for i in range(len(names))] + [f"G${i}.payload" for i in range(1, len(names) + 1)]
        out.append(Case(P.pkt_line(frame, steps), ("payload", name)))
    # ---- random reads (names may disagree with the type fields)
    for _ in range(ctx.scale(1500, 60000)):
        name = rng.choice(list(shapes))
        frame = P.build(shapes[name], rng)
        if rng.random() < 0.3:
            frame = frame[: rng.randint(0, len(frame))]
        steps = [s for s in P.random_read_script(rng, shapes[name]) if s != "W"]
        out.append(Case(P.pkt_line(frame, steps), ("random-reads", name)))
    # ---- the pcap object (global header): every field at its boundaries, both magics, a negative thiszone, garbage magic
    import struct
    b16 = [0, 1, 2, 4, 255, 256, 32767, 32768, 65535]
    b32 = [0, 1, 65535, 65536, 262144, 2147483647, 2147483648, 4294967295]
    tz = [0, 1, -1, -18000, 19800, 2147483647, -2147483648]
    for _ in range(ctx.scale(300, 6000)):
        magic = rng.choice([0xA1B2C3D4, 0xA1B2C3D4, 0xA1B23C4D, 0xD4C3B2A1, rng.getrandbits(32)])
        hdr = struct.pack("<IHHiIII", magic, rng.choice(b16 + [rng.getrandbits(16)]), rng.choice(b16 + [rng.getrandbits(16)]), rng.choice(tz + [rng.randint(-2 ** 31, 2 ** 31 - 1)]),
                          rng.choice(b32 + [rng.getrandbits(32)]), rng.choice(b32 + [rng.getrandbits(32)]), rng.choice([0, 1, 101, 113, 4294967295, rng.getrandbits(32)]))
        tail = b"" if rng.random() < 0.5 else struct.pack("<IIII", 1, 2, 4, 4) + b"abcd"
        out.append(Case("pcaphdr " + (hdr + tail).hex(), ("pcap-object",)))
    out.append(Case("pcaphdr " + struct.pack("<IHH", 0xA1B2C3D4, 2, 4).hex(), ("pcap-object",)))
    return P.with_witnesses(ctx, out)
