"""C03 — expressions group according to the documented precedence and associativity."""
import itertools

from props import c02
from vlib import Case, lang_lines, run_parallel

RULE = ("expression trees over the 18 binary operators, prefix ! - ~, indexing, calls and assignment are rendered twice: with only the parentheses the *documented* table "
        "(docs/language/expression-precedence.md) requires and fully parenthesised.  The minimal text is run by the real pipeline; the oracle is the reference semantics applied to "
        "the AST of the fully parenthesised text, and the real parser must produce the same AST for both texts.  Exhaustive over ordered operator pairs in both nesting positions, "
        "prefix x binary, postfix combinations, trees of depth <= 3 over one representative per precedence level; random to depth 4; non-trivial = oracle-constrained run")
ASSUMPTIONS = ["leaves are small distinct integers/booleans so different groupings give different values or different error/non-error outcomes"]
HARNESS_TIMEOUT = 30
canon = c02.canon


def nontrivial(c):
    if c.line.startswith("pexpr "):
        return c.impl.startswith("ok ") and c.model.startswith("ok ")
    return c02.nontrivial(c)


def model_skip(c):
    # `pexpr` lines: the Pratt-parser model (lean/P2sh/Model/Parser.lean) must print what the real parser prints
    if c.line.startswith("pexpr "):
        return False
    return c02.model_skip(c)

# documented table, highest first (docs/language/expression-precedence.md)
LEVELS = [["[]", ".", "()"], ["!u", "-u", "~u"], ["*", "/", "%"], ["+", "-"], ["<<", ">>"], ["&"], ["^"], ["|"], ["==", "!=", "<", ">", "<=", ">="], ["&&"], ["||"], ["..", "..="], ["|pat"], ["="]]
LEVEL = {op: len(LEVELS) - i for i, ops in enumerate(LEVELS) for op in ops}
BINOPS = ["*", "/", "%", "+", "-", "<<", ">>", "&", "^", "|", "==", "!=", "<", ">", "<=", ">=", "&&", "||"]
REPS = ["*", "+", "<<", "&", "^", "|", "<", "&&", "||"]
PREFIX = ["!", "-", "~"]


def classify(c):
    return "grouping " + (c.extra or {}).get("shape", "?")


# trees: ("lit", text) | ("bin", op, l, r) | ("un", op, e) | ("idx", base, i) | ("call", f, arg) | ("asg", target, e)
def lvl(t):
    k = t[0]
    if k == "bin":
        return LEVEL[t[1]]
    if k == "un":
        return LEVEL[t[1] + "u"]
    if k in ("idx", "call"):
        return LEVEL["[]"]
    if k == "asg":
        return LEVEL["="]
    return 100


def full(t):
    k = t[0]
    if k == "lit":
        return t[1]
    if k == "bin":
        return f"({full(t[2])} {t[1]} {full(t[3])})"
    if k == "un":
        return f"({t[1]}{full(t[2])})"
    if k == "idx":
        return f"({full(t[1])}[{full(t[2])}])"
    if k == "call":
        return f"({full(t[1])}({full(t[2])}))"
    if k == "asg":
        return f"({full_target(t[1])} = {full(t[2])})"


def full_target(t):
    # an assignment target is an identifier or an index expression (never wrapped)
    if t[0] == "idx":
        return f"{full(t[1])}[{full(t[2])}]"
    return full(t)


def mn(t):
    k = t[0]
    if k == "lit":
        return t[1]
    if k == "bin":
        p = lvl(t)
        l, r = t[2], t[3]
        ls = mn(l) if lvl(l) >= p else f"({mn(l)})"       # equal precedence groups left to right
        rs = mn(r) if lvl(r) > p else f"({mn(r)})"
        return f"{ls} {t[1]} {rs}"
    if k == "un":
        e = t[2]
        return t[1] + (mn(e) if lvl(e) >= lvl(t) else f"({mn(e)})")
    if k == "idx":
        b = t[1]
        bs = mn(b) if lvl(b) >= lvl(t) else f"({mn(b)})"
        return f"{bs}[{mn(t[2])}]"
    if k == "call":
        b = t[1]
        bs = mn(b) if lvl(b) >= lvl(t) else f"({mn(b)})"
        return f"{bs}({mn(t[2])})"
    if k == "asg":
        # right to left: the value may itself be an assignment without parentheses
        return f"{mn_target(t[1])} = {mn(t[2])}"


def mn_target(t):
    if t[0] == "idx":
        return mn(t)
    return mn(t)


LEAVES = [("lit", "2"), ("lit", "3"), ("lit", "5"), ("lit", "7"), ("lit", "1"), ("lit", "x"), ("lit", "y"), ("lit", "true"), ("lit", "false")]
PRELUDE = "let obs = [];\nlet a = [10, 20, 30, 40, 50, 60, 70, 80];\nfn f(p) { p }\nlet x = 2;\nlet y = 3;\n"


# the places an expression can stand in: the grouping must not depend on them
CONTEXTS = ["push(obs, {E});", "push(obs, match 1 {{ 1 => {E}, _ => 0 }});", "push(obs, match x {{ 5 | 2 => {{ {E} }}, _ => 0 }});",
            "push(obs, if true {{ {E} }} else {{ 0 }});", "push(obs, [{E}][0]);", "push(obs, f({E}));", "let t_ = {E};\npush(obs, t_);",
            "fn g_() {{ {E} }}\npush(obs, g_());", "push(obs, map {{1: {E}}}[1]);", "let k_ = 0;\nwhile k_ < 1 {{ k_ = k_ + 1; push(obs, {E}); }}"]


def program(expr_text, ctx_idx=0):
    return PRELUDE + CONTEXTS[ctx_idx % len(CONTEXTS)].format(E=expr_text) + "\nx * 100 + y\n"


def rand_tree(rng, depth):
    if depth == 0 or rng.random() < 0.25:
        return rng.choice(LEAVES)
    r = rng.random()
    if r < 0.62:
        return ("bin", rng.choice(BINOPS), rand_tree(rng, depth - 1), rand_tree(rng, depth - 1))
    if r < 0.8:
        return ("un", rng.choice(PREFIX), rand_tree(rng, depth - 1))
    if r < 0.87:
        return ("idx", rng.choice([("lit", "a"), ("bin", "+", ("lit", "a"), ("lit", "a"))]), rand_tree(rng, depth - 1))
    if r < 0.94:
        return ("call", ("lit", "f"), rand_tree(rng, depth - 1))
    tgt = rng.choice([("lit", "x"), ("lit", "y"), ("idx", ("lit", "a"), rng.choice(LEAVES[:4]))])
    return ("asg", tgt, rand_tree(rng, depth - 1))


def trees(ctx):
    rng = ctx.rng
    out = []
    A, B, C = ("lit", "2"), ("lit", "3"), ("lit", "5")
    for o1, o2 in itertools.product(BINOPS, BINOPS):
        out.append(("pair-left", ("bin", o2, ("bin", o1, A, B), C)))
        out.append(("pair-right", ("bin", o1, A, ("bin", o2, B, C))))
    for u, o in itertools.product(PREFIX, BINOPS):
        out.append(("prefix-binary", ("bin", o, ("un", u, A), B)))
        out.append(("prefix-binary", ("un", u, ("bin", o, A, B))))
        out.append(("prefix-binary", ("bin", o, A, ("un", u, B))))
    for u in PREFIX:
        out.append(("prefix-postfix", ("un", u, ("idx", ("lit", "a"), A))))
        out.append(("prefix-postfix", ("idx", ("lit", "a"), ("un", u, A))))
        out.append(("prefix-postfix", ("un", u, ("call", ("lit", "f"), A))))
        out.append(("prefix-postfix", ("call", ("lit", "f"), ("un", u, A))))
    for o in BINOPS:
        out.append(("postfix", ("idx", ("lit", "a"), ("bin", o, A, B))))
        out.append(("postfix", ("bin", o, ("idx", ("lit", "a"), A), B)))
        out.append(("postfix", ("bin", o, A, ("call", ("lit", "f"), B))))
        out.append(("postfix", ("call", ("lit", "f"), ("bin", o, A, B))))
        out.append(("assign", ("asg", ("lit", "x"), ("bin", o, A, B))))
        out.append(("assign", ("bin", o, ("asg", ("lit", "x"), A), B)))
        out.append(("assign", ("bin", o, A, ("asg", ("lit", "x"), B))))
    out.append(("assign", ("asg", ("lit", "x"), ("asg", ("lit", "y"), ("lit", "7")))))
    out.append(("assign", ("asg", ("idx", ("lit", "a"), A), ("asg", ("lit", "y"), ("lit", "7")))))
    # depth <= 3 over one representative per precedence level
    for o1, o2, o3 in itertools.product(REPS, REPS, REPS):
        out.append(("depth3", ("bin", o1, ("bin", o2, A, B), ("bin", o3, C, ("lit", "7")))))
        if ctx.thorough() or rng.random() < 0.3:
            out.append(("depth3", ("bin", o1, A, ("bin", o2, B, ("bin", o3, C, ("lit", "7"))))))
            out.append(("depth3", ("bin", o1, ("bin", o2, ("bin", o3, A, B), C), ("lit", "7"))))
    for _ in range(ctx.scale(2500, 300000)):
        out.append(("random", rand_tree(rng, 4)))
    return out


# ---- op `pexpr`: the Pratt-parser model against the real parser (tree of the expression alone, no program around it)
PX_ATOMS = ["1", "2", "30", "x", "y", "a", "f", "true", "false", "9223372036854775807", "9223372036854775808", "007", "1x"]
PX_TOKENS = PX_ATOMS + ["(", ")", "[", "]", ",", "=", "..", "..=", "!", "-", "~", ";"] + BINOPS


def px_tree(rng, depth):
    """trees with every form of the sub-grammar: n-ary calls, call/index chains, ranges, assignments with any target"""
    if depth == 0 or rng.random() < 0.2:
        return ("lit", rng.choice(PX_ATOMS[:9]))
    r = rng.random()
    if r < 0.45:
        return ("bin", rng.choice(BINOPS), px_tree(rng, depth - 1), px_tree(rng, depth - 1))
    if r < 0.6:
        return ("un", rng.choice(PREFIX), px_tree(rng, depth - 1))
    if r < 0.7:
        return ("idx", px_tree(rng, depth - 1), px_tree(rng, depth - 1))
    if r < 0.82:
        return ("calln", px_tree(rng, depth - 1), [px_tree(rng, depth - 1) for _ in range(rng.choice([0, 1, 1, 2, 3]))])
    if r < 0.88:
        a, b = rng.choice([("1", "2"), ("x", "y"), ("1", "x"), ("2", "30")])
        return ("rng", rng.choice(["..", "..="]), ("lit", a), ("lit", b))
    return ("asg", px_target(rng, depth - 1, True), px_tree(rng, depth - 1))


def px_target(rng, depth, ident_ok):
    """what may stand before `=`: an identifier at the assignment level, or anything whose last token closes an index / call
    (`-a[0] = 1`, `x + f(y) = 1` are accepted by the parser and group as `(-a[0]) = 1`, `(x + f(y)) = 1`)"""
    r = rng.random()
    if ident_ok and r < 0.4:
        return ("lit", rng.choice(["x", "y", "a"]))
    if depth <= 0 or r < 0.6:
        return ("idx", ("lit", "a"), px_tree(rng, max(depth - 1, 0)))
    if r < 0.7:
        return ("calln", px_tree(rng, depth - 1), [px_tree(rng, depth - 1)])
    if r < 0.85:
        return ("un", rng.choice(PREFIX), px_target(rng, depth - 1, False))
    return ("bin", rng.choice(BINOPS), px_tree(rng, depth - 1), px_target(rng, depth - 1, False))


def px_lvl(t):
    if t[0] == "calln":
        return LEVEL["()"]
    if t[0] == "rng":
        return LEVEL[".."]
    return lvl(t)


def px_min(t):
    """minimal parentheses by the documented table (an assignment target is never wrapped: `(a) = b` is rejected)"""
    k = t[0]
    w = lambda e, ok: px_min(e) if ok else f"({px_min(e)})"
    if k == "lit":
        return t[1]
    if k == "bin":
        p = px_lvl(t)
        return f"{w(t[2], px_lvl(t[2]) >= p)} {t[1]} {w(t[3], px_lvl(t[3]) > p)}"
    if k == "un":
        return t[1] + w(t[2], px_lvl(t[2]) >= px_lvl(t))
    if k == "idx":
        return f"{w(t[1], px_lvl(t[1]) >= px_lvl(t))}[{px_min(t[2])}]"
    if k == "calln":
        return f"{w(t[1], px_lvl(t[1]) >= px_lvl(t))}({', '.join(px_min(a) for a in t[2])})"
    if k == "rng":
        return f"{px_min(t[2])}{t[1]}{px_min(t[3])}"
    if k == "asg":
        return f"{w(t[1], px_lvl(t[1]) > px_lvl(t))} = {px_min(t[2])}"


def px_full(t):
    """every operand wrapped, except assignment targets and range operands (wrapping those is rejected by the parser)"""
    k = t[0]
    w = lambda e: px_full(e) if e[0] == "lit" else f"({px_full(e)})"
    if k == "lit":
        return t[1]
    if k == "bin":
        return f"{w(t[2])} {t[1]} {w(t[3])}"
    if k == "un":
        return t[1] + w(t[2])
    if k == "idx":
        return f"{w(t[1])}[{w(t[2])}]"
    if k == "calln":
        return f"{w(t[1])}({', '.join(w(a) for a in t[2])})"
    if k == "rng":
        return f"{px_full(t[2])}{t[1]}{px_full(t[3])}"
    if k == "asg":
        return f"{px_min(t[1]) if t[1][0] != 'lit' else t[1][1]} = {w(t[2])}"


PX_FIXED = ["1 + 2 * 3", "(1 + 2) * 3", "a = b = c", "-a[0]", "!f(x)", "1 - 2 - 3", "1 - (2 - 3)", "a < b == c", "a + b = c", "(a) = b", "1 = 2", "-a = 3", "-a[0] = 3",
            "!f(x) = 3", "a + f(x) = 3", "a + (b) = c", "f()", "f(1, 2, 3)", "f(1)(2)[3](4)", "f(x = 1, y)", "a[x = 1]", "1..2", "x..=y", "1..2..3", "1 + 2..3", "a = 1..2",
            "(1..2) + 3", "-(1..2)", "true && !false", "~-!x", "- - 1", "(((1)))", "()", "(1", "1)", "f(1,)", "f(,1)", "a[1", "a[]", "1 +", "* 2", "a = ", "= a", "x = y = 7;",
            "9223372036854775807 + 1", "9223372036854775808", "1x + 2", "1 2", "a b", "x: 1", "let x = 1", "", ";", "a == b == c", "a && b || c && d", "a | b ^ c & d << e + f * g",
            "a * b + c << d & e ^ f | g", "f(a)[b](c) = d", "a[0][1] = b = c + 1", "(a = b) + 1", "1 + (a = b)", "a = (b = c)", "(a = b) = c", "f(a = b)", "-(a = b)", "(-a)[0]", "(a + b)(c)"]


def pexpr_cases(ctx, ts):
    rng = ctx.rng
    srcs, asts, shapes = [], [], []
    fixed = [x for x in ts if x[0] != "random"]
    rnd = [x for x in ts if x[0] == "random"]
    for shape, t in fixed + rnd[:ctx.scale(400, 20000)]:
        srcs += [mn(t), full(t)]
        asts += [full(t), full(t)]
        shapes += ["px-" + shape + "-min", "px-" + shape + "-full"]
    for _ in range(ctx.scale(1500, 100000)):
        t = px_tree(rng, rng.choice([2, 3, 3, 4, 5]))
        srcs += [px_min(t), px_full(t)]
        asts += [px_full(t), px_full(t)]
        shapes += ["px-tree-min", "px-tree-full"]
    for s in PX_FIXED:
        srcs.append(s); asts.append(s); shapes.append("px-fixed")
    for _ in range(ctx.scale(1500, 100000)):
        s = " ".join(rng.choice(PX_TOKENS) for _ in range(rng.randint(1, 9)))
        srcs.append(s); asts.append(s); shapes.append("px-soup")
    import re
    for _ in range(ctx.scale(1500, 100000)):
        # a valid rendering with one token deleted, replaced or inserted
        toks = re.findall(r"[A-Za-z0-9_]+|\.\.=|\.\.|&&|\|\||==|!=|<=|>=|<<|>>|\S", px_min(px_tree(rng, rng.choice([2, 3, 4]))))
        i = rng.randrange(len(toks))
        r = rng.random()
        if r < 0.35:
            del toks[i]
        elif r < 0.7:
            toks[i] = rng.choice(PX_TOKENS)
        else:
            toks.insert(i, rng.choice(PX_TOKENS))
        s = " ".join(toks)
        srcs.append(s); asts.append(s); shapes.append("px-mutant")
    lines = lang_lines(ctx, srcs, op="pexpr", ast_sources=asts)
    return [Case(l, (sh,), extra={"shape": sh, "src": s, "ast_of": a}) for l, sh, s, a in zip(lines, shapes, srcs, asts)]


def cases(ctx):
    ts = trees(ctx)
    # every tree in the plain context; a rotating second context (match arm, if branch, call argument, …) for each
    ts = ts + [("ctx:" + shape, t) for shape, t in ts]
    half = len(ts) // 2
    cidx = [0] * half + [1 + (k % (len(CONTEXTS) - 1)) for k in range(half)]
    mins = [program(mn(t), cidx[k]) for k, (_, t) in enumerate(ts)]
    fulls = [program(full(t), cidx[k]) for k, (_, t) in enumerate(ts)]
    lines = lang_lines(ctx, mins, ast_sources=fulls)
    # the real parser's AST of the minimal text must be the AST of the full text
    same = []
    if ctx.harness:
        a1 = run_parallel(ctx.harness, ["parse " + s.encode().hex() for s in mins], timeout=60)
        a2 = run_parallel(ctx.harness, ["parse " + s.encode().hex() for s in fulls], timeout=60)
        same = [x == y for x, y in zip(a1, a2)]
    out = []
    for i, (l, (shape, t)) in enumerate(zip(lines, ts)):
        out.append(Case(l, (shape,), extra={"shape": shape, "min": mn(t), "full": full(t), "src": mins[i], "ast_same": same[i] if same else None}))
    return out + pexpr_cases(ctx, ts[:half])


def judge(c):
    e = c.extra or {}
    if e.get("ast_same") is False:
        return False
    return None
