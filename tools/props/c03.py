"""C03 — expressions group according to the documented precedence and associativity."""
import itertools

from props import c02
from vlib import Case, lang_lines, run_parallel

RULE = ("expression trees over the 18 binary operators, prefix ! - ~, indexing, calls and assignment are rendered twice: with only the parentheses the *documented* table "
        "(docs/language/expression-precedence.md) requires and fully parenthesised.  The minimal text is run by the real pipeline; the oracle is the reference semantics applied to "
        "the AST of the fully parenthesised text, and the real parser must produce the same AST for both texts.  Exhaustive over ordered operator pairs in both nesting positions, "
        "prefix x binary, postfix combinations, trees of depth <= 3 over one representative per precedence level; random to depth 4; non-trivial = oracle-constrained run")
ASSUMPTIONS = ["leaves are small distinct integers/booleans so different groupings give different values or different error/non-error outcomes"]
HARNESS_TIMEOUT = 30
canon = c02.canon
nontrivial = c02.nontrivial
model_skip = c02.model_skip

# documented table, highest first (docs/language/expression-precedence.md)
LEVELS = [["[]", ".", "()"], ["!u", "-u", "~u"], ["*", "/", "%"], ["+", "-"], ["<<", ">>"], ["&"], ["^"], ["|"], ["==", "!=", "<", ">", "<=", ">="], ["&&"], ["||"], ["..", "..="], ["|pat"], ["="]]
LEVEL = {op: len(LEVELS) - i for i, ops in enumerate(LEVELS) for op in ops}
BINOPS = ["*", "/", "%", "+", "-", "<<", ">>", "&", "^", "|", "==", "!=", "<", ">", "<=", ">=", "&&", "||"]
REPS = ["*", "+", "<<", "&", "^", "|", "<", "&&", "||"]
PREFIX = ["!", "-", "~"]


def classify(c):
    return "grouping " + (c.extra or {}).get("shape", "?")


# trees: ("lit", text) | ("bin", op, l, r) | ("un", op, e) | ("idx", base, i) | ("call", f, arg) | ("asg", target, e)
def lvl(t):
    k = t[0]
    if k == "bin":
        return LEVEL[t[1]]
    if k == "un":
        return LEVEL[t[1] + "u"]
    if k in ("idx", "call"):
        return LEVEL["[]"]
    if k == "asg":
        return LEVEL["="]
    return 100


def full(t):
    k = t[0]
    if k == "lit":
        return t[1]
    if k == "bin":
        return f"({full(t[2])} {t[1]} {full(t[3])})"
    if k == "un":
        return f"({t[1]}{full(t[2])})"
    if k == "idx":
        return f"({full(t[1])}[{full(t[2])}])"
    if k == "call":
        return f"({full(t[1])}({full(t[2])}))"
    if k == "asg":
        return f"({full_target(t[1])} = {full(t[2])})"


def full_target(t):
    # an assignment target is an identifier or an index expression (never wrapped)
    if t[0] == "idx":
        return f"{full(t[1])}[{full(t[2])}]"
    return full(t)


def mn(t):
    k = t[0]
    if k == "lit":
        return t[1]
    if k == "bin":
        p = lvl(t)
        l, r = t[2], t[3]
        ls = mn(l) if lvl(l) >= p else f"({mn(l)})"       # equal precedence groups left to right
        rs = mn(r) if lvl(r) > p else f"({mn(r)})"
        return f"{ls} {t[1]} {rs}"
    if k == "un":
        e = t[2]
        return t[1] + (mn(e) if lvl(e) >= lvl(t) else f"({mn(e)})")
    if k == "idx":
        b = t[1]
        bs = mn(b) if lvl(b) >= lvl(t) else f"({mn(b)})"
        return f"{bs}[{mn(t[2])}]"
    if k == "call":
        b = t[1]
        bs = mn(b) if lvl(b) >= lvl(t) else f"({mn(b)})"
        return f"{bs}({mn(t[2])})"
    if k == "asg":
        # right to left: the value may itself be an assignment without parentheses
        return f"{mn_target(t[1])} = {mn(t[2])}"


def mn_target(t):
    if t[0] == "idx":
        return mn(t)
    return mn(t)


LEAVES = [("lit", "2"), ("lit", "3"), ("lit", "5"), ("lit", "7"), ("lit", "1"), ("lit", "x"), ("lit", "y"), ("lit", "true"), ("lit", "false")]
PRELUDE = "let obs = [];\nlet a = [10, 20, 30, 40, 50, 60, 70, 80];\nfn f(p) { p }\nlet x = 2;\nlet y = 3;\n"


def program(expr_text):
    return PRELUDE + f"push(obs, {expr_text});\nx * 100 + y\n"


def rand_tree(rng, depth):
    if depth == 0 or rng.random() < 0.25:
        return rng.choice(LEAVES)
    r = rng.random()
    if r < 0.62:
        return ("bin", rng.choice(BINOPS), rand_tree(rng, depth - 1), rand_tree(rng, depth - 1))
    if r < 0.8:
        return ("un", rng.choice(PREFIX), rand_tree(rng, depth - 1))
    if r < 0.87:
        return ("idx", rng.choice([("lit", "a"), ("bin", "+", ("lit", "a"), ("lit", "a"))]), rand_tree(rng, depth - 1))
    if r < 0.94:
        return ("call", ("lit", "f"), rand_tree(rng, depth - 1))
    tgt = rng.choice([("lit", "x"), ("lit", "y"), ("idx", ("lit", "a"), rng.choice(LEAVES[:4]))])
    return ("asg", tgt, rand_tree(rng, depth - 1))


def trees(ctx):
    rng = ctx.rng
    out = []
    A, B, C = ("lit", "2"), ("lit", "3"), ("lit", "5")
    for o1, o2 in itertools.product(BINOPS, BINOPS):
        out.append(("pair-left", ("bin", o2, ("bin", o1, A, B), C)))
        out.append(("pair-right", ("bin", o1, A, ("bin", o2, B, C))))
    for u, o in itertools.product(PREFIX, BINOPS):
        out.append(("prefix-binary", ("bin", o, ("un", u, A), B)))
        out.append(("prefix-binary", ("un", u, ("bin", o, A, B))))
        out.append(("prefix-binary", ("bin", o, A, ("un", u, B))))
    for u in PREFIX:
        out.append(("prefix-postfix", ("un", u, ("idx", ("lit", "a"), A))))
        out.append(("prefix-postfix", ("idx", ("lit", "a"), ("un", u, A))))
        out.append(("prefix-postfix", ("un", u, ("call", ("lit", "f"), A))))
        out.append(("prefix-postfix", ("call", ("lit", "f"), ("un", u, A))))
    for o in BINOPS:
        out.append(("postfix", ("idx", ("lit", "a"), ("bin", o, A, B))))
        out.append(("postfix", ("bin", o, ("idx", ("lit", "a"), A), B)))
        out.append(("postfix", ("bin", o, A, ("call", ("lit", "f"), B))))
        out.append(("postfix", ("call", ("lit", "f"), ("bin", o, A, B))))
        out.append(("assign", ("asg", ("lit", "x"), ("bin", o, A, B))))
        out.append(("assign", ("bin", o, ("asg", ("lit", "x"), A), B)))
        out.append(("assign", ("bin", o, A, ("asg", ("lit", "x"), B))))
    out.append(("assign", ("asg", ("lit", "x"), ("asg", ("lit", "y"), ("lit", "7")))))
    out.append(("assign", ("asg", ("idx", ("lit", "a"), A), ("asg", ("lit", "y"), ("lit", "7")))))
    # depth <= 3 over one representative per precedence level
    for o1, o2, o3 in itertools.product(REPS, REPS, REPS):
        out.append(("depth3", ("bin", o1, ("bin", o2, A, B), ("bin", o3, C, ("lit", "7")))))
        if ctx.thorough() or rng.random() < 0.3:
            out.append(("depth3", ("bin", o1, A, ("bin", o2, B, ("bin", o3, C, ("lit", "7"))))))
            out.append(("depth3", ("bin", o1, ("bin", o2, ("bin", o3, A, B), C), ("lit", "7"))))
    for _ in range(ctx.scale(2500, 300000)):
        out.append(("random", rand_tree(rng, 4)))
    return out


def cases(ctx):
    ts = trees(ctx)
    mins = [program(mn(t)) for _, t in ts]
    fulls = [program(full(t)) for _, t in ts]
    lines = lang_lines(ctx, mins, ast_sources=fulls)
    # the real parser's AST of the minimal text must be the AST of the full text
    same = []
    if ctx.harness:
        a1 = run_parallel(ctx.harness, ["parse " + s.encode().hex() for s in mins], timeout=60)
        a2 = run_parallel(ctx.harness, ["parse " + s.encode().hex() for s in fulls], timeout=60)
        same = [x == y for x, y in zip(a1, a2)]
    out = []
    for i, (l, (shape, t)) in enumerate(zip(lines, ts)):
        out.append(Case(l, (shape,), extra={"shape": shape, "min": mn(t), "full": full(t), "src": mins[i], "ast_same": same[i] if same else None}))
    return out


def judge(c):
    e = c.extra or {}
    if e.get("ast_same") is False:
        return False
    return None
