"""C11 — pure builtins satisfy their documented contracts and round-trip laws."""
import itertools

import wire
from vlib import Case

# every case of this module is a direct operator / builtin / codec application whose size the oracle computes:
# a "capacity overflow" panic is never excused here
MEMORY_EXCLUSION_IN_UNCONSTRAINED = False

RULE = ("op `builtin <name> <args>`: the builtin is called through the real VM (GetBuiltinFn/Call, so the error prefixing of call_builtin is exercised) and through the Lean model; "
        "Spec.Builtins (from docs/language/builtins.md) gives the documented value / 'a value, not an error' for documented kinds / runtime error naming the builtin otherwise; "
        "cases = every pure builtin x arity 0..3 x argument kinds x boundary and random values + the round-trip laws; non-trivial = value or named runtime error")
ASSUMPTIONS = ["float(str x) and the text of floats (Rust Display/parse, shortest round-trip) are not modelled: float(str(x)) == x is exercised on the implementation only (labelled as a test)",
               "String::from_utf8, char::from_u32, slice::sort (stable) are std behaviour assumed as modelled"]
PURE = ["len", "first", "last", "rest", "push", "pop", "get", "contains", "insert", "str", "int", "float", "char", "byte", "tolower", "toupper", "sort", "chars", "join",
        "encode_utf8", "decode_utf8", "is_error", "round"]
SCALARS = [0x7F, 0x80, 0x7FF, 0x800, 0xD7FF, 0xD800, 0xDFFF, 0xE000, 0xFFFF, 0x10000, 0x10FFFF, 0x110000, 255, 256, -1, 65, 97]


def canon(s):
    s = wire.expand_float_markers(s)
    t = s.split(" ")
    if t[0] == "rterr" and len(t) >= 2:
        return " ".join(t[:2])
    return s


def nontrivial(c):
    return c.impl.startswith("ok") or c.impl.startswith("rterr named=t")


def classify(c):
    t = c.line.split(" ")
    kinds = [a.split(":")[0].split("[")[0].split("{")[0] for a in t[2:]]
    return f"builtin={t[1]} argkinds=({','.join(kinds)})"


def model_skip(c):
    return False


def vals(rng, n=1):
    return [wire.rand_val(rng, 2) for _ in range(n)]


def cases(ctx):
    rng = ctx.rng
    out = []
    reps = {k: wire.pool(k) for k in wire.KINDS}
    allreps = [v for k in wire.KINDS for v in reps[k][:6]]
    for b in PURE:
        out.append(Case(f"builtin {b}", ("arity0",)))
        for v in [x for k in wire.KINDS for x in reps[k]]:
            out.append(Case(f"builtin {b} {v}", ("arity1",)))
        for v, w in itertools.product(allreps[::2], allreps[::3]):
            out.append(Case(f"builtin {b} {v} {w}", ("arity2",)))
        for _ in range(30):
            a = [rng.choice(allreps) for _ in range(3)]
            out.append(Case(f"builtin {b} {' '.join(a)}", ("arity3",)))
            a = [rng.choice(allreps) for _ in range(4)]
            out.append(Case(f"builtin {b} {' '.join(a)}", ("arity4",)))
    # conversions at the scalar-value boundaries
    for n in SCALARS + [wire.I64_MAX, wire.I64_MIN, 1 << 32, (1 << 32) + 65]:
        for b in ("char", "byte", "int", "float", "str"):
            out.append(Case(f"builtin {b} {wire.i(n)}", ("scalar-boundary",)))
            out.append(Case(f"builtin {b} {wire.d(float(n))}", ("scalar-boundary",)))
    # int(str(n)) == n, str/int on decimal text
    for _ in range(ctx.scale(1500, 60000)):
        n = wire.rand_int(rng)
        out.append(Case(f"builtin str {wire.i(n)}", ("int-str",)))
        out.append(Case(f"builtin int {wire.s(str(n))}", ("int-str",)))
    for t in ["", "+", "-", "+5", "-0", "007", " 1", "1 ", "1_000", "9223372036854775808", "-9223372036854775809", "0x10", "1e3", "１２", "--1", "+-1", "12a"]:
        out.append(Case(f"builtin int {wire.s(t)}", ("int-parse",)))
    # utf-8 round trips, chars/join
    strs = wire.STRS + ["\0", "a\0b", "߿ࠀ￿\U00010000\U0010ffff", "ß", "𝄞x"] + ["".join(chr(rng.choice([rng.randint(1, 0x7f), rng.randint(0x80, 0x7ff), rng.randint(0x800, 0xd7ff), rng.randint(0xe000, 0xffff), rng.randint(0x10000, 0x10ffff)])) for _ in range(rng.randint(0, 6))) for _ in range(ctx.scale(300, 20000))]
    for t in strs:
        out.append(Case(f"builtin encode_utf8 {wire.s(t)}", ("utf8",)))
        bs = wire.a(*[wire.b(x) for x in t.encode("utf-8")])
        out.append(Case(f"builtin decode_utf8 {bs}", ("utf8",)))
        out.append(Case(f"builtin chars {wire.s(t)}", ("chars-join",)))
        cs = wire.a(*[wire.c(ch) for ch in t])
        out.append(Case(f"builtin join {cs}", ("chars-join",)))
        out.append(Case(f"builtin join {cs} {wire.s(', ')}", ("chars-join",)))
        out.append(Case(f"builtin join {cs} {wire.c('-')}", ("chars-join",)))
        out.append(Case(f"builtin len {wire.s(t)}", ("len",)))
        out.append(Case(f"builtin tolower {wire.s(t)}", ("case",)))
        out.append(Case(f"builtin toupper {wire.s(t)}", ("case",)))
    # join: elements equal to the delimiter, empty elements, delimiters of several characters, at the ends and in the middle
    for _ in range(ctx.scale(200, 8000)):
        d = rng.choice([",", "-", "ab", ", ", "", "é", "--"])
        atoms = [d, d, "", "a", "b", d[:1], d + d, "x" + d, d + "x"]
        items = [rng.choice(atoms) for _ in range(rng.randint(0, 5))]
        if rng.random() < 0.6:
            items.append(d)                      # the last element IS the delimiter
        elems = [wire.c(t) if len(t) == 1 and rng.random() < 0.5 else wire.s(t) for t in items]
        dl = wire.c(d) if len(d) == 1 and rng.random() < 0.5 else wire.s(d)
        out.append(Case(f"builtin join {wire.a(*elems)} {dl}", ("join-delims",)))
    # get: every index around the ends of the array, negative ones included ("no element at the index": null)
    for n in (0, 1, 3, 8):
        arr = wire.a(*[wire.i(10 * (k + 1)) for k in range(n)])
        for idx in list(range(-n - 2, n + 2)) + [wire.I64_MIN, wire.I64_MAX, -(2 ** 32), 2 ** 32, -(2 ** 63) + 1]:
            out.append(Case(f"builtin get {arr} {wire.i(idx)}", ("get-index",)))
    # invalid UTF-8 of every rejection class
    bad = [[0x80], [0xc0, 0x80], [0xc2], [0xe0, 0x80, 0x80], [0xed, 0xa0, 0x80], [0xf0, 0x80, 0x80, 0x80], [0xf4, 0x90, 0x80, 0x80], [0xf5, 0x80, 0x80, 0x80], [0xff], [0x61, 0xe2, 0x82], [0xe2, 0x28, 0xa1]]
    for bsq in bad:
        out.append(Case(f"builtin decode_utf8 {wire.a(*[wire.b(x) for x in bsq])}", ("utf8-invalid",)))
    out.append(Case(f"builtin decode_utf8 {wire.a(wire.b(65), wire.i(66))}", ("utf8-invalid",)))
    # sort: comparable arrays of each class, with duplicates, mixed int/float, long arrays
    for _ in range(ctx.scale(600, 30000)):
        cls = rng.choice(["int", "num", "str", "char", "byte", "bool", "mixed"])
        n = rng.choice([0, 1, 2, 3, 5, 8, 20]) if rng.random() < 0.95 else ctx.scale(300, 10000)
        if cls == "int":
            xs = [wire.i(rng.randint(-5, 5) if rng.random() < 0.7 else wire.rand_int(rng)) for _ in range(n)]
        elif cls == "num":
            xs = [rng.choice([wire.i(rng.randint(-3, 3)), wire.d(rng.choice([-1.5, 0.0, -0.0, 1.0, 2.5, float("inf"), float("-inf")]))]) for _ in range(n)]
        elif cls == "str":
            xs = [wire.s(rng.choice(wire.STRS)) for _ in range(n)]
        elif cls == "char":
            xs = [wire.c(rng.choice(wire.CHARS)) for _ in range(n)]
        elif cls == "byte":
            xs = [wire.b(rng.choice(wire.BYTES)) for _ in range(n)]
        elif cls == "bool":
            xs = [rng.choice([wire.TRUE, wire.FALSE]) for _ in range(n)]
        else:
            xs = [wire.rand_val(rng, 1) for _ in range(min(n, 6))]
        out.append(Case(f"builtin sort {wire.a(*xs)}", ("sort-" + cls,)))
    out.append(Case(f"builtin sort {wire.a(wire.d(float('nan')))}", ("sort-nan",)))
    out.append(Case(f"builtin sort {wire.a(wire.i(1), wire.d(float('nan')), wire.i(0))}", ("sort-nan",)))
    # round
    for f, n in itertools.product([0.0, 1.5, 2.5, -2.5, 3.14159, 1e15, 1e300, float("inf"), float("nan"), 0.005, 123.456], [0, 1, 2, 3, 5, 15, 22, -1, -2, 100, 400, -400, 1000, wire.I64_MAX, wire.I64_MIN]):
        out.append(Case(f"builtin round {wire.d(f)} {wire.i(n)}", ("round",)))
    # a key that IS present, whatever its value (null, falsey values included): contains is about the key, get about the value
    for kk in (wire.s("k"), wire.i(1), wire.d(1.0), wire.c("c"), wire.b(7), wire.TRUE, wire.NULL, wire.a(wire.i(1))):
        for vv in (wire.NULL, wire.i(0), wire.FALSE, wire.s(""), wire.a(), wire.i(5)):
            mp = wire.m((wire.s("other"), wire.i(9)), (kk, vv))
            for line in (f"contains {mp} {kk}", f"get {mp} {kk}", f"insert {mp} {kk} {wire.i(3)}", f"contains {mp} {wire.s('absent')}", f"get {mp} {wire.s('absent')}", f"len {mp}"):
                out.append(Case("builtin " + line, ("present-key",)))
    # containers: push/pop/get/insert/contains/first/last/rest on random arrays and maps
    for _ in range(ctx.scale(800, 30000)):
        arr = wire.a(*[wire.rand_val(rng, 1) for _ in range(rng.randint(0, 4))])
        keys = ["null", "bool", "int", "float", "byte", "char", "str"]
        mp = wire.m(*[(wire.rand_val(rng, 0, keys), wire.rand_val(rng, 1)) for _ in range(rng.randint(0, 3))])
        v = wire.rand_val(rng, 1)
        k = wire.rand_val(rng, 0, keys)
        for line in (f"push {arr} {v}", f"pop {arr}", f"first {arr}", f"last {arr}", f"rest {arr}", f"len {arr}", f"get {arr} {wire.i(rng.randint(-1, 4))}",
                     f"get {mp} {k}", f"contains {mp} {k}", f"insert {mp} {k} {v}", f"len {mp}", f"str {arr}", f"is_error {v}"):
            out.append(Case("builtin " + line, ("containers",)))
    return out
