"""C09 — operators implement a consistent numeric and typing model."""
import itertools

import wire
from vlib import Case, lang_lines

# every case of this module is a direct operator / builtin / codec application whose size the oracle computes:
# a "capacity overflow" panic is never excused here
MEMORY_EXCLUSION_IN_UNCONSTRAINED = False

RULE = ("ops `op <Operator> <l> <r>` / `un <op> <v>`: the operator opcode is executed by the real VM on the two constants and by the Lean model; "
        "Spec.Ops (written from the statement) gives the demanded value / runtime error / unconstrained; cases = every operator x every ordered pair of "
        "operand kinds x boundary values (exhaustive over the boundary pools) + random 64-bit operands; non-trivial = the implementation returned a value or a runtime error")
ASSUMPTIONS = ["IEEE-754 primitives of Rust f64 and Lean Float (both hardware doubles) agree; fmod is computed exactly in the model (P2sh.fmod)",
               "unconstrained by the statement (oracle silent, model-vs-implementation still compared): integer*string, relational and bitwise operators on bytes, unary - and ~ on bytes, == on containers/functions"]
OPS = ["Add", "Sub", "Mul", "Div", "Mod", "Equal", "NotEqual", "Greater", "GreaterEq", "And", "Or", "Xor", "ShiftLeft", "ShiftRight"]
UNS = ["Minus", "Bang", "Not"]

canon = wire.canon_rterr


def model_skip(c):
    # a repetition beyond 16 MiB: the memory exclusion — the implementation may panic, abort or even succeed
    return c.model == "MEM-EXCLUDED"



def nontrivial(c):
    return c.impl.startswith(("ok", "rterr"))


def classify(c):
    t = c.line.split(" ")
    if t[0] == "eval":
        return "same-object " + (c.extra or {}).get("v", "?")
    def kind(v):
        return v.split(":")[0].split("[")[0].split("{")[0]
    if t[0] == "op":
        return f"op={t[1]} kinds=({kind(t[2])},{kind(t[3])})"
    return f"un={t[1]} kind={kind(t[2])}"


# both operands of a comparison are ONE object (a variable compared with itself, an alias, a parameter used twice): the result
# must be what the operator gives for two equal values of that kind — in particular NaN != NaN also for the same NaN
SAME_VALUES = ["inf - inf", "0.0", "-0.0", "0", "1", "-1", "9223372036854775807", "1.5", "inf", "-inf", "byte(7)", "'c'", "\"\"", "\"ab\"", "true", "false", "null"]


def same_object_programs():
    out = []
    for v in SAME_VALUES:
        numeric = not v.startswith(("'", "\"", "true", "false", "null"))
        body = ["let obs = [];", "let inf = 1e308 * 10.;", f"let n = {v};", "let m = n;",
                "fn same(x) { return x == x; }", "fn diff(x) { return x != x; }", "fn two(x, y) { return [x == y, x != y]; }",
                "push(obs, n == n);", "push(obs, n != n);", "push(obs, m == n);", "push(obs, !(n == n));", "push(obs, same(n));", "push(obs, diff(n));", "push(obs, two(n, n));",
                "push(obs, if n == n { 1 } else { 2 });"]
        if numeric and not v.startswith("byte"):
            body += ["push(obs, n >= n);", "push(obs, n <= n);", "push(obs, n > n);", "push(obs, n < n);", "push(obs, (n == n) == (n >= n && n <= n));"]
        body.append("0")
        out.append((v, "\n".join(body) + "\n"))
    return out


def cases(ctx):
    out = []
    rng = ctx.rng
    progs = same_object_programs()
    for (v, src), line in zip(progs, lang_lines(ctx, [p[1] for p in progs])):
        out.append(Case(line, ("same-object",), extra={"src": src, "v": v}))
    small = {k: wire.pool(k) for k in wire.KINDS}
    # every operator x every ordered kind pair x pools (numeric pools pairwise-exhaustive)
    for op in OPS:
        for ka, kb in itertools.product(wire.KINDS, wire.KINDS):
            pa, pb = small[ka], small[kb]
            numeric = ka in ("int", "float", "byte") and kb in ("int", "float", "byte")
            if not numeric:
                pa, pb = pa[:5], pb[:5]
            for x in pa:
                for y in pb:
                    out.append(Case(f"op {op} {x} {y}", ("kindpair",)))
    for op in UNS:
        for k in wire.KINDS:
            for x in small[k]:
                out.append(Case(f"un {op} {x}", ("unary",)))
    # random 64-bit / float operands
    n = ctx.scale(6000, 400000)
    for _ in range(n):
        op = rng.choice(OPS)
        r = rng.random()
        if r < 0.5:
            x, y = wire.i(wire.rand_int(rng)), wire.i(wire.rand_int(rng))
        elif r < 0.7:
            x, y = wire.d(wire.rand_float(rng)), wire.i(wire.rand_int(rng))
            if rng.random() < 0.5:
                x, y = y, x
        elif r < 0.85:
            x, y = wire.d(wire.rand_float(rng)), wire.d(wire.rand_float(rng))
        else:
            x, y = wire.rand_val(rng), wire.rand_val(rng)
        out.append(Case(f"op {op} {x} {y}", ("random",)))
    for _ in range(n // 10):
        out.append(Case(f"un {rng.choice(UNS)} {wire.rand_val(rng)}", ("random-unary",)))
    return out
