"""C01 — scanning, parsing and compiling are total on every source text."""
import itertools

import gen_lang
from vlib import Case

RULE = ("ops `scan` (real scanner vs the Lean scanner model, token by token), `compile` (scan -> parse -> compile in-process under catch_unwind with a watchdog): "
        "bounded-exhaustive over all strings of length <= 3 (quick) / 4 (thorough) from a 31-character alphabet chosen to hit every scanner branch, all token sequences of "
        "length <= 3 over every token kind and <= 5 over a 14-kind core, random token soup, and grammar-derived programs with random deletions/insertions/duplications; "
        "op `pprog` (real parser vs the Lean program-level Pratt-parser model: same statement list, or both 'an error was reported', or both HANG) on grammar-derived statement programs, "
        "their one-token mutants, token soup over the statement/expression alphabet and fixed edge cases; "
        "oracle = no panic, no hang; non-trivial = the text produced tokens / an AST / bytecode or diagnostics")
ASSUMPTIONS = ["char::is_alphabetic / is_alphanumeric outside ASCII are approximated in the scanner model by explicit ranges; the correspondence uses only characters inside them",
               "the gate 'a program with diagnostics is not executed' is exercised end-to-end by the C24 engine (stdout must stay empty when stderr carries diagnostics)"]
HARNESS_TIMEOUT = 60
ALPHABET = list("'\"b0xoe.=<>&|/#_a1-+(){}[]:;,\n") + ["é", " "]
TOKENS = ["x", "y", "1", "0x1", "0o7", "0b1", "1.5", "'a'", "b'a'", '"s"', "=", "+", "-", "*", "/", "%", "!", "&&", "||", "<", "<=", ">", ">=", "==", "!=", "=>", "&", "|", "^", "~", "<<", ">>",
          ",", ":", ";", "(", ")", "{", "}", "[", "]", "$", "fn", "let", "true", "false", "if", "else", "return", "map", "loop", "while", "break", "continue", "..", "..=", "match", "@", "struct", ".", "end", "null", "_",
          "stdin", "lbl:", "'", "b'", "0x", "1e", "\"", "#c\n", "//c\n", "\n", "\"\"", "''", "b''"]
CORE = ["x", "1", "0x1", "=", "(", ")", "{", "}", "[", "]", ",", ";", ":", "let"]


BINARY_PROFILES = ["dev"]


def hexs(s):
    return s.encode("utf-8").hex()


# ---- end to end: "a program for which diagnostics were reported is not executed" (the gate lives in main.rs)
GATE_PREFIX = 'puts("@@RAN");\n'
GATE_BAD = ["let t = 1 + ;", "[", ")", "let = 3;", "1 +", "fn (", "let t = 1 + ;\nlet u = * 2;", "[ ) ]", "undefined_q;", "break;", "return 1;", "let a = 1; a = ;",
            "match 1 { 1 => 2, \"a\" => 3 }", "x = 1;", "1 = 2;", "}", "if true { puts(1) ", "'ab'", "\"unterminated", "0x", "let t = 1 +\n;\nputs(2);", "@ 1 +"]
GATE_GOOD = ["let t = 1 + 2;", "", "puts(\"two\");", "fn f() { 1 } f();"]


def run_gate(exe, scratch, idx, c):
    import os, subprocess
    path = os.path.join(scratch, f"g{idx}.p2")
    with open(path, "w", encoding="utf-8") as f:
        f.write(bytes.fromhex(c.line.split(" ")[1]).decode("utf-8"))
    try:
        p = subprocess.run([exe, path], stdin=subprocess.DEVNULL, stdout=subprocess.PIPE, stderr=subprocess.PIPE, timeout=30)
    except subprocess.TimeoutExpired:
        return "HANG"
    err = p.stderr.decode("utf-8", "replace")
    if "panicked" in err:
        return "PANIC " + err[:160].encode("utf-8").hex()
    if p.returncode < 0 or p.returncode in (101, 134, 139):
        return f"ABORT({p.returncode})"
    diag = ("parse error" in err) or ("compile error" in err) or ("failed to parse" in err)
    return f"gate diag={'t' if diag else 'f'} ran={'t' if b'@@RAN' in p.stdout else 'f'}"


def run_impl(ctx, cases):
    import concurrent.futures as cf
    import vlib
    outs = [None] * len(cases)
    hidx = [k for k, c in enumerate(cases) if "e2e-gate" not in c.tags and "pfull" not in c.tags]
    for k, c in enumerate(cases):
        if "pfull" in c.tags:
            outs[k] = "same"
    hout = vlib.run_parallel(ctx.harness, [cases[k].line for k in hidx], timeout=HARNESS_TIMEOUT, label="harness") if ctx.harness else ["NOHARNESS"] * len(hidx)
    for k, o in zip(hidx, hout):
        outs[k] = o
    gidx = [k for k, c in enumerate(cases) if "e2e-gate" in c.tags]
    exe = ctx.p2sh.get("dev")
    if not exe:
        for k in gidx:
            outs[k] = "NOHARNESS"
    else:
        scratch = ctx.mkscratch()
        with cf.ThreadPoolExecutor(max_workers=16) as ex:
            for k, o in zip(gidx, ex.map(lambda k: run_gate(exe, scratch, k, cases[k]), gidx)):
                outs[k] = o
    return outs


def judge(c):
    if "e2e-gate" not in c.tags:
        return None
    if not c.impl.startswith("gate "):
        return False
    # either the program ran or diagnostics were reported — never both
    return c.impl in ("gate diag=t ran=f", "gate diag=f ran=t")


def canon(s):
    return s


def nontrivial(c):
    return c.impl.startswith(("toks", "bc", "cerr", "perr", "ok (prog", "gate ")) or (c.impl == "same" and c.model == "same")


def classify(c):
    return "crash " + c.line.split(" ")[0]


def model_skip(c):
    # `scan`: scanner model; `pprog`: program-level Pratt-parser model (lean/P2sh/Model/Parser.lean, Props/C01Parse.lean)
    return not c.line.startswith(("scan ", "pprog ", "pfull "))


def mutate(rng, src):
    toks = src.replace("\n", " \n ").split(" ")
    for _ in range(rng.randint(1, 3)):
        if not toks:
            break
        r = rng.random()
        i = rng.randrange(len(toks))
        if r < 0.4:
            del toks[i]
        elif r < 0.7:
            toks.insert(i, rng.choice(TOKENS))
        elif r < 0.85:
            toks.insert(i, toks[i])
        else:
            toks[i] = rng.choice(TOKENS)
    return " ".join(toks)


# ---- op `pprog`: the program-level parser model against the real parser (statement list or "an error was reported")
PP_ATOMS = ["1", "2", "x", "y", "f", "true", "false"]
PP_BIN = ["+", "-", "*", "<", "==", "&&", "||", "|", "<<"]
PP_TOKENS = PP_ATOMS + PP_BIN + ["(", ")", "[", "]", "{", "}", ",", ";", "=", "!", "-", "let", "return", "while", "loop", "break", "continue", "fn", "if", "else",
                               "..", "lbl:", ":", "@", "null", "\n"]


def pp_expr(rng, d):
    if d <= 0 or rng.random() < 0.3:
        return rng.choice(PP_ATOMS)
    r = rng.random()
    if r < 0.35:
        return f"{pp_expr(rng, d - 1)} {rng.choice(PP_BIN)} {pp_expr(rng, d - 1)}"
    if r < 0.45:
        return rng.choice(["!", "-"]) + pp_expr(rng, d - 1)
    if r < 0.55:
        return f"({pp_expr(rng, d - 1)})"
    if r < 0.65:
        return f"f({', '.join(pp_expr(rng, d - 1) for _ in range(rng.randint(0, 3)))})"
    if r < 0.7:
        return f"x[{pp_expr(rng, d - 1)}]"
    if r < 0.78:
        return f"x = {pp_expr(rng, d - 1)}"
    if r < 0.9:
        s = f"if {pp_expr(rng, d - 1)} {pp_block(rng, d - 1)}"
        k = rng.random()
        if k < 0.4:
            s += f" else {pp_block(rng, d - 1)}"
        elif k < 0.6:
            s += f" else if {pp_expr(rng, d - 1)} {pp_block(rng, d - 1)} else {pp_block(rng, d - 1)}"
        return s
    return f"fn({', '.join(rng.sample(['a', 'b', 'c'], rng.randint(0, 3)))}) {pp_block(rng, d - 1)}"


def pp_block(rng, d):
    return "{ " + " ".join(pp_stmt(rng, d) for _ in range(rng.randint(0, 3))) + " }"


def pp_stmt(rng, d):
    r = rng.random()
    semi = rng.choice([";", ";", "\n", ""])
    if r < 0.2:
        return f"let {rng.choice(['x', 'y', 'z'])} = {pp_expr(rng, d)}{semi}"
    if r < 0.5:
        return f"{pp_expr(rng, d)}{semi}"
    if r < 0.58:
        return f"return {pp_expr(rng, d)}{semi}" if rng.random() < 0.7 else f"return{rng.choice([';', ''])}"
    if r < 0.68:
        return f"while {pp_expr(rng, d - 1)} {pp_block(rng, d - 1)}"
    if r < 0.73:
        return f"loop {pp_block(rng, d - 1)}"
    if r < 0.8:
        return rng.choice(["break", "continue"]) + rng.choice(["", " lbl"]) + rng.choice([";", ""])
    if r < 0.9:
        return f"fn {rng.choice(['g', 'h'])}({', '.join(rng.sample(['a', 'b', 'c'], rng.randint(0, 3)))}) {pp_block(rng, d - 1)}"
    return pp_block(rng, d - 1)


def pp_program(rng):
    return "\n".join(pp_stmt(rng, rng.choice([1, 2, 2, 3])) for _ in range(rng.randint(1, 4)))


PP_FIXED = ["", ";", "let x = 1", "let x = 1;", "let = 1", "let x 1", "let x =", "let x = ;", "return", "return;", "return 1", "return }", "{ }", "{", "}", "{ 1", "{ 1 }", "{ { } }",
            "while x { }", "while { }", "while x", "while x 1", "loop { break; }", "loop", "loop 1", "break", "break lbl;", "continue;", "continue lbl", "break 1",
            "fn g() { }", "fn g(a, b) { return a + b; }", "fn g(a,) { }", "fn g(1) { }", "fn g( { }", "fn g() 1", "fn g", "fn() { }", "fn(a) { a }", "fn(a) { a }(1)", "let h = fn(a, b) { a };",
            "fn", "fn(", "fn()", "fn() {", "if x { }", "if x { 1 } else { 2 }", "if x { 1 } else if y { 2 }", "if x { 1 } else if y { 2 } else { 3 }", "if x { } else 5", "if x 1", "if { }",
            "if x { 1 } + 2", "1 + if x { 1 } else { 2 }", "if x { 1 } else { 2 } = 3", "x = if y { 1 }", "if x { let y = 1; y }", "if x {", "if x { 1", "if x { 1 } else {", "if x { 1 } else",
            "let f = fn(x) { if x { return 1; } 2 };", "while x < 3 { x = x + 1; }", "1; 2; 3", "1 2", "x y", "let x = 1 let y = 2", "lbl: while x { }", "lbl: 1", "@ x { }", "x: 1",
            "a ! b", "a ~ b", "1 true", "let x = fn() { };\nx()", "if (x) { y }", "if x == 1 { y } else { z }", "{ x = 1 }", "fn g() { fn h() { } }", "let let = 1", "return return", "return 1 2"]


PF_TOKENS = ["match", "x", "{", "}", "=>", ",", "_", "|", "1", "2", "..", "..=", "\"s\"", "'c'", "b'a'", "true", "lbl:", "loop", "while", "break", "continue", "lbl", "@", "end",
             "[", "]", "map", ":", "(", ")", ";", "let", "=", "+", "0x1f", "1.5", "null", "$", "fn", "if", "else", "return", "stdin"]
PP_FULL = ["match x { 1 => 2, _ => 3 }", "match x { 1 | 2 => { 1 } 3..5 => 2 }", "match x { _ => 1, _ => 2 }", "match x { \"a\"..\"c\" => 1 }", "match x { y => 1 }", "match x { 1 => 2",
           "a: loop { break a; }", "a: while x { continue a; }", "a: let y = 1;", "@ x { 1 }", "@ end { 1 }", "@ x", "@ end", "@ { 1 }", "@ x;", "[1, 2, [3]]", "[1, 2", "[,]", "map {1: 2, \"a\": [1]}",
           "map {1: }", "map 1", "map {", "let m = match 1 { 1..=2 | 5 => { let t = 1; t } };", "$1", "$x", "0xffffffffffffffffff", "0b102", "'ab'", "b''", "1.5.5", "stdin", "null", "_"]


def pprog_cases(ctx, programs):
    rng = ctx.rng
    srcs, tags = [], []
    for s in PP_FIXED:
        srcs.append(s); tags.append("pp-fixed")
    n = ctx.scale(2500, 80000)
    for _ in range(n):
        srcs.append(pp_program(rng)); tags.append("pp-program")
    for _ in range(n):
        srcs.append(" ".join(rng.choice(PP_TOKENS) for _ in range(rng.randint(1, 10)))); tags.append("pp-soup")
    for _ in range(n):
        toks = pp_program(rng).replace("\n", " \n ").split(" ")
        i = rng.randrange(len(toks))
        r = rng.random()
        if r < 0.35:
            del toks[i]
        elif r < 0.7:
            toks[i] = rng.choice(PP_TOKENS)
        else:
            toks.insert(i, rng.choice(PP_TOKENS))
        srcs.append(" ".join(toks)); tags.append("pp-mutant")
    for p in programs[:ctx.scale(300, 5000)]:
        srcs.append(p); tags.append("pp-lang")
    keep = [(s, t) for s, t in zip(srcs, tags) if s.strip()]
    # no AST is sent along (`@@ -`): the oracle of C01 is "ends without panic or hang"; what is compared is the model's
    # result with the real parser's (statement list / perr / HANG)
    return [Case(f"pprog {hexs(s)} @@ -", (t,), extra={"src": s}) for s, t in keep]


def cases(ctx):
    rng = ctx.rng
    out = []
    maxlen = ctx.scale(3, 4)
    for n in range(0, maxlen + 1):
        for t in itertools.product(ALPHABET, repeat=n):
            s = "".join(t)
            out.append(Case("compile " + hexs(s), ("short-string",)))
            if n <= 3:
                out.append(Case("scan " + hexs(s), ("short-string-scan",)))
    for n in range(1, 4):
        combos = itertools.product(TOKENS, repeat=n)
        if n == 3 and not ctx.thorough():
            combos = (tuple(rng.choice(TOKENS) for _ in range(3)) for _ in range(60000))
        for t in combos:
            out.append(Case("compile " + hexs(" ".join(t)), ("token-seq",)))
    # error recovery after a rejected assignment target: every literal kind as the target x right-hand sides whose token has an
    # empty or unusual literal x what follows (end of input, a statement keyword, a separator), also inside a function body
    targets = ["1", "1.5", "0x1", "'a'", "b'a'", "\"s\"", "\"\"", "true", "null", "[1]", "map {}", "(x)", "-x", "!x", "x()", "fn() {}", "_", "$1", "1..2"]
    rhss = ["\"\"", "\"", "''", "b''", "'", "1", "x", "", "=", "\"s\""]
    tails = ["", "\nlet m = 2;", " return x;", ";", " }", "\n\"\"", " ="]
    for tg in targets:
        for rh in rhss:
            for tl in tails:
                out.append(Case("compile " + hexs(f"{tg} = {rh}{tl}"), ("assign-recovery",)))
                out.append(Case("compile " + hexs(f"fn(x) {{ {tg} = {rh}{tl} }}"), ("assign-recovery",)))
    for b in GATE_BAD + GATE_GOOD:
        out.append(Case("compile " + hexs(GATE_PREFIX + b + "\n"), ("e2e-gate",)))
        out.append(Case("compile " + hexs(b + "\n" + GATE_PREFIX), ("e2e-gate",)))
    for _ in range(ctx.scale(150, 3000)):
        # (no loops, no input: a text that happens to be a valid non-terminating or blocking program is not this engine's business)
        gate_tokens = [x for x in TOKENS if x not in ("loop", "while", "stdin", "fn", "@")]
        t = " ".join(rng.choice(gate_tokens) for _ in range(rng.randint(1, 8)))
        out.append(Case("compile " + hexs(GATE_PREFIX + t + "\n"), ("e2e-gate",)))
    core5 = itertools.product(CORE, repeat=5)
    step = 1 if ctx.thorough() else 9
    for i, t in enumerate(core5):
        if i % step == 0:
            out.append(Case("compile " + hexs(" ".join(t)), ("core-seq",)))
    for _ in range(ctx.scale(30000, 500000)):
        t = [rng.choice(TOKENS) for _ in range(rng.randint(4, 14))]
        s = " ".join(t)
        out.append(Case("compile " + hexs(s), ("soup",)))
        if rng.random() < 0.3:
            out.append(Case("scan " + hexs(s), ("soup-scan",)))
    progs = gen_lang.programs(rng, ctx.scale(4000, 100000), max_stmts=8) + gen_lang.SPECIALS + gen_lang.FAULTY
    for p in progs:
        out.append(Case("scan " + hexs(p), ("program-scan",)))
        out.append(Case("compile " + hexs(p), ("program",)))
        for _ in range(3):
            out.append(Case("compile " + hexs(mutate(rng, p)), ("mutated-program",)))
    # deep nesting up to the bound of the property (64)
    for d in (1, 8, 32, 64):
        for o, c in (("(", ")"), ("[", "]"), ("{", "}"), ("if true {", "}"), ("fn() {", "}")):
            out.append(Case("compile " + hexs(o * d + "1" + c * d), ("nesting",)))
            out.append(Case("compile " + hexs(o * d + "1" + c * (d - 1)), ("nesting",)))
            out.append(Case("compile " + hexs(o * d), ("nesting",)))
    # degenerate constructs: empty bodies, empty literals, constructs missing their optional parts — in every position
    heads = ["match x {{{B}}}", "match 1 {{{B}}}", "if true {{{B}}}", "if true {{ 1 }} else {{{B}}}", "while false {{{B}}}", "loop {{ break; {B} }}", "fn f() {{{B}}}", "fn() {{{B}}}",
             "map {{{B}}}", "[{B}]", "{{{B}}}", "@ true {{{B}}}", "@ {{{B}}}", "@ end {{{B}}}", "f({B})", "match x {{ 1 => {{{B}}} }}", "match x {{ _ => {{{B}}} }}", "match x {{ 1 | 2 => {B} }}"]
    bodies = ["", " ", ";", ",", "_", "_ =>", "1 =>", "=>", "1 => ,", "..", "1..", "..2", "1..2 =>", "|", "1 |", "a:", "a: 1", ":"]
    for h in heads:
        for b in bodies:
            body = h.format(B=b)
            for wrap in ("{X}", "let v = {X};", "let x = 1; {X}", "fn g() {{ {X} }} g();", "puts({X});", "{X}; {X}"):
                out.append(Case("compile " + hexs(wrap.format(X=body)), ("degenerate",)))
    # the parser model's FULL tree (match, labels, filters, array / map literals, every literal kind) against the real
    # parser's: op `pfull` carries the real parser's AST (harness op `parse`) and answers `same` / `diff …`; the
    # implementation side of these lines is the constant `same`, so a `diff` is a broken tie
    from vlib import lang_lines
    fsrcs = list(progs[:ctx.scale(1500, 40000)]) + PP_FULL
    for _ in range(ctx.scale(1500, 40000)):
        fsrcs.append(mutate(rng, rng.choice(progs)))
    for _ in range(ctx.scale(1500, 40000)):
        fsrcs.append(" ".join(rng.choice(PF_TOKENS) for _ in range(rng.randint(1, 12))))
    fsrcs = [x for x in fsrcs if x.strip()]
    for l, x in zip(lang_lines(ctx, fsrcs, op="pfull"), fsrcs):
        out.append(Case(l, ("pfull",), extra={"src": x}))
    return out + pprog_cases(ctx, progs)
