"""C01 — scanning, parsing and compiling are total on every source text."""
import itertools

import gen_lang
from vlib import Case

RULE = ("ops `scan` (real scanner vs the Lean scanner model, token by token), `compile` (scan -> parse -> compile in-process under catch_unwind with a watchdog): "
        "bounded-exhaustive over all strings of length <= 3 (quick) / 4 (thorough) from a 31-character alphabet chosen to hit every scanner branch, all token sequences of "
        "length <= 3 over every token kind and <= 5 over a 14-kind core, random token soup, and grammar-derived programs with random deletions/insertions/duplications; "
        "oracle = no panic, no hang; non-trivial = the text produced tokens / an AST / bytecode or diagnostics")
ASSUMPTIONS = ["char::is_alphabetic / is_alphanumeric outside ASCII are approximated in the scanner model by explicit ranges; the correspondence uses only characters inside them",
               "the gate 'a program with diagnostics is not executed' is exercised end-to-end by the C24 engine (stdout must stay empty when stderr carries diagnostics)"]
HARNESS_TIMEOUT = 60
ALPHABET = list("'\"b0xoe.=<>&|/#_a1-+(){}[]:;,\n") + ["é", " "]
TOKENS = ["x", "y", "1", "0x1", "0o7", "0b1", "1.5", "'a'", "b'a'", '"s"', "=", "+", "-", "*", "/", "%", "!", "&&", "||", "<", "<=", ">", ">=", "==", "!=", "=>", "&", "|", "^", "~", "<<", ">>",
          ",", ":", ";", "(", ")", "{", "}", "[", "]", "$", "fn", "let", "true", "false", "if", "else", "return", "map", "loop", "while", "break", "continue", "..", "..=", "match", "@", "struct", ".", "end", "null", "_",
          "stdin", "lbl:", "'", "b'", "0x", "1e", "\"", "#c\n", "//c\n", "\n"]
CORE = ["x", "1", "0x1", "=", "(", ")", "{", "}", "[", "]", ",", ";", ":", "let"]


def hexs(s):
    return s.encode("utf-8").hex()


def canon(s):
    return s


def nontrivial(c):
    return c.impl.startswith(("toks", "bc", "cerr", "perr"))


def classify(c):
    return "crash " + c.line.split(" ")[0]


def model_skip(c):
    return not c.line.startswith("scan ")


def mutate(rng, src):
    toks = src.replace("\n", " \n ").split(" ")
    for _ in range(rng.randint(1, 3)):
        if not toks:
            break
        r = rng.random()
        i = rng.randrange(len(toks))
        if r < 0.4:
            del toks[i]
        elif r < 0.7:
            toks.insert(i, rng.choice(TOKENS))
        elif r < 0.85:
            toks.insert(i, toks[i])
        else:
            toks[i] = rng.choice(TOKENS)
    return " ".join(toks)


def cases(ctx):
    rng = ctx.rng
    out = []
    maxlen = ctx.scale(3, 4)
    for n in range(0, maxlen + 1):
        for t in itertools.product(ALPHABET, repeat=n):
            s = "".join(t)
            out.append(Case("compile " + hexs(s), ("short-string",)))
            if n <= 3:
                out.append(Case("scan " + hexs(s), ("short-string-scan",)))
    for n in range(1, 4):
        combos = itertools.product(TOKENS, repeat=n)
        if n == 3 and not ctx.thorough():
            combos = (tuple(rng.choice(TOKENS) for _ in range(3)) for _ in range(60000))
        for t in combos:
            out.append(Case("compile " + hexs(" ".join(t)), ("token-seq",)))
    core5 = itertools.product(CORE, repeat=5)
    step = 1 if ctx.thorough() else 9
    for i, t in enumerate(core5):
        if i % step == 0:
            out.append(Case("compile " + hexs(" ".join(t)), ("core-seq",)))
    for _ in range(ctx.scale(30000, 500000)):
        t = [rng.choice(TOKENS) for _ in range(rng.randint(4, 14))]
        s = " ".join(t)
        out.append(Case("compile " + hexs(s), ("soup",)))
        if rng.random() < 0.3:
            out.append(Case("scan " + hexs(s), ("soup-scan",)))
    progs = gen_lang.programs(rng, ctx.scale(4000, 100000), max_stmts=8) + gen_lang.SPECIALS + gen_lang.FAULTY
    for p in progs:
        out.append(Case("scan " + hexs(p), ("program-scan",)))
        out.append(Case("compile " + hexs(p), ("program",)))
        for _ in range(3):
            out.append(Case("compile " + hexs(mutate(rng, p)), ("mutated-program",)))
    # deep nesting up to the bound of the property (64)
    for d in (1, 8, 32, 64):
        for o, c in (("(", ")"), ("[", "]"), ("{", "}"), ("if true {", "}"), ("fn() {", "}")):
            out.append(Case("compile " + hexs(o * d + "1" + c * d), ("nesting",)))
            out.append(Case("compile " + hexs(o * d + "1" + c * (d - 1)), ("nesting",)))
            out.append(Case("compile " + hexs(o * d), ("nesting",)))
    return out
