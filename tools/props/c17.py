"""C17 — assigning a header field changes exactly that field."""
import wire
from vlib import Case
from props import pktlib as P

RULE = ("op `pkt <frame> <script>` with assignments through the real SetProp code: read, assign, read back, read the other properties of the layer, serialise, "
        "re-parse (R), read again; the spec (Lean) applies an accepted value to the field's RFC bit range of the captured bytes and to nothing else and demands every "
        "later read / serialisation to agree with those bytes; an out-of-range integer may either be refused (then nothing changes) or stored modulo 2^width — both "
        "outcomes are admissible alternatives; a value of the wrong kind, a malformed address and an assignment to `version` must be refused; "
        "distinct = distinct op line; non-trivial = at least one assignment was accepted")
NOTES = ["the model is the code after /repo commits aefd4e7 (TCP data offset / flags / urgent pointer written back, 4- and 8-bit setters) and 3aaa561 (20-bit flow label): "
         "set_cast_invalid, tcp_reparse, ipv6_reparse hold without exclusions",
         "the witness lines of the repaired findings in known_findings.json are run as regression inputs on every check"]
ASSUMPTIONS = ["after an assignment to a field that decides where or what the inner layers are (type / protocol / next header / IHL / data offset / length fields) "
               "nothing is demanded of the layers below it any more",
               "assigning to a layer-valued property, to payload, or through a name that disagrees with the type field is outside the statement: the rest of that "
               "script is unconstrained",
               "TCP flags: either only the eight control bits are written (what the code does: the reserved bits are kept) or the four reserved bits are cleared with them"]
HARNESS_TIMEOUT = 600
DRIVER_TIMEOUT = 900

spec_override, judge, classify = P.make_hooks("C17", "GSW")
canon = P.canon


def nontrivial(c):
    sc = P.script_of(c.line)
    got = c.impl.split(";")
    return any(s[0] == "S" and g.startswith("ok") for s, g in zip(sc, got))


HOSTS = {
    "packet": ["eth-ipv4-udp"],
    "eth": ["eth-ipv4-udp", "eth-arp"],
    "vlan": ["eth-vlan-ipv4-udp", "eth-vlan-vlan-ipv4-udp"],
    "ipv4": ["eth-ipv4-udp", "eth-vlan-ipv4-udp", "eth-ipv4(ihl=6)-udp"],
    "ipv6": ["eth-ipv6-udp"],
    "tcp": ["eth-ipv4-tcp", "eth-ipv6-tcp"],
    "udp": ["eth-ipv4-udp", "eth-ipv6-udp"],
}


def rand_mac(rng):
    return ":".join(f"{rng.getrandbits(8):02x}" for _ in range(6))


def rand_v4(rng):
    return ".".join(str(rng.choice([0, 1, 9, 10, 99, 100, 255, rng.getrandbits(8)])) for _ in range(4))


def rand_v6(rng):
    gs = [rng.choice([0, 1, 0xFFFF, 0xABC, rng.getrandbits(16)]) for _ in range(8)]
    return ":".join(f"{g:x}" for g in gs)


_POOL = {}


def pool(ctx, width, kind, rng):
    """a fixed sample of in-range values per field shape (for the random sequences)"""
    key = (width, kind)
    if key not in _POOL:
        _POOL[key] = in_range_values(ctx, width, kind, rng)[:60]
    return _POOL[key]


def in_range_values(ctx, width, kind, rng):
    if kind == "bool":
        return ["t", "f"]
    if kind == "mac":
        return [wire.s(rand_mac(rng)) for _ in range(ctx.scale(6, 200))] + [wire.s("00:00:00:00:00:00"), wire.s("FF:FF:FF:FF:FF:FF"), wire.s("0a:0B:0c:0D:0e:0F")]
    if kind == "v4":
        return [wire.s(rand_v4(rng)) for _ in range(ctx.scale(6, 200))] + [wire.s("0.0.0.0"), wire.s("255.255.255.255")]
    if kind == "v6":
        return [wire.s(rand_v6(rng)) for _ in range(ctx.scale(6, 200))] + [wire.s(x) for x in ("0:0:0:0:0:0:0:0", "ffff:ffff:ffff:ffff:ffff:ffff:ffff:ffff", "1::2", "::1", "1::", "::", "FE80::1:2", "1:2:3:4:5:6:7::", "::2:3:4:5:6:7:8")]
    if width <= 12 and (ctx.thorough() or width <= 6):
        vals = list(range(1 << width))
    else:
        top = (1 << width) - 1
        vals = sorted(set([0, 1, 2, top, top - 1, 1 << (width - 1), (1 << (width - 1)) - 1, 0x0102 & top, 0xA5A5A5A5 & top]
                          + list(range(0, top + 1, max(1, (top + 1) // 37)))[:40]
                          + [rng.randrange(top + 1) for _ in range(ctx.scale(12, 400))]))
    return [wire.i(v) for v in vals]


def bad_values(width, kind):
    if kind in ("mac", "v4", "v6"):
        texts = {"mac": ["00:11:22:33:44", "00:11:22:33:44:55:66", "00:11:22:33:44:1ff", ""],
                 "v4": ["1.2.3", "1.2.3.4.5", "1.2.3.256", "300.1.1.1", ""],
                 "v6": ["1:2:3:4:5:6:7", "1:2:3:4:5:6:7:8:9", "1::2::3", "1:2:3:4:5:6:7:10000", "1:2:3:4::5:6:7:8", ":1:2:3:4:5:6:7", "1:2:3:4:5:6:7:", ""]}[kind]
        return [wire.s(t) for t in texts] + [wire.i(5), wire.NULL, wire.TRUE]
    if kind == "bool":
        return [wire.i(0), wire.i(1), wire.i(2), wire.i(-1), wire.NULL, wire.s("t")]
    top = 1 << width
    return [wire.i(v) for v in (-1, top, top + 1, wire.I64_MIN, wire.I64_MAX, -top, 3 * top + 1)] + [wire.s("1"), wire.NULL, wire.TRUE, wire.d(1.0), wire.a()]


def scalar_props(layer):
    return [p for p in P.PROPS[layer] if p not in P.LAYER_PROPS]


def target_script(path, layer, prop, value, rng):
    base = path + "." if path else ""
    others = [p for p in scalar_props(layer) if p != prop]
    st = [f"G{base}{prop}", f"S{base}{prop}={value}", f"G{base}{prop}"]
    st += [f"G{base}{p}" for p in others]
    st += ["W", "R", f"G{base}{prop}"]
    st += [f"G{base}{p}" for p in rng.sample(others, min(3, len(others)))]
    return st


def cases(ctx):
    rng = ctx.rng
    out = []
    shapes = P.shapes()
    for layer, prop, width, kind in P.WRITABLE:
        for host in HOSTS[layer]:
            layers = shapes[host]
            names = P.path_of(layers)
            path = "" if layer == "packet" else ".".join(names[: names.index(layer) + 1])
            vals = in_range_values(ctx, width, kind, rng)
            if host != HOSTS[layer][0]:
                vals = vals[:: max(1, len(vals) // 12)]
            for v in vals:
                frame = P.build(layers, rng)
                hdr = [rng.getrandbits(32) for _ in range(4)] if layer == "packet" else None
                out.append(Case(P.pkt_line(frame, target_script(path, layer, prop, v, rng), hdr), ("in-range", f"{layer}.{prop}")))
            for v in bad_values(width, kind):
                frame = P.build(layers, rng)
                out.append(Case(P.pkt_line(frame, target_script(path, layer, prop, v, rng)), ("invalid", f"{layer}.{prop}")))
            # through $n as well
            if layer != "packet":
                frame = P.build(layers, rng)
                n = names.index(layer) + 1
                v = vals[len(vals) // 2]
                out.append(Case(P.pkt_line(frame, [f"S${n}.{prop}={v}", f"G${n}.{prop}", f"G{path}.{prop}", "W"]), ("dollar", f"{layer}.{prop}")))
    # read-only and non-existent properties
    for host, path, prop in (("eth-ipv4-udp", "eth.ipv4", "version"), ("eth-ipv6-udp", "eth.ipv6", "version")):
        for v in (wire.i(4), wire.i(6), wire.i(0)):
            frame = P.build(shapes[host], rng)
            out.append(Case(P.pkt_line(frame, [f"S{path}.version={v}", f"G{path}.version", "W"]), ("read-only", prop)))
    # sequences of assignments on one packet
    _POOL.clear()
    for _ in range(ctx.scale(3000, 60000)):
        host = rng.choice(["eth-ipv4-udp", "eth-vlan-ipv4-udp", "eth-ipv6-udp", "eth-ipv4-tcp", "eth-ipv6-tcp", "eth-vlan-vlan-ipv4-udp"])
        layers = shapes[host]
        names = P.path_of(layers)
        frame = P.build(layers, rng)
        steps = []
        touched = []
        nbad = 0
        for _ in range(rng.randint(2, 6)):
            layer, prop, width, kind = rng.choice([w for w in P.WRITABLE if w[0] in names or w[0] == "packet"])
            path = "" if layer == "packet" else ".".join(names[: names.index(layer) + 1]) + "."
            if rng.random() < 0.15 and nbad < 2:
                v = rng.choice(bad_values(width, kind))
                nbad += 1
            else:
                v = rng.choice(pool(ctx, width, kind, rng))
            steps.append(f"S{path}{prop}={v}")
            touched.append(f"G{path}{prop}")
            if rng.random() < 0.3:
                steps.append(touched[-1])
        steps += touched
        steps.append("W")
        if rng.random() < 0.5:
            steps.append("R")
            steps += touched
        out.append(Case(P.pkt_line(frame, steps), ("sequence", host)))
    # assignments the statement does not cover (model/implementation correspondence only)
    for _ in range(ctx.scale(300, 5000)):
        host = rng.choice(["eth-ipv4-udp", "eth-ipv4-tcp", "eth-vlan-ipv6-udp", "eth-arp"])
        layers = shapes[host]
        frame = P.build(layers, rng)
        names = P.path_of(layers)
        k = rng.randint(0, len(names) - 1)
        path = ".".join(names[: k + 1])
        v = rng.choice([wire.s("ab"), wire.i(7), wire.NULL, wire.TRUE, wire.b(9), wire.a(wire.b(1), wire.b(2)), wire.c("é"), wire.d(1.5), wire.a(wire.s("x"), wire.i(-1))])
        tgt = rng.choice([path, path + ".payload", path + "." + rng.choice(P.ALL_NAMES)]) if rng.random() < 0.8 else "payload"
        steps = [f"G{path}", f"S{tgt}={v}", f"G{tgt}", "W", f"G{path}.payload", "G$1", "G$2", "G$3", "W"]
        out.append(Case(P.pkt_line(frame, steps), ("uncovered", host)))
    return P.with_witnesses(ctx, out)
