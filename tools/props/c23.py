"""C23 — REPL lines accumulate state like one program; rejected lines have no effect."""
import concurrent.futures as cf
import subprocess

from props import c02
from vlib import Case, run_parallel

RULE = ("end-to-end through the real run_prompt loop (binary built with the scripted-line hook): random histories of 1-12 lines mixing definitions, redefinitions, function "
        "definitions, uses, lines with parse or compile errors (including ones that would redefine existing names, and errors inside function bodies) and lines failing at run time; "
        "a marker line delimits each line's stdout/stderr; the oracle is ReplSpec = the reference semantics folded over the accepted lines (each up to its first runtime error), "
        "rejected lines leaving the state unchanged; non-trivial = a history with at least one rejected or failing line followed by a use")
ASSUMPTIONS = ["dialoguer (terminal input, history, completion) is bypassed by the hook; the loop, the state carrying and the printing are the real run_prompt",
               "only program output (lines written by puts with the @@O prefix) is compared; the REPL's echo of the last value and the wording of diagnostics are not"]
BINARY_PROFILES = ["dev"]
NAMES = ["x", "y", "z", "first", "last", "time"]      # user bindings may reuse the names of builtins


def hx(s):
    return s.encode("utf-8").hex()


def nontrivial(c):
    if c.line.startswith("core2 "):
        return c.impl.startswith("code=")
    return any(t in c.impl for t in ("perr", "cerr", "rt:")) and "ok:" in c.impl


def canon(s):
    if s.startswith("line1"):
        return "line1"
    if s.startswith("code=") and " rterr" in s:
        return s[: s.index(" rterr") + 6]      # the line number of the failure is C13's business
    return s


TAIL_DEF = "[1][9]; let "


def classify(c):
    if c.line.startswith("core2 "):
        return "core2"
    want = c.spec[6:].split(";") if c.spec.startswith("steps ") else []
    got = c.impl.split(";")
    lines = (c.extra or {}).get("lines", [])
    for i, (w, g) in enumerate(zip(want, got)):
        if w != "-" and w != g and not (w.endswith("*") and g.startswith(w[:-1])):
            # a name defined by the unexecuted tail of an earlier line that failed at run time
            # (its signature: an earlier line that stopped with a runtime error also defines — `let` / `fn` — a name this line uses)
            import re
            earlier_tail = any(TAIL_DEF in l for l in lines[:i]) or any(
                got[j].startswith("rt") and any(re.search(r"\b" + re.escape(nm) + r"\b", lines[i]) for nm in re.findall(r"\b(?:let|fn)\s+([A-Za-z_][A-Za-z0-9_]*)", lines[j]))
                for j in range(min(i, len(got))))
            # (the uninitialised slot shows as a runtime error when it is operated on, as `null` when it is only printed)
            if earlier_tail and w.startswith("ok") and (g.startswith("rt") or "6e756c6c" in g):
                return "repl-unexecuted-tail-definition"
            return f"repl line-kind want={w.split(':')[0]} got={g.split(':')[0]}"
    return "repl"


def model_skip(c):
    if c.line.startswith("core2 "):
        # `last` (a stale stack slot) is not part of the model's output: compare the rest
        a = [x for x in c.impl.split(" ") if not x.startswith("last=")]
        b = [x for x in c.model.split(" ") if not x.startswith("last=")]
        return a == b
    return True


def gen_line(rng, defined, fns):
    r = rng.random()
    n = rng.choice(NAMES)
    if r < 0.2:
        defined.add(n)
        return f"let {n} = {rng.randint(1, 9)};"
    if r < 0.3 and defined:
        m = rng.choice(sorted(defined))
        defined.add(n)
        return f"let {n} = {m} * 10 + {rng.randint(0, 9)}; puts(\"@@O \", {n});"
    if r < 0.36 and defined:
        # a bare expression: the REPL echoes its value unless it is null (0 and false are echoed)
        m = rng.choice(sorted(defined))
        return rng.choice([f"{m}", f"{m} - {m}", f"{m} > 100", f"{m} + 1", f"{m} == {m}", "0", "false", "null", f"puts(\"@@O \", {m}); {m} * 0"])
    if r < 0.42 and defined:
        m = rng.choice(sorted(defined))
        return f"puts(\"@@O \", {m} + 1);"
    if r < 0.5 and defined:
        m = rng.choice(sorted(defined))
        return f"{m} = {m} + {rng.randint(1, 5)}; puts(\"@@O \", {m});"
    if r < 0.58:
        f = rng.choice(["f", "g"])
        fns.add(f)
        body = rng.choice(["a + 1", "a * 2", f"a + {rng.randint(1, 9)}"]) if not defined or rng.random() < 0.5 else f"a + {rng.choice(sorted(defined))}"
        return f"fn {f}(a) {{ {body} }}"
    if r < 0.66 and fns:
        return f"puts(\"@@O \", {rng.choice(sorted(fns))}({rng.randint(1, 9)}));"
    if r < 0.72:
        return rng.choice(["let = 5;", "let x 5;", "puts(\"@@O \", 1", "1 +", "fn (", "let y = ;", "x = = 2;"])
    if r < 0.755 and defined:
        # a line rejected by the compiler AFTER it defined, inside a nested block, a name that shadows an existing binding
        m = rng.choice(sorted(defined))
        return rng.choice([f"if {m} > 0 {{ let {m} = {m} * 5; {m} + nope_q }}", f"{{ let {m} = 5; nope_inner; }}", f"while false {{ let {m} = 1; {{ nope_deep; }} }}",
                           f"fn h9(a) {{ if a > 0 {{ let {m} = a; return nope_r; }} }}"])
    if r < 0.79 and defined:
        # … and a use of a binding inside a block (a stale block-level entry would be picked up here)
        m = rng.choice(sorted(defined))
        return rng.choice([f"if {m} > 0 {{ puts(\"@@O in \", {m} + 1); }}", f"{{ puts(\"@@O blk \", {m}); }}", f"{{ {{ {m} = {m} + 1; }} }} puts(\"@@O up \", {m});"])
    if r < 0.82:
        # compile errors, some of which would redefine an existing name or fail inside a function body
        return rng.choice([f"let {n} = nope_{rng.randint(0, 9)};", f"puts(\"@@O \", undefined_q);", "break;", "return 1;",
                           f"fn {rng.choice(['f', 'g', 'h'])}(a) {{ let {n} = 2; return nope_z; }}", f"let {n} = 1; let w = nope; puts(\"@@O \", {n});",
                           f"{{ let {n} = 5; nope_inner; }}"])
    if r < 0.86:
        # a line that defines a function (whose body holds its own literals) and then stops with a runtime error:
        # the definition was executed, later lines call it after adding constants of their own
        f = rng.choice(["f", "g", "h"])
        fns.add(f)
        k = rng.randint(1, 8)
        return f"fn {f}(a) {{ a + {111 * k} }} puts(\"@@O \", {f}({k})); {rng.choice(['[1][9];', '1 / 0;', 'len(1);'])}"
    if r < 0.92:
        k = rng.randint(1, 9)
        return rng.choice([f"puts(\"@@O \", {k}); 1 / 0; puts(\"@@O \", {k + 1});", f"let {n} = [1][5];", f"let {n} = {k}; [1][9]; let {rng.choice(NAMES)} = 0;",
                           f"puts(\"@@O \", {k}); len(1);", f"let q = {k}; q(1);"])
    if r < 0.96 and defined:
        m = rng.choice(sorted(defined))
        return f"if {m} > 3 {{ puts(\"@@O big \", {m}); }} else {{ puts(\"@@O small \", {m}); }}"
    return f"let arr = [1, 2]; push(arr, {rng.randint(3, 9)}); puts(\"@@O \", len(arr));"


def cases(ctx):
    rng = ctx.rng
    hist = []
    for _ in range(ctx.scale(300, 10000)):
        defined, fns = set(), set()
        lines = [gen_line(rng, defined, fns) for _ in range(rng.randint(1, 12))]
        # continued entries: several physical lines ending in a backslash are ONE entry whose text is the segments joined by
        # newlines — a comment at the end of a segment must not swallow the next one
        if rng.random() < 0.3 and len(lines) >= 2:
            k = rng.randrange(len(lines) - 1)
            glue = rng.choice([" // note\n", "\n", " # note\n", "\n// only a comment\n"])
            lines[k:k + 2] = [lines[k] + glue + lines[k + 1]]
        hist.append(lines)
    # directed histories: a line rejected by the compiler after it defined a shadowing name in a nested block,
    # then uses of the earlier binding at block level and at top level
    rej = ["if {m} > 0 {{ let {m} = {m} * 5; {m} + nope_q }}", "{{ let {m} = 5; nope_inner; }}", "while false {{ let {m} = 1; {{ nope_deep; }} }}",
           "fn h9(a) {{ if a > 0 {{ let {m} = a; return nope_r; }} }}", "{{ {{ let {m} = 1; let {o} = 2; }} nope_after; }}", "if {o} > 0 {{ fn {m}() {{ 1 }} nope_fn }}"]
    use = ["if {o} > 0 {{ puts(\"@@O in \", {m} + 1); }}", "{{ puts(\"@@O blk \", {m}); }}", "{{ {{ {m} = {m} + 1; }} }} puts(\"@@O up \", {m});", "{m} + 1",
           "fn u9() {{ {{ return {m} * 2; }} }} puts(\"@@O fn \", u9());"]
    for r_ in rej:
        for u_ in use:
            m, o_ = rng.sample(NAMES, 2)
            hist.append([f"let {m} = {rng.randint(1, 9) * 10};", f"let {o_} = {rng.randint(1, 9)};", r_.format(m=m, o=o_), u_.format(m=m, o=o_), f"puts(\"@@O top \", {m});"])
    # the recorded finding, always exercised: a definition in the unexecuted tail of a line that failed at run time
    # a long session: more global definitions than any small fixed table (the REPL carries its global store from line to line)
    many = ["".join(f"let v{10 * k + j} = {10 * k + j}; " for j in range(10)) for k in range(30)]
    hist.append(many + ["puts(\"@@O \", v0 + v7 + v255 + v256 + v299);", "let v300 = v299 + 1; puts(\"@@O \", v300);"])
    hist.append(["let a = 1 // first\nlet b = 2", "puts(\"@@O \", a + b);", "let c = 10 # c\nlet d = c * 2\nputs(\"@@O \", d);"])
    hist.append(["let y = 1;", "let x = 2; [1][9]; let y = 0;", "puts(\"@@O \", y);"])
    hist.append(["let z = 7;", "puts(\"@@O \", z); [1][9]; let z = 0;", "puts(\"@@O \", z + 1);", "let z = 3;", "puts(\"@@O \", z);"])
    # the real parser's AST of every line
    flat = [l for h in hist for l in h]
    asts = {}
    if ctx.harness:
        outs = run_parallel(ctx.harness, ["parse " + hx(l) for l in flat], timeout=60)
        for l, o in zip(flat, outs):
            i = o.find("(prog")
            asts[l] = o[i:] if (o.startswith("ast ") and " errs=0 " in o[:i]) else "(perr)"
    out = []
    for h in hist:
        line = "repl @@ " + " @@ ".join(asts.get(l, "(perr)") for l in h)
        out.append(Case(line, ("history",), extra={"lines": h}))
    # the REPL's second line at the compiler/VM level (theorem accepted_lines_compose): compiled at byte 0 in the carried
    # state; the functional compiler model must be byte-exact with Compiler::new_with_state, the result the one-program run
    pairs = []
    for _ in range(ctx.scale(600, 30000)):
        typed = rng.random() < 0.85
        l1 = c02.core_program(rng, typed=True)
        names = sorted(set(w[4:].split(" ")[0] for w in l1.split("\n") if w.startswith("let ") and not w.startswith("let i")))
        l2 = []
        c02.core_stmts(rng, names, 0, l2, "", [50], c02.core_int if typed else None)
        pairs.append((l1, "\n".join(l2) + "\n"))
    if ctx.harness:
        flat = [x for pr in pairs for x in pr]
        outs = run_parallel(ctx.harness, ["parse " + hx(l) for l in flat], timeout=60)
        ast = {}
        for l, o in zip(flat, outs):
            i = o.find("(prog")
            ast[l] = o[i:] if (o.startswith("ast ") and " errs=0 " in o[:i]) else "(perr)"
        for l1, l2 in pairs:
            out.append(Case(f"core2 {hx(l1)} {hx(l2)} @@ {ast[l1]} @@ {ast[l2]}", ("core2",), extra={"lines": [l1, l2]}))
    return out


def run_one(exe, c):
    lines = c.extra["lines"]
    text = ""
    for l in lines:
        segs = l.split("\n")
        text += "".join(sg + " \\\n" for sg in segs[:-1]) + segs[-1] + "\n" + 'println("@@M"); eprintln("@@M"); null' + "\n"      # the marker line's own value is null: no echo
    try:
        p = subprocess.run([exe], input=text.encode("utf-8"), stdout=subprocess.PIPE, stderr=subprocess.PIPE, timeout=30)
    except subprocess.TimeoutExpired:
        return "HANG"
    out, err = p.stdout.decode("utf-8", "replace"), p.stderr.decode("utf-8", "replace")
    if "panicked" in err:
        return "PANIC"
    if p.returncode != 0:
        return "ABORT"
    osegs = out.split("@@M\n")
    esegs = err.split("@@M\n")
    res = []
    for i in range(len(lines)):
        o = osegs[i] if i < len(osegs) else ""
        e = esegs[i] if i < len(esegs) else ""
        prog = "".join(l + "\n" for l in o.split("\n") if l.startswith("@@O "))
        # the REPL's echo of the line's value (the banner precedes the first line's output)
        echo = "".join(l + "\n" for l in o.split("\n") if l and not l.startswith("@@O ") and not (i == 0 and l.startswith(("The p2sh Programming language", "Type quit"))))
        if "parse errors" in e:
            res.append("perr")
        elif "compile error" in e:
            res.append("cerr")
        elif "Runtime error" in e:
            res.append("rt:" + hx(prog))
        else:
            res.append("ok:" + hx(prog) + ":e=" + hx(echo))
    return ";".join(res)


def run_impl(ctx, cases):
    exe = ctx.p2sh.get("dev")
    outs = [None] * len(cases)
    cidx = [k for k, c in enumerate(cases) if c.line.startswith("core2 ")]
    co = run_parallel(ctx.harness, [cases[k].line for k in cidx], timeout=60, label="harness") if ctx.harness else ["NOHARNESS"] * len(cidx)
    for k, o in zip(cidx, co):
        outs[k] = o
    ridx = [k for k, c in enumerate(cases) if not c.line.startswith("core2 ")]
    if not exe:
        for k in ridx:
            outs[k] = "NOHARNESS"
    else:
        with cf.ThreadPoolExecutor(max_workers=16) as ex:
            for k, o in zip(ridx, ex.map(lambda k: run_one(exe, cases[k]), ridx)):
                outs[k] = o
    return outs
