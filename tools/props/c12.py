"""C12 — format and print render the documented format mini-language."""
import concurrent.futures as cf
import itertools
import os
import subprocess

import vlib
import wire
from props import c11
from vlib import Case

# every case of this module is a direct operator / builtin / codec application whose size the oracle computes:
# a "capacity overflow" panic is never excused here
MEMORY_EXCLUSION_IN_UNCONSTRAINED = False

RULE = ("op `builtin format <fmt> <args>` through the real VM vs the Lean model of format_buf/format_obj; the spec (Spec.Format) parses the string by the documented grammar "
        "{[index][:[[fill]<|>][width][b|o|x|X]]} and renders it (positional/indexed arguments, fill, width, justification, radix, missing argument = runtime error); "
        "all strings of <= 2 items over index/fill/width/radix/justify sets x argument lists of length 0..3, random longer strings, malformed specifiers (no-crash only); "
        "non-trivial = the spec constrained the output")
ASSUMPTIONS = ["padding counts bytes: padded specifiers are constrained only for ASCII fills and arguments (the property's quantifier)",
               "values other than integers, strings, booleans and null have no documented text: only 'no crash' is demanded for them",
               "print/println/eprint/eprintln: op `print <name> <fmt> <args>` runs `let n = NAME(...)` through the real binary (dev profile) and compares the text written "
               "(stdout or stderr) and the integer returned with the model (printLen) and with the reference renderer's text and its byte length"]
BINARY_PROFILES = ["dev"]
canon = c11.canon


def nontrivial(c):
    return c.spec.startswith(("m ok", "eq rterr", "eq ok"))


def classify(c):
    return "format " + c.line.split(" ")[2][:40]


def src_of(tok):
    """p2sh source text of a wire value (only the kinds the print cases use)"""
    if tok.startswith("i:"):
        return tok[2:] if not tok.startswith("i:-") else "(0 - " + tok[3:] + ")"
    if tok.startswith("s:"):
        return '"' + bytes.fromhex(tok[2:]).decode("utf-8") + '"'
    return {"t": "true", "f": "false", "n": "null"}[tok]


def run_print(exe, scratch, idx, c):
    w = c.line.split(" ")
    name, toks = w[1], w[2:]
    src = f'let n = {name}({", ".join(src_of(t) for t in toks)}); puts(""); puts("@@N ", n);\n'
    path = os.path.join(scratch, f"p{idx}.p2")
    with open(path, "w", encoding="utf-8") as f:
        f.write(src)
    try:
        p = subprocess.run([exe, path], stdin=subprocess.DEVNULL, stdout=subprocess.PIPE, stderr=subprocess.PIPE, timeout=20)
    except subprocess.TimeoutExpired:
        return "HANG"
    if b"panicked" in p.stderr:
        return "PANIC"
    if p.returncode < 0:
        return "ABORT"
    if b"Runtime error" in p.stderr or b"runtime error" in p.stderr:
        return "rterr"
    if b"error" in p.stderr and b"@@N" not in p.stdout:
        return "cerr " + p.stderr.decode("utf-8", "replace")[:80]
    head, sep, tail = p.stdout.rpartition(b"\n@@N ")
    if not sep:
        return "noresult"
    text = p.stderr if name.startswith("e") else head
    return f"ok text={text.hex()} n={tail.decode().strip()}"


def run_impl(ctx, cases):
    outs = [None] * len(cases)
    hidx = [k for k, c in enumerate(cases) if not c.line.startswith("print ")]
    if ctx.harness:
        hout = vlib.run_parallel(ctx.harness, [cases[k].line for k in hidx], timeout=120, label="harness")
    else:
        hout = ["NOHARNESS"] * len(hidx)
    for k, o in zip(hidx, hout):
        outs[k] = o
    pidx = [k for k, c in enumerate(cases) if c.line.startswith("print ")]
    exe = ctx.p2sh.get("dev")
    if not exe:
        for k in pidx:
            outs[k] = "NOHARNESS"
    else:
        scratch = ctx.mkscratch()
        with cf.ThreadPoolExecutor(max_workers=16) as ex:
            for k, o in zip(pidx, ex.map(lambda k: run_print(exe, scratch, k, cases[k]), pidx)):
                outs[k] = o
    return outs


INDEX = ["", "0", "1", "2"]
FILL = ["", " ", "0", "*", "-", "x", "b", "o", "X", "9", "a", ":", "é"]
JUST = ["", "<", ">"]
WIDTH = ["", "0", "1", "5", "12"]
RADIX = ["", "b", "o", "x", "X"]
ARGS = [wire.i(42), wire.i(-1), wire.i(0), wire.i(wire.I64_MIN), wire.i(255), wire.s("hi"), wire.s(""), wire.s("héllo"), wire.TRUE, wire.NULL, wire.c("z"), wire.b(7), wire.a(wire.i(1)), wire.d(1.5)]


def specs():
    out = []
    for idx, fill, just, width, radix in itertools.product(INDEX, FILL, JUST, WIDTH, RADIX):
        if fill and not just:
            continue
        if not (fill or just or width):
            # forms without ':'  — {} {0} {x} {0x}; and the ':' + radix form {:x}
            out.append("{" + idx + radix + "}")
            if radix:
                out.append("{" + idx + ":" + radix + "}")
            continue
        out.append("{" + idx + ":" + fill + just + width + radix + "}")
    return sorted(set(out))


def cases(ctx):
    rng = ctx.rng
    out = []
    sp = specs()
    lits = ["", "a", "{{", "}}", " é ", "x{{y}}z"]
    arglists = [[], [wire.i(42)], [wire.s("hi")], [wire.i(-1), wire.s("ab")], [wire.TRUE, wire.NULL, wire.i(7)]]
    for s in sp:
        for args in arglists:
            out.append(Case(f"builtin format {wire.s(s)} {' '.join(args)}".rstrip(), ("one-item",)))
    n2 = ctx.scale(12000, 400000)
    for _ in range(n2):
        items = [rng.choice(sp) if rng.random() < 0.7 else rng.choice(lits) for _ in range(rng.randint(1, 4))]
        args = [rng.choice(ARGS) for _ in range(rng.randint(0, 3))]
        out.append(Case(f"builtin format {wire.s(''.join(items))} {' '.join(args)}".rstrip(), ("items",)))
    bad = ["{", "}", "{0", "{:", "{:>", "{{}", "{}}", "{:5", "{a}", "{-1}", "{:5.2}", "{:>>5}", "{:<<}", "{ }", "{0 }", "{:99999999999999999999}", "{99999999999999999999}", "{18446744073709551615}", "{18446744073709551614}", "{18446744073709551616}", "{18446744073709551615:>3}", "{4294967295}", "{4294967296}", "{:x>}", "{:xx}", "{::}", "{}{", "{:1000000}"]
    for s in bad:
        for args in arglists:
            out.append(Case(f"builtin format {wire.s(s)} {' '.join(args)}".rstrip(), ("malformed",)))
    for _ in range(ctx.scale(3000, 100000)):
        s = "".join(rng.choice("{}:<>0159xXbo *aé") for _ in range(rng.randint(0, 10)))
        args = [rng.choice(ARGS) for _ in range(rng.randint(0, 3))]
        out.append(Case(f"builtin format {wire.s(s)} {' '.join(args)}".rstrip(), ("soup",)))
    # first argument not a string / no arguments
    for v in [wire.i(1), wire.NULL, wire.a()]:
        out.append(Case(f"builtin format {v}", ("non-string",)))
    out.append(Case("builtin format", ("arity0",)))
    # the print family, end to end: text written and byte length returned
    PARGS = [wire.i(42), wire.i(-7), wire.s("hi"), wire.s("naïve"), wire.s("→日本"), wire.s(""), wire.TRUE, wire.NULL]
    plits = ["", "a", "é", "→ ", "{{", "}}", "日本", "x{{é}}"]
    simple = ["{}", "{0}", "{1}", "{:>5}", "{:*<4}", "{x}", "{:b}", "{0:o}"]
    for _ in range(ctx.scale(400, 20000)):
        name = rng.choice(["print", "println", "eprint", "eprintln"])
        items = [rng.choice(simple) if rng.random() < 0.5 else rng.choice(plits) for _ in range(rng.randint(1, 4))]
        args = [rng.choice(PARGS) for _ in range(rng.randint(0, 3))]
        out.append(Case(f"print {name} {wire.s(''.join(items))} {' '.join(args)}".rstrip(), ("print-family",)))
    for name in ["print", "println", "eprint", "eprintln"]:
        out.append(Case(f"print {name} {wire.i(5)}", ("print-family",)))
    # padded doubles: the text of a double is Rust's (not modelled), but its padding is documented — "others on the
    # right unless < or > is given" — so the padded forms are judged against the implementation's own unpadded text
    for f in [1.5, 3.25, -0.5, 100.0, 1e21, 0.1, 2.5e-7, -1234.5678]:
        fmt = "{}|{:8}|{:<8}|{:>8}|{:*<9}|{:#>10}|{:2}|{0:12}"
        out.append(Case(f"builtin format {wire.s(fmt)} " + " ".join([wire.d(f)] * 7), ("float-padding",)))
    return out


def judge(c):
    if "float-padding" not in c.tags:
        return None
    t = c.impl.split(" ")
    if len(t) < 2 or t[0] != "ok" or not t[1].startswith("s:"):
        return False
    parts = bytes.fromhex(t[1][2:]).decode("utf-8").split("|")
    if len(parts) != 8:
        return False
    x = parts[0]
    want = [x, x.ljust(8), x.ljust(8), x.rjust(8), x.ljust(9, "*"), x.rjust(10, "#"), x.ljust(2), x.ljust(12)]
    return parts == want
