"""C12 — format and print render the documented format mini-language."""
import itertools

import wire
from props import c11
from vlib import Case

RULE = ("op `builtin format <fmt> <args>` through the real VM vs the Lean model of format_buf/format_obj; the spec (Spec.Format) parses the string by the documented grammar "
        "{[index][:[[fill]<|>][width][b|o|x|X]]} and renders it (positional/indexed arguments, fill, width, justification, radix, missing argument = runtime error); "
        "all strings of <= 2 items over index/fill/width/radix/justify sets x argument lists of length 0..3, random longer strings, malformed specifiers (no-crash only); "
        "non-trivial = the spec constrained the output")
ASSUMPTIONS = ["padding counts bytes: padded specifiers are constrained only for ASCII fills and arguments (the property's quantifier)",
               "values other than integers, strings, booleans and null have no documented text: only 'no crash' is demanded for them",
               "print/println/eprint/eprintln share format_buf; their byte count is covered by the theorem print_len on the model and by the C24 end-to-end engine"]
canon = c11.canon


def nontrivial(c):
    return c.spec.startswith(("m ok", "eq rterr"))


def classify(c):
    return "format " + c.line.split(" ")[2][:40]


INDEX = ["", "0", "1", "2"]
FILL = ["", " ", "0", "*", "-", "x", "b", "o", "X", "9", "a", ":", "é"]
JUST = ["", "<", ">"]
WIDTH = ["", "0", "1", "5", "12"]
RADIX = ["", "b", "o", "x", "X"]
ARGS = [wire.i(42), wire.i(-1), wire.i(0), wire.i(wire.I64_MIN), wire.i(255), wire.s("hi"), wire.s(""), wire.s("héllo"), wire.TRUE, wire.NULL, wire.c("z"), wire.b(7), wire.a(wire.i(1)), wire.d(1.5)]


def specs():
    out = []
    for idx, fill, just, width, radix in itertools.product(INDEX, FILL, JUST, WIDTH, RADIX):
        if fill and not just:
            continue
        if not (fill or just or width):
            # forms without ':'  — {} {0} {x} {0x}; and the ':' + radix form {:x}
            out.append("{" + idx + radix + "}")
            if radix:
                out.append("{" + idx + ":" + radix + "}")
            continue
        out.append("{" + idx + ":" + fill + just + width + radix + "}")
    return sorted(set(out))


def cases(ctx):
    rng = ctx.rng
    out = []
    sp = specs()
    lits = ["", "a", "{{", "}}", " é ", "x{{y}}z"]
    arglists = [[], [wire.i(42)], [wire.s("hi")], [wire.i(-1), wire.s("ab")], [wire.TRUE, wire.NULL, wire.i(7)]]
    for s in sp:
        for args in arglists:
            out.append(Case(f"builtin format {wire.s(s)} {' '.join(args)}".rstrip(), ("one-item",)))
    n2 = ctx.scale(12000, 400000)
    for _ in range(n2):
        items = [rng.choice(sp) if rng.random() < 0.7 else rng.choice(lits) for _ in range(rng.randint(1, 4))]
        args = [rng.choice(ARGS) for _ in range(rng.randint(0, 3))]
        out.append(Case(f"builtin format {wire.s(''.join(items))} {' '.join(args)}".rstrip(), ("items",)))
    bad = ["{", "}", "{0", "{:", "{:>", "{{}", "{}}", "{:5", "{a}", "{-1}", "{:5.2}", "{:>>5}", "{:<<}", "{ }", "{0 }", "{:99999999999999999999}", "{99999999999999999999}", "{:x>}", "{:xx}", "{::}", "{}{", "{:1000000}"]
    for s in bad:
        for args in arglists:
            out.append(Case(f"builtin format {wire.s(s)} {' '.join(args)}".rstrip(), ("malformed",)))
    for _ in range(ctx.scale(3000, 100000)):
        s = "".join(rng.choice("{}:<>0159xXbo *aé") for _ in range(rng.randint(0, 10)))
        args = [rng.choice(ARGS) for _ in range(rng.randint(0, 3))]
        out.append(Case(f"builtin format {wire.s(s)} {' '.join(args)}".rstrip(), ("soup",)))
    # first argument not a string / no arguments
    for v in [wire.i(1), wire.NULL, wire.a()]:
        out.append(Case(f"builtin format {v}", ("non-string",)))
    out.append(Case("builtin format", ("arity0",)))
    return out
