"""C10 — map lookups are consistent with value equality."""
import itertools

import wire
from vlib import Case, lang_lines

# every case of this module is a direct operator / builtin / codec application whose size the oracle computes:
# a "capacity overflow" panic is never excused here
MEMORY_EXCLUSION_IN_UNCONSTRAINED = False

RULE = ("ops `eqhash a b` (Object::eq, the byte stream fed to the hasher, is_a_valid_key) and `hmap <map> <steps>` (a real HMap driven through "
        "insert/get/contains/len builtins and the VM's m[k] / m[k]=v) vs the Lean HMap model; the spec is an association list under == (Spec.Assoc); "
        "all ordered pairs from the key domain + random insert/overwrite/lookup sequences; non-trivial = a sequence with at least one hit on an existing key or a pair of equal keys")
ASSUMPTIONS = ["std::collections::HashMap finds an entry iff its key hashes like the probe and is == to it; SipHash is collision-free on distinct byte streams",
               "keys mixing integers beyond 2^53 with floats are left unconstrained in sequence checks (== is not transitive there); NaN keys are never found (consistent with ==)",
               "a NaN shared by pointer inside two arrays compares equal in the implementation (Rc::eq shortcut) — not representable in the model, not generated"]
canon = wire.canon_rterr

KEYS = ([wire.i(x) for x in (0, 1, -1, 2, 255, (1 << 53), (1 << 53) + 1, wire.I64_MAX, wire.I64_MIN)] +
        [wire.d(x) for x in (0.0, -0.0, 1.0, -1.0, 2.0, 1.5, 255.0, float(1 << 53), float("nan"), float("inf"), 9.223372036854775807e18,
                             0.3, 0.1 + 0.2, 0.8, 0.1 + 0.7, 1.0000000000000002, 1e19, 2e19, -1e19, 5e-324, 1e-320)] +
        [wire.b(x) for x in (0, 1, 255)] + [wire.c(x) for x in ("\0", "a", "1", "é")] +
        [wire.s(x) for x in ("", "a", "1", "é", "ab")] + [wire.TRUE, wire.FALSE, wire.NULL, "B:len", "B:puts"] +
        [wire.a(), wire.a(wire.i(1)), wire.a(wire.d(1.0)), wire.a(wire.i(1), wire.s("a")), wire.a(wire.d(1.0), wire.s("a")),
         wire.a(wire.a(wire.i(0))), wire.a(wire.a(wire.d(-0.0))), wire.a(wire.NULL), wire.a(wire.i(1), wire.i(2)), wire.a(wire.a())])
INVALID = [wire.m(), "F", "C", "H:stdin", "E:io"]


def nontrivial(c):
    if c.line.startswith("eqhash"):
        return c.impl.startswith("eq=t")
    return "ok " in c.impl


def classify(c):
    if c.line.startswith("eval "):
        return "map-literal " + (c.extra or {}).get("keys", "?")
    return c.line.split(" ")[0]


def judge_extra(c):
    return None


def judge(c):
    """the law itself, on the implementation's own answers: keys that are == feed the same bytes to the hasher
    (otherwise a map treats them as different entries), and != is the negation of =="""
    if not c.line.startswith("eqhash "):
        return None
    f = dict(t.split("=", 1) for t in c.impl.split(" ") if "=" in t)
    if not {"eq", "ne", "ha", "hb", "ka", "kb"} <= set(f):
        return None
    if f["eq"] == f["ne"]:
        return False
    if f["eq"] == "t" and f["ka"] == "t" and f["kb"] == "t" and f["ha"] != f["hb"]:
        return False
    return None


# map LITERALS are sequences of inserts too: a later pair with an == key overwrites the earlier one; then indexing, get and
# contains on every spelling of the key, and insert's return value
LIT_KEYS = [("1", "1.0"), ("0.0", "-0.0"), ("\"k\"", "\"k\""), ("[0.0, 1]", "[-0.0, 1.0]"), ("'c'", "'c'"), ("byte(7)", "byte(7)"), ("true", "true"), ("null", "null"),
            ("2", "4 / 2.0"), ("[1, [2]]", "[1.0, [2.0]]"), ("-1", "0 - 1"), ("1", "2")]


def literal_programs():
    out = []
    for k1, k2 in LIT_KEYS:
        body = ["let obs = [];", f"let m = map {{{k1}: \"first\", 5: \"five\", {k2}: \"second\"}};",
                f"push(obs, m[{k1}]);", f"push(obs, m[{k2}]);", f"push(obs, get(m, {k1}));", f"push(obs, contains(m, {k2}));", "push(obs, len(m));",
                f"push(obs, insert(m, {k1}, \"third\"));", f"push(obs, m[{k2}]);", "push(obs, len(m));",
                f"let e = map {{}}; e[{k1}] = 1; e[{k2}] = 2; push(obs, [len(e), e[{k1}]]);",
                f"let neg = map {{-1: \"a\", -7: \"b\"}}; push(obs, [neg[-1], neg[0 - 7], get(neg, -1)]); neg[-3] = \"c\"; push(obs, neg[-3]);",
                "0"]
        out.append((k1 + " / " + k2, "\n".join(body) + "\n"))
    return out


# an object mutated after it was stored as (part of) a map key: the documents say nothing, the reference semantics must not commit
MUTATED_KEYS = [
    "let obs = [];\nlet k = [1]; let m = map {k: 10}; k[0] = 2;\npush(obs, contains(m, [2]));\npush(obs, contains(m, [1]));\n0\n",
    "let obs = [];\nlet k = [1]; let m = map {k: 10}; k[0] = 2; m[[2]] = 7;\npush(obs, len(m));\n0\n",
    "let obs = [];\nlet k = [1]; let m = map {}; insert(m, k, 5); push(k, 3);\npush(obs, get(m, [1]));\n0\n",
    "let obs = [];\nlet i = [1]; let k = [i]; let m = map {k: 1}; i[0] = 9;\npush(obs, get(m, [[9]]));\n0\n",
    "let obs = [];\nlet k = [1]; let m = map {k: 10}; let f = fn() { k[0] = 2; }; f();\npush(obs, get(m, k));\n0\n",
    "let obs = [];\nlet k = [1]; let m = map {k: 10};\npush(obs, m[[1]]);\npush(obs, m[k]);\n0\n",
]


def cases(ctx):
    out = []
    rng = ctx.rng
    progs = literal_programs() + [("mutated-key", s) for s in MUTATED_KEYS]
    for (k, src), line in zip(progs, lang_lines(ctx, [p[1] for p in progs])):
        out.append(Case(line, ("map-literal",), extra={"src": src, "keys": k}))
    allk = KEYS + INVALID
    for x, y in itertools.product(allk, allk):
        out.append(Case(f"eqhash {x} {y}", ("pair-eqhash",)))
    # pairwise law through every access path: insert k1, then look up / overwrite with k2
    for x, y in itertools.product(KEYS, KEYS):
        out.append(Case(f"hmap m{{}} I{x}=i:7;G{y};C{y};X{y};I{y}=i:8;G{x};L;S{y}=i:9;X{x};L", ("pair-hmap",)))
        out.append(Case(f"hmap m{{{x}=i:7}} X{y};C{y};S{y}=i:3;G{x};L", ("pair-literal",)))
    # overwriting with a value that is == to the stored one but distinguishable from it: the latest insert must win
    eqv = [wire.i(1), wire.d(1.0), wire.b(1), wire.i(0), wire.d(0.0), wire.d(-0.0), wire.a(wire.i(1)), wire.a(wire.d(1.0)), wire.a(wire.d(0.0)), wire.a(wire.d(-0.0)),
           wire.s("a"), wire.c("a"), wire.TRUE, wire.NULL]
    for k in (wire.i(1), wire.d(1.0), wire.s("k"), wire.a(wire.i(0))):
        for v1, v2 in itertools.product(eqv, eqv):
            out.append(Case(f"hmap m{{}} I{k}={v1};I{k}={v2};G{k};X{k};S{k}={v1};G{k};X{k};D", ("overwrite-equal-value",)))
            out.append(Case(f"hmap m{{{k}={v1}}} S{k}={v2};X{k};I{k}={v1};G{k};D", ("overwrite-equal-value",)))
    # random sequences
    dom = [k for k in KEYS if k not in (wire.i((1 << 53) + 1),)]
    val = lambda: wire.i(rng.randint(0, 99)) if rng.random() < 0.6 else rng.choice(eqv)
    for _ in range(ctx.scale(2500, 150000)):
        ks = [rng.choice(dom) for _ in range(rng.randint(2, 6))]
        steps = []
        for _ in range(rng.randint(3, 30)):
            k = rng.choice(ks)
            t = rng.random()
            if t < 0.35:
                steps.append(f"I{k}={val()}")
            elif t < 0.5:
                steps.append(f"S{k}={val()}")
            elif t < 0.65:
                steps.append(f"G{k}")
            elif t < 0.8:
                steps.append(f"X{k}")
            elif t < 0.92:
                steps.append(f"C{k}")
            else:
                steps.append("L")
        steps.append("D")
        out.append(Case("hmap m{} " + ";".join(steps), ("sequence",)))
    return out
