"""C19 — pcap file reading and writing preserve records in order."""
import struct

import vlib
from vlib import Case

RULE = ("op `pcap <hex file> <script>`: the bytes are written to a transient file, opened with the real pcap_open and read by the script "
        "(N read_next, A read_all, A<n> read_all(f,n), W pcap_write of every packet handed out so far to a second file, R pcap_open + read_all of that file) "
        "vs the Lean model (Model/Pcap.lean); the oracle is the spec decoder (Spec/PcapFile.lean: header x records x tail) — records in file order, then null "
        "(null or an error object on a damaged file), read-back of the written file = the packets handed out; cases = random files (0-50 records, sizes around "
        "0/1/4095/4096/4097/8191/8192/8193, both magics, several snaplens incl. caplen == snaplen), truncation at every byte offset (small files) / random offsets "
        "(large), header corruption, random interleavings; non-trivial = the file opened and at least one packet was handed out")
ASSUMPTIONS = ["read_exact / BufReader / BufWriter of std behave as a cursor over the file's bytes (DESIGN §7)"]
NOTES = ["spec-reading decision: after the first null/error on a damaged file, for a negative count, and for the exact bytes of the written file the oracle is silent",
         "pcap_read_all reaching a corrupt record header (caplen > snaplen) must deliver the complete records before it; the error object (or null) comes with the "
         "next read (the code after the /repo fix 'pcap_read_all keeps the records read before a malformed one'; before it the records were dropped)"]
HARNESS_TIMEOUT = 300
DRIVER_TIMEOUT = 600

US = 0xA1B2C3D4
NS = 0xA1B23C4D
SIZES = [0, 1, 4095, 4096, 4097, 8191, 8192, 8193]


def ghdr(magic=US, snaplen=65535, vmaj=2, vmin=4, zone=0, sig=0, link=1):
    return struct.pack("<IHHIIII", magic, vmaj, vmin, zone & 0xffffffff, sig, snaplen, link)


def rec(ts, us, data, wirelen=None, caplen=None):
    return struct.pack("<IIII", ts, us, len(data) if caplen is None else caplen, len(data) if wirelen is None else wirelen) + data


def rand_bytes(rng, n):
    return rng.getrandbits(8 * n).to_bytes(n, "little") if n else b""


def rand_records(rng, sizes, snaplen):
    out = []
    for n in sizes:
        n = min(n, snaplen)
        t = rng.choice([0, 1, rng.getrandbits(32), 0xffffffff, rng.randint(1600000000, 1800000000)])
        u = rng.choice([0, 999999, 999999999, rng.getrandbits(32), rng.randint(0, 999999)])
        w = rng.choice([n, n, n + rng.randint(0, 2000), rng.getrandbits(32), 0, max(0, n - 1), n // 2])      # a wire length below the captured length is still a record
        out.append(rec(t, u, rand_bytes(rng, n), wirelen=w))
    return out


def rand_script(rng, nrec, wr=0.3):
    steps = []
    for _ in range(rng.randint(1, 8)):
        t = rng.random()
        if t < 0.5:
            steps.append("N")
        elif t < 0.65:
            steps.append("A")
        else:
            steps.append("A%d" % rng.choice([0, 1, 2, 3, nrec, nrec + 1, max(0, nrec - 1), rng.randint(0, nrec + 3)]))
    if rng.random() < 0.5:
        steps += ["N"] * rng.randint(1, 2)
    if rng.random() < wr:
        steps += ["W", "R"]
        if rng.random() < 0.3:
            steps += ["N", "W", "R"]
    return ",".join(steps)


def line(content, script):
    return "pcap %s %s" % (content.hex() or "-", script)


def steps_of(c):
    return [s for s in c.line.split(" ")[2].split(",") if s and s != "-"]


def resolve_alts(spec, impl):
    """`alts a;b|c;-` -> a standard `steps` verdict: the alternative the implementation chose where one fits, else the first"""
    want = spec[5:].split(";")
    got = impl.split(";")
    out = []
    for i, w in enumerate(want):
        alts = w.split("|")
        g = got[i] if i < len(got) else None
        out.append(g if (g in alts and w != "-") else alts[0])
    return "steps " + ";".join(out)


def spec_override(c):
    if c.spec.startswith("alts "):
        return resolve_alts(c.spec, c.impl)
    return c.spec


def nontrivial(c):
    return c.impl.startswith("P;") and "pkt:" in c.impl


def readback_finding(want, got):
    """the recorded finding: the written file carries snaplen 65535, so reading it back stops at the first packet longer than that —
    the error object when it is the first one, else exactly the packets before it"""
    pk = [p for p in want[2:-1].split(",") if p.startswith("pkt:")]
    big = [j for j, p in enumerate(pk) if int(p.split(":")[3]) > 65535]
    if not big:
        return False
    return got == ("E:io" if big[0] == 0 else "a[" + ",".join(pk[:big[0]]) + "]")


def classify(c):
    if not c.spec.startswith("steps "):
        return "spec"
    want = c.spec[6:].split(";")
    got = c.impl.split(";")
    if c.impl.startswith(("PANIC", "ABORT", "HANG")):
        return "crash"
    if len(want) != len(got):
        return "open" if len(got) == 1 else "length"
    tags = ["open"] + steps_of(c)
    bad = [i for i, (w, g) in enumerate(zip(want, got)) if w != "-" and w != g]
    if not bad:
        return None
    kinds = set()
    for i in bad:
        tag = tags[i] if i < len(tags) else "?"
        if tag == "R" and c.model == c.impl and readback_finding(want[i], got[i]):
            kinds.add("readback-caplen>65535")
        else:
            kinds.add("step:" + tag[0])
    return "+".join(sorted(kinds))


def run_impl(ctx, cases):
    if not ctx.harness:
        return ["NOHARNESS"] * len(cases)
    return vlib.run_parallel(ctx.harness, [c.line for c in cases], timeout=HARNESS_TIMEOUT, label="harness",
                             extra_env={"VERIF_SCRATCH": ctx.mkscratch()})


def cases(ctx):
    rng = ctx.rng
    out = []

    def add(content, script, tag):
        out.append(Case(line(content, script), (tag,)))

    # ---- degenerate files
    for content in (b"", b"\x00", ghdr()[:23], ghdr(), ghdr(NS), ghdr(snaplen=0), ghdr() + b"\x00" * 15, ghdr() + b"\x00" * 16,
                    ghdr(snaplen=0) + rec(1, 2, b""), ghdr(snaplen=0) + rec(1, 2, b"x")):
        for script in ("N,N", "A", "A0,A1,N", "A,W,R", "N,A-1,N"):
            add(content, script, "degenerate")
    # ---- small well-formed files, both magics, fixed and random scripts
    small = []
    for magic in (US, NS):
        for sizes in ([], [0], [1], [3, 0, 5], [1, 2, 3, 4], [10] * 7):
            for snaplen in (65535, 262144, max(sizes + [0]), 0xffffffff):
                recs = rand_records(rng, sizes, snaplen)
                content = ghdr(magic, snaplen, link=rng.choice([1, 101, 113])) + b"".join(recs)
                small.append((content, len(sizes)))
                n = len(sizes)
                for script in ("N," * (n + 2) + "N", "A,N,A", "A%d,A%d,A,N" % (max(n - 1, 0), 1), "A%d,N" % (n + 5), "N,A1,N,A,W,R", "A,W,R,W,R", "W,R,N,W,R"):
                    add(content, script, "small")
                for _ in range(ctx.scale(3, 40)):
                    add(content, rand_script(rng, n), "small-random")
    # ---- caplen vs snaplen boundary (caplen == snaplen is legal, snaplen + 1 is not)
    for snap in (0, 1, 5, 4096, 65535):
        for d in (-1, 0, 1):
            n = snap + d
            if n < 0:
                continue
            content = ghdr(rng.choice([US, NS]), snap) + rec(7, 8, rand_bytes(rng, 2)[:min(2, snap)]) + rec(9, 10, rand_bytes(rng, n)) + rec(11, 12, b"z"[:min(1, snap)])
            for script in ("N,N,N,N", "A", "A1,A1,A1,N", "N,A,N", "A2,N"):
                add(content, script, "snaplen-boundary")
    # ---- truncation at every byte offset of small files
    for magic in (US, NS):
        recs = rand_records(rng, [3, 0, 1, 6], 65535)
        content = ghdr(magic) + b"".join(recs)
        for cut in range(len(content) + 1):
            for script in ("A", "N,N,N,N,N,N", rand_script(rng, 4, wr=0.2)):
                add(content[:cut], script, "truncate-every-offset")
    # ---- header corruption
    for content, n in small[:: max(1, len(small) // ctx.scale(12, 48))]:
        if n == 0:
            continue
        b = bytearray(content)
        muts = []
        for i in range(4):                                   # magic bytes
            m = bytearray(b); m[i] ^= rng.choice([1, 0x80, 0xff]); muts.append(bytes(m))
        muts.append(bytes(b[3::-1]) + bytes(b[4:]))          # byte-swapped magic (big-endian file)
        for v in (0, 1, 2, 15):                              # snaplen lowered below some caplen
            m = bytearray(b); m[16:20] = struct.pack("<I", v); muts.append(bytes(m))
        off = 24
        offs = []
        while off + 16 <= len(b):
            offs.append(off)
            off += 16 + struct.unpack_from("<I", b, off + 8)[0]
        for o in offs[:4]:
            for v in (0xffffffff, 65536, 262145, 70000, len(b), 1, 0):   # caplen of a record
                m = bytearray(b); m[o + 8:o + 12] = struct.pack("<I", v); muts.append(bytes(m))
            m = bytearray(b); m[o + rng.randrange(0, 8)] ^= 0xff; muts.append(bytes(m))     # timestamps
            m = bytearray(b); m[o + 12 + rng.randrange(0, 4)] ^= 0xff; muts.append(bytes(m))  # wirelen
        for m in muts:
            for script in ("A", "A,N,A", "A1,A,N", "N,A,A0,A", "N,N,N,N,N,N,N,N", rand_script(rng, n)):
                add(m, script, "corrupt-header")
    # ---- large files: record sizes around the buffer boundaries, random truncation offsets
    for k in range(ctx.scale(14, 120)):
        nrec = rng.randint(0, ctx.scale(9, 50))
        sizes = [max(0, rng.choice(SIZES) + rng.choice([0, 0, 0, -2, 3, 17])) if rng.random() < 0.8 else rng.randint(0, 9000) for _ in range(nrec)]
        snaplen = rng.choice([65535, 65535, 262144, 8193, 9100])
        content = ghdr(rng.choice([US, NS]), snaplen) + b"".join(rand_records(rng, sizes, snaplen))
        add(content, "A,N", "large")
        add(content, rand_script(rng, nrec, wr=0.5), "large")
        for _ in range(ctx.scale(2, 6)):
            add(content[:rng.randint(0, len(content))], rand_script(rng, nrec, wr=0.2), "large-truncated")
    # ---- packets longer than 65535 bytes (legal under snaplen 262144): read, and write + read back
    big = ghdr(US, 262144) + rec(1, 2, rand_bytes(rng, 65535)) + rec(3, 4, rand_bytes(rng, 65536)) + rec(5, 6, rand_bytes(rng, 70000))
    add(big, "A,N", "caplen>65535")
    add(big, "N,W,R", "caplen>65535")
    add(big, "N,N,W,R", "caplen>65535-readback")
    add(big, "A,W,R", "caplen>65535-readback")
    return out
