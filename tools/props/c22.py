"""C22 — operating-system I/O failures become error objects, not crashes."""
import concurrent.futures as cf
import os
import shutil
import struct
import subprocess

from vlib import Case

BINARY_PROFILES = ["dev"]
RULE = ("e2e-file: the REAL p2sh binary (dev profile, working tree) runs generated scripts whose I/O calls hit real failing targets: a missing file (ENOENT), a missing "
        "directory, a directory (EISDIR), an existing file under mode x (EEXIST), /dev/full (ENOSPC), a path through a regular file (ENOTDIR), a mode-000 file with "
        "privileges dropped to nobody (EACCES, skipped when that is impossible), garbage / short / empty pcap headers, a record with caplen > snaplen; stdin redirected "
        "from a directory / garbage / nothing, stdout or stderr redirected to /dev/full. Every call prints is_error(result) and the script prints a sentinel at the end; "
        "oracle: every failing call prints true, the sentinel appears, exit status 0, no panic. Each call sequence is also run through the Lean model "
        "(Model/IoFaults.lean: the call under the fault oracle the target produces; every builtin reports a failure as an error object, so a regression shows up both as a model disagreement and as an oracle failure). non-trivial = at least one call reported an error object")
ASSUMPTIONS = ["the targets produce the named errno on this kernel (checked by the run itself: the model predicts is_error = true only if the OS call fails)",
               "OS read failures in the middle of a pcap stream (EIO after a valid header) are covered by the model theorem only"]
NOTES = ["calls that meet no failure on their target (a small write into the buffer of a /dev/full writer, open(dir) for reading, flush of an empty buffer) are unconstrained"]

VALID_HDR = struct.pack("<IHHIIII", 0xA1B2C3D4, 2, 4, 0, 0, 65535, 1)
NOBODY = 65534

# scenario -> (environment it needs, p2sh code with rep(<expr>))
ENVS = {"plain": {}, "stdin-dir": {"stdin": "dir"}, "stdin-garbage": {"stdin": "garbage"}, "stdin-empty": {"stdin": "empty"},
        "stdout-full": {"stdout": "full"}, "stderr-full": {"stderr": "full"}, "nobody": {"user": NOBODY}}
BIGPKT = "pcap_read_next(pcap_open(BIGPCAP))"
SCN = {
    "open_r_enoent": ("any", "rep(open(MISSING));"),
    "open_w_enoent": ("any", "rep(open(NODIR, \"w\"));"),
    "open_a_enoent": ("any", "rep(open(NODIR, \"a\"));"),
    "open_x_eexist": ("any", "rep(open(EXISTING, \"x\"));"),
    "open_x_dir": ("any", "rep(open(DIR, \"x\"));"),
    "open_w_eisdir": ("any", "rep(open(DIR, \"w\"));"),
    "open_a_eisdir": ("any", "rep(open(DIR, \"a\"));"),
    "open_r_enotdir": ("any", "rep(open(NOTDIR));"),
    "open_w_enotdir": ("any", "rep(open(NOTDIR, \"w\"));"),
    "open_r_eacces": ("nobody", "rep(open(LOCKED));"),
    "open_w_eacces": ("nobody", "rep(open(LOCKED, \"w\"));"),
    "open_r_ok": ("any", "rep(open(EXISTING));"),
    "read_eisdir": ("any", "rep(read(open(DIR)));"),
    "read_n_eisdir": ("any", "rep(read(open(DIR), 10));"),
    "read_line_eisdir": ("any", "rep(read_line(open(DIR)));"),
    "read_to_string_eisdir": ("any", "rep(read_to_string(open(DIR)));"),
    "read_stdin_eisdir": ("stdin-dir", "rep(read(stdin));"),
    "read_line_stdin_eisdir": ("stdin-dir", "rep(read_line(stdin));"),
    "write_big_enospc": ("any", "rep(write(open(\"/dev/full\", \"w\"), mk(9000)));"),
    "write_second_enospc": ("any", "let wf = open(\"/dev/full\", \"w\"); write(wf, mk(5000)); rep(write(wf, mk(5000)));"),
    "write_small_nofault": ("any", "rep(write(open(\"/dev/full\", \"w\"), \"x\"));"),
    "flush_enospc": ("any", "let wf = open(\"/dev/full\", \"w\"); write(wf, \"x\"); rep(flush(wf));"),
    "flush_empty_nofault": ("any", "rep(flush(open(\"/dev/full\", \"w\")));"),
    "write_stdout_nl_enospc": ("stdout-full", "rep(write(stdout, byte(10)));"),
    "write_stdout_str_nl_enospc": ("stdout-full", "rep(write(stdout, \"a line\n\"));"),
    "write_stdout_str_big_enospc": ("stdout-full", "rep(write(stdout, \"0123456789\" * 300));"),
    "write_stdout_arr_enospc": ("stdout-full", "rep(write(stdout, mk(3000)));"),
    "write_stderr_str_big_enospc": ("stderr-full", "rep(write(stderr, \"0123456789\" * 300));"),
    "write_stdout_small_nofault": ("stdout-full", "rep(write(stdout, \"abc\"));"),
    "write_stdout_pkt_enospc": ("stdout-full", "rep(write(stdout, %s));" % BIGPKT),
    "flush_stdout_enospc": ("stdout-full", "write(stdout, \"abc\"); rep(flush(stdout));"),
    "write_stderr_enospc": ("stderr-full", "rep(write(stderr, \"x\"));"),
    "pcap_open_enoent": ("any", "rep(pcap_open(MISSING));"),
    "pcap_open_x_eexist": ("any", "rep(pcap_open(EXISTING, \"x\"));"),
    "pcap_open_enotdir": ("any", "rep(pcap_open(NOTDIR));"),
    "pcap_open_w_eisdir": ("any", "rep(pcap_open(DIR, \"w\"));"),
    "pcap_open_eacces": ("nobody", "rep(pcap_open(LOCKED));"),
    "pcap_open_eisdir": ("any", "rep(pcap_open(DIR));"),
    "pcap_open_garbage": ("any", "rep(pcap_open(GARBAGE));"),
    "pcap_open_short": ("any", "rep(pcap_open(SHORT));"),
    "pcap_open_empty": ("any", "rep(pcap_open(EMPTY));"),
    "pcap_read_next_garbage": ("any", "rep(pcap_read_next(pcap_open(BADREC)));"),
    "pcap_read_all_garbage": ("any", "rep(pcap_read_all(pcap_open(BADREC)));"),
    "pcap_write_enospc": ("any", "rep(pcap_write(pcap_open(\"/dev/full\", \"w\"), %s));" % BIGPKT),
    "pcap_write_stdout_enospc": ("stdout-full", "rep(pcap_write(pcap_stream(stdout), %s));" % BIGPKT),
    "pcap_stream_stdin_eisdir": ("stdin-dir", "rep(pcap_stream(stdin));"),
    "pcap_stream_stdin_garbage": ("stdin-garbage", "rep(pcap_stream(stdin));"),
    "pcap_stream_stdin_empty": ("stdin-empty", "rep(pcap_stream(stdin));"),
    "pcap_stream_stdout_nofault": ("stdout-full", "rep(pcap_stream(stdout));"),
}
# calls that stopped the interpreter before the repairs e9b7dd0 / 4ce3547 / 13af4ce: still drawn less often, so that a
# regression in one of them cannot hide the calls after it in every sequence
STOPPERS = {"flush_enospc", "write_stdout_nl_enospc", "write_stdout_str_nl_enospc", "write_stdout_str_big_enospc", "write_stdout_arr_enospc", "write_stderr_str_big_enospc", "flush_stdout_enospc", "write_stderr_enospc", "pcap_open_enoent", "pcap_open_x_eexist",
            "pcap_open_enotdir", "pcap_open_w_eisdir", "pcap_open_eacces"}


def make_world(d):
    os.makedirs(os.path.join(d, "dir"), exist_ok=True)
    files = {"existing": b"some content\n", "garbage": os.urandom(7) * 9, "short": VALID_HDR[:10], "empty": b"",
             "badrec": VALID_HDR + struct.pack("<IIII", 1, 2, 70000, 70000) + b"x" * 40,
             "bigpcap": VALID_HDR + struct.pack("<IIII", 1, 2, 9000, 9000) + bytes(i % 251 for i in range(9000)),
             "locked": b"secret\n"}
    for n, b in files.items():
        with open(os.path.join(d, n), "wb") as f:
            f.write(b)
    os.chmod(os.path.join(d, "locked"), 0)
    os.chmod(d, 0o755)


def script(d, env, ids):
    to_err = ENVS[env].get("stdout") == "full"
    pr = "eprintln" if to_err else "println"
    src = ["fn mk(n) { let a = []; let i = 0; while i < n { push(a, byte(i % 256)); i = i + 1; } return a; }\n",
           "fn rep(r) { %s(\"{}\", is_error(r)); }\n" % pr]
    for var, name in (("MISSING", "missing"), ("DIR", "dir"), ("EXISTING", "existing"), ("GARBAGE", "garbage"), ("SHORT", "short"), ("EMPTY", "empty"),
                      ("BADREC", "badrec"), ("BIGPCAP", "bigpcap"), ("LOCKED", "locked")):
        src.append("let %s = \"%s\";\n" % (var, os.path.join(d, name)))
    src.append("let NODIR = \"%s\";\nlet NOTDIR = \"%s\";\n" % (os.path.join(d, "nodir", "x"), os.path.join(d, "existing", "x")))
    for i in ids:
        src.append(SCN[i][1] + "\n")
    src.append("%s(\"done\");\n" % pr)
    return "".join(src)


def can_drop(exe, scratch):
    """can the binary run as `nobody` and is a mode-000 file then unreadable?"""
    d = os.path.join(scratch, "probe")
    os.makedirs(d, exist_ok=True)
    try:
        if os.geteuid() != 0:
            return False
        p = os.path.join(d, "locked")
        with open(p, "w") as f:
            f.write("x")
        os.chmod(p, 0)
        os.chmod(d, 0o755)
        r = subprocess.run([exe, "-c", "puts(is_error(open(\"%s\")))" % p], stdout=subprocess.PIPE, stderr=subprocess.DEVNULL, timeout=20, user=NOBODY, group=NOBODY,
                           extra_groups=[])
        return r.returncode == 0 and r.stdout.decode().splitlines()[:1] == ["true"]
    except Exception:
        return False
    finally:
        shutil.rmtree(d, ignore_errors=True)


def run_case(exe, scratch, idx, line, droppable):
    t = line.split(" ")
    env, ids = t[1], [x for x in t[2].split(",") if x]
    d = os.path.join(scratch, "w%d" % idx)
    os.makedirs(d, exist_ok=True)
    try:
        if env not in ENVS or any(i not in SCN for i in ids):
            return "bad-op"
        if env == "nobody" and not droppable:
            return "SKIP"
        make_world(d)
        sp = os.path.join(d, "s.p2")
        with open(sp, "w") as f:
            f.write(script(d, env, ids))
        e = ENVS[env]
        stdin = {"dir": os.path.join(d, "dir"), "garbage": os.path.join(d, "garbage"), "empty": os.devnull}.get(e.get("stdin"), os.devnull)
        fi = os.open(stdin, os.O_RDONLY)
        fo = os.open("/dev/full", os.O_WRONLY) if e.get("stdout") == "full" else os.open(os.path.join(d, "out"), os.O_WRONLY | os.O_CREAT, 0o644)
        fe = os.open("/dev/full", os.O_WRONLY) if e.get("stderr") == "full" else os.open(os.path.join(d, "err"), os.O_WRONLY | os.O_CREAT, 0o644)
        kw = {}
        if e.get("user"):
            kw = {"user": e["user"], "group": e["user"], "extra_groups": []}
        try:
            p = subprocess.run([exe, sp], stdin=fi, stdout=fo, stderr=fe, timeout=60, **kw)
        finally:
            for fd in (fi, fo, fe):
                os.close(fd)

        def rd(n):
            try:
                return open(os.path.join(d, n), "rb").read().decode("utf-8", "replace")
            except OSError:
                return ""
        out, err = rd("out"), rd("err")
        report = err if e.get("stdout") == "full" else out
        toks = []
        done = False
        for l in report.splitlines():
            if l == "true":
                toks.append("t")
            elif l == "false":
                toks.append("f")
            elif l == "done":
                done = True
                toks.append("done")
                break
            elif e.get("stdout") == "full":
                break       # the diagnostics share the channel of the report
            else:
                toks.append("?" + l[:30])
        if not done:
            if p.returncode == 101 or "panicked" in err:
                toks.append("PANIC")
            elif "Runtime error" in err or p.returncode == 0:
                toks.append("rterr")
            else:
                toks.append("ABORT(%d)" % p.returncode)
        elif p.returncode != 0:
            toks.append("rc=%d" % p.returncode)
        return ";".join(toks)
    except subprocess.TimeoutExpired:
        return "HANG"
    finally:
        try:
            os.chmod(os.path.join(d, "locked"), 0o600)
        except OSError:
            pass
        shutil.rmtree(d, ignore_errors=True)


def run_impl(ctx, cases):
    exe = ctx.p2sh.get("dev")
    if not exe:
        return ["NOHARNESS"] * len(cases)
    scratch = ctx.mkscratch()
    droppable = can_drop(exe, scratch)
    ctx.notes.append("EACCES scenarios (privileges dropped to nobody): " + ("run" if droppable else "SKIPPED (cannot drop privileges / the binary is not reachable for nobody)"))
    with cf.ThreadPoolExecutor(max_workers=min(12, (os.cpu_count() or 4))) as ex:
        futs = [ex.submit(run_case, exe, scratch, i, c.line, droppable) for i, c in enumerate(cases)]
        outs = [f.result() for f in futs]
    for c, o in zip(cases, outs):
        if o == "SKIP":
            c.extra = {"skipped": True}
    return outs


def canon(s):
    # PANIC carries no message here
    return s


def spec_override(c):
    return "any" if c.impl == "SKIP" else c.spec


def model_skip(c):
    return c.impl == "SKIP"


def nontrivial(c):
    return "t" in c.impl.split(";")


def classify(c):
    if c.impl.startswith(("ABORT", "HANG")) or not c.spec.startswith("steps "):
        return "crash"
    ids = [x for x in c.line.split(" ")[2].split(",") if x]
    want = c.spec[6:].split(";")
    got = c.impl.split(";")
    for i, w in enumerate(want):
        g = got[i] if i < len(got) else None
        if w == "-" or w == g:
            continue
        return "iofault:%s:%s" % (ids[i] if i < len(ids) else "end", g)
    return "iofault:length"


def cases(ctx):
    rng = ctx.rng
    out = []

    def add(env, ids, tag):
        out.append(Case("iofault %s %s" % (env, ",".join(ids)), (tag,)))

    def pool(env):
        p = [k for k, (e, _) in SCN.items() if e == "any" or e == env]
        if env == "stderr-full":
            # a runtime error is reported on stderr: with stderr on /dev/full the report itself fails (not one of the eleven builtins)
            p = [k for k in p if not (k in STOPPERS and k.startswith("pcap_open_"))]
        return p

    # every scenario alone, in every environment that admits it
    for env in ENVS:
        for sid in pool(env):
            if env == "plain" or SCN[sid][0] == env or sid in ("open_r_enoent", "read_eisdir", "pcap_open_garbage", "write_big_enospc", "pcap_open_enoent", "flush_enospc"):
                add(env, [sid], "single")
    # generated sequences: each call's target drawn from the failing set
    for _ in range(ctx.scale(160, 4000)):
        env = rng.choice(list(ENVS))
        p = pool(env)
        safe = [x for x in p if x not in STOPPERS]
        if rng.random() < 0.75:
            ids = [rng.choice(safe) for _ in range(rng.randint(2, 8))]
        else:
            st = rng.choice([x for x in p if x in STOPPERS])
            # a failed write to a standard stream can leave unwritten bytes in its buffer: what later calls on that stream meet is then
            # no longer the scenario's own failure (e.g. pcap_stream(stdout) itself fails first), so nothing follows such a stopper
            tail = [] if st.startswith(("write_std", "flush_std")) else [rng.choice(safe) for _ in range(rng.randint(0, 2))]
            ids = [rng.choice(safe) for _ in range(rng.randint(0, 5))] + [st] + tail
        if env == "stdout-full" and ids.count("write_stdout_small_nofault") > 3:
            continue
        add(env, ids, "sequence-" + env)
    return out
