"""C02 — compiled programs behave as the language's reference semantics prescribe."""
import gen_lang
import wire
from vlib import Case, lang_lines, vmrun_lines

RULE = ("op `eval`: each generated program text is scanned, parsed, compiled and run by the real pipeline in-process; the real parser's AST is handed to the Lean "
        "reference semantics (P2sh.Ref + P2sh.Static), whose verdict (final value, observation array, runtime error + line, compile error + line, stack height 0) "
        "is the oracle; non-trivial = the program ran to a value or a runtime error and the oracle constrained it")
ASSUMPTIONS = ["the AST given to the reference semantics is the real parser's (the parser is covered by C01/C03)",
               "oracle-unconstrained zones: assignment to a captured variable, a name used inside its own let initializer, == on containers/functions, map iteration order, "
               "builtins outside the documented core (the verdict is then `nopanic`)"]
BINARY_PROFILES = []
HARNESS_TIMEOUT = 20


def canon(s):
    # "rterr <line> <hexmsg> obs=…" / "cerr <line> <hexmsg>": message wording is not compared
    t = s.split(" ")
    if t[0] == "rterr" and len(t) >= 3 and not t[2].startswith(("obs=", "g0=")):
        return " ".join(t[:2] + t[3:])
    if t[0] == "cerr" and len(t) >= 3:
        return " ".join(t[:2])
    return s


def nontrivial(c):
    return c.impl.startswith(("ok", "rterr", "cerr")) and c.spec.startswith("m ")


def classify(c):
    kind = c.impl.split(" ")[0] + "-vs-" + " ".join(c.spec.split(" ")[:2])
    return kind


def model_skip(c):
    return not c.line.startswith("vmrun ")


def sources(ctx):
    rng = ctx.rng
    out = []
    tags = []
    for s in gen_lang.SPECIALS:
        out.append(s); tags.append("special")
    for s in gen_lang.FAULTY:
        out.append(s); tags.append("faulty")
    n = ctx.scale(3000, 120000)
    for s in gen_lang.programs(rng, n, max_stmts=10):
        out.append(s); tags.append("generated")
        if rng.random() < 0.15:
            out.append(gen_lang.faulty_variant(rng, s)); tags.append("ill-formed")
    return out, tags


def cases(ctx):
    srcs, tags = sources(ctx)
    lines = lang_lines(ctx, srcs)
    out = [Case(l, (t,), extra={"src": s}) for l, t, s in zip(lines, tags, srcs)]
    # the VM model on the real compiler's bytecode (correspondence of the VM model)
    vl = vmrun_lines(ctx, srcs)
    out += [Case(l, ("vm-" + t,), extra={"src": s}) for l, t, s in zip(vl, tags, srcs)]
    return out


def shrink(ctx, c):
    return c
