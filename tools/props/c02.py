"""C02 — compiled programs behave as the language's reference semantics prescribe."""
import re
import gen_lang
import wire
from vlib import Case, lang_lines, vmrun_lines

RULE = ("op `eval`: each generated program text is scanned, parsed, compiled and run by the real pipeline in-process; the real parser's AST is handed to the Lean "
        "reference semantics (P2sh.Ref + P2sh.Static), whose verdict (final value, observation array, runtime error + line, compile error + line, stack height 0) "
        "is the oracle; non-trivial = the program ran to a value or a runtime error and the oracle constrained it")
ASSUMPTIONS = ["the AST given to the reference semantics is the real parser's (the parser is covered by C01/C03)",
               "oracle-unconstrained zones: assignment to a captured variable, a name used inside its own let initializer, == on containers/functions, map iteration order, "
               "builtins outside the documented core (the verdict is then `nopanic`)",
               "core-fn programs with containers: an array used as a map key is not written afterwards (the real table does not re-hash a stored key whose "
               "contents change; the model compares keys by their current contents) and no container is stored into itself (no cycles)"]
BINARY_PROFILES = []
HARNESS_TIMEOUT = 20


def canon(s):
    # "rterr <line> <hexmsg> obs=…" / "cerr <line> <hexmsg>": message wording is not compared
    t = s.split(" ")
    if t[-1].startswith("bcv="):
        # op vmrun, model side only: verdict of the bytecode verifier (Bcv) on the real bytecode; the spec verdict carries it
        t = t[:-1]
        s = " ".join(t)
    if t[0] == "rterr" and len(t) >= 3 and not t[2].startswith(("obs=", "g0=")):
        return " ".join(t[:2] + t[3:])
    if t[0] == "cerr" and len(t) >= 3:
        return " ".join(t[:2])
    return s


def nontrivial(c):
    return c.impl.startswith(("ok", "rterr", "cerr")) and c.spec.startswith("m ")


def classify(c):
    if c.spec.startswith("eq BCV-REJECTED"):
        # the verified bytecode verifier refused the real bytecode: unbalanced stack heights or an operand out of range
        return "bcv-rejected " + c.spec.split(" ")[2].split("@")[0]
    kind = c.impl.split(" ")[0] + "-vs-" + " ".join(c.spec.split(" ")[:2])
    return kind


def model_skip(c):
    if c.line.startswith("core "):
        # `last` (a stale stack slot) is not part of the model's output: compare the rest
        a = [x for x in c.impl.split(" ") if not x.startswith("last=")]
        b = [x for x in c.model.split(" ") if not x.startswith("last=")]
        return a == b
    return not c.line.startswith("vmrun ")


PAT_LITS = {
    "int": ["0", "1", "2", "3", "7", "63", "64", "255"],
    "char": ["'a'", "'b'", "'c'", "'d'"],
    "byte": ["b'a'", "b'b'", "b'c'"],
    "str": ['""', '"a"', '"ab"', '"b"'],
    "bool": ["true", "false"],
}


def core_pattern(rng, kind):
    lits = PAT_LITS[kind]
    if kind != "bool" and rng.random() < 0.35:
        a, b = rng.choice(lits), rng.choice(lits)
        return f"{a}{rng.choice(['..', '..='])}{b}"
    return rng.choice(lits)


def core_match(rng, sub, kind, need_default, allow_empty):
    """`match (scrutinee) { p | p => e, a..b => { e } … [_ => e] }` with all patterns of one kind (the compiler rejects mixed
    kinds); without a `_` arm the parser appends `_ => null`"""
    arms = []
    for _ in range(rng.randint(1, 3)):
        alts = " | ".join(core_pattern(rng, kind) for _ in range(rng.choice([1, 1, 2, 3])))
        r = rng.random()
        if allow_empty and r < 0.1:
            arms.append(f"{alts} => {{ }}")
        elif r < 0.4:
            arms.append(f"{alts} => {{ {sub()} }}" + rng.choice(["", ","]))
        else:
            arms.append(f"{alts} => {sub()},")
    if need_default or rng.random() < 0.5:
        arms.append(f"_ => {sub()}" if rng.random() < 0.7 else f"_ => {{ {sub()} }}")
    return f"match ({sub()}) {{ {' '.join(arms)} }}"


def core_expr(rng, names, depth):
    """an expression of the core fragment (lean/P2sh/Core): literals, unary, binary, && ||, if/else, match, globals"""
    if depth <= 0 or rng.random() < 0.25:
        r = rng.random()
        if r < 0.45:
            return str(rng.choice([0, 1, 2, 3, 7, 63, 64, 255, 9223372036854775807]))
        if r < 0.6 and names:
            return rng.choice(names)
        return rng.choice(["true", "false", "null", "'c'", "1.5", "b'a'", '""'])
    r = rng.random()
    a = lambda: core_expr(rng, names, depth - 1)
    if r < 0.4:
        op = rng.choice(["+", "-", "*", "/", "%", "==", "!=", ">", ">=", "<", "<=", "&", "|", "^", "<<", ">>"])
        return f"({a()} {op} {a()})"
    if r < 0.55:
        return f"({a()} {rng.choice(['&&', '||'])} {a()})"
    if r < 0.67:
        return f"({rng.choice(['!', '-', '~'])}{a()})"
    if r < 0.85:
        form = rng.random()
        if form < 0.6:
            return f"if {a()} {{ {a()} }} else {{ {a()} }}"
        if form < 0.8:
            return f"if {a()} {{ {a()} }}"
        if form < 0.9:
            return f"if {a()} {{ }} else {{ {a()} }}"
        return f"if {a()} {{ {a()} }} else if {a()} {{ {a()} }} else {{ {a()} }}"
    if r < 0.93:
        kind = rng.choice(["int", "int", "int", "int", "char", "byte", "str", "bool"])
        return core_match(rng, a, kind, False, True)
    if names:
        return f"({rng.choice(names)} = {a()})"
    return a()


def core_int(rng, names, depth):
    """a well-typed integer expression of the core fragment (never a runtime error): for programs that must run to their end"""
    if depth <= 0 or rng.random() < 0.3:
        if names and rng.random() < 0.5:
            return rng.choice(names)
        return str(rng.choice([0, 1, 2, 3, 7, 63, 64, 255, 9223372036854775807]))
    a = lambda: core_int(rng, names, depth - 1)
    r = rng.random()
    if r < 0.45:
        return f"({a()} {rng.choice(['+', '-', '*', '&', '|', '^', '<<', '>>'])} {a()})"
    if r < 0.55:
        return f"({rng.choice(['-', '~'])}{a()})"
    if r < 0.8:
        cond = rng.choice([f"{a()} {rng.choice(['<', '<=', '>', '>=', '==', '!='])} {a()}", f"!({a()} < {a()})", f"({a()} < {a()}) && ({a()} != {a()})", f"({a()} > {a()}) || ({a()} == {a()})"])
        return f"if {cond} {{ {a()} }} else {{ {a()} }}"
    if r < 0.88:
        return f"({a()} && {a()})" if rng.random() < 0.5 else f"({a()} || {a()})"
    if r < 0.95:
        # integer scrutinee (often masked into the window of the patterns), integer arms, always a `_` arm
        m = core_match(rng, a, "int", True, False)
        return m if rng.random() < 0.5 else m.replace("match (", "match (7 & ", 1)
    if names:
        return f"({rng.choice(names)} = {a()})"
    return a()


def core_jump(rng, loops):
    """`break` / `continue`, plain or with the label of an enclosing loop (`loops`: the labels of the enclosing loops, innermost last)"""
    kind = rng.choice(["break", "continue"])
    labs = [l for l in loops if l]
    if labs and rng.random() < 0.5:
        return f"{kind} {rng.choice(labs)};"
    return f"{kind};"


IF_END = "\x00"   # marks the last line of a statement-level `if` (see core_stmts)
NO_CONT = ("let ", "while ", "loop ", "if ", "L", "{", "}", "break", "continue")


def core_stmts(rng, names, depth, lines, ind, counter, core_expr=None, loops=()):
    """statements of the core fragment appended to `lines` (see _core_stmts).  A statement-level `if` is an expression statement:
    a following line that starts with `(`, `-`, … would continue it (a call, a subtraction), so it gets its `;` unless the
    next line starts with a keyword, a label or a brace (then, half of the time, it has none)"""
    start = len(lines)
    names = _core_stmts(rng, names, depth, lines, ind, counter, core_expr, loops)
    for j in range(start, len(lines)):
        if lines[j].endswith(IF_END):
            l = lines[j][:-1]
            nxt = lines[j + 1].lstrip() if j + 1 < len(lines) else "("
            lines[j] = l + (";" if not nxt.startswith(NO_CONT) or rng.random() < 0.5 else "")
    return names


def _core_stmts(rng, names, depth, lines, ind, counter, core_expr=None, loops=()):
    core_expr = core_expr or globals()["core_expr"]
    """statements of the core fragment: let, expression statements, blocks, `while` / `loop` with bounded counters and optional
    labels, `if` with statement blocks in statement position, break / continue (plain and labelled) under such an `if`;
    `names` = visible names (a block's names end with it); `loops` = labels of the enclosing loops"""
    names = list(names)
    for _ in range(rng.randint(1, 4 if depth else 6)):
        r = rng.random()
        if r < 0.36 or not names:
            n = rng.choice(["x", "y", "z", "w"])
            lines.append(f"{ind}let {n} = {core_expr(rng, names, 3)};")
            if n not in names:
                names.append(n)
        elif r < 0.6 or depth >= 3:
            if loops and rng.random() < 0.25:
                # a jump under an `if` (statement position), sometimes with an `else` / `else if` that carries on
                c = core_expr(rng, names, 2)
                form = rng.random()
                if form < 0.5:
                    lines.append(f"{ind}if {c} {{ {core_jump(rng, loops)} }}" + IF_END)
                elif form < 0.75:
                    lines.append(f"{ind}if {c} {{ {core_expr(rng, names, 2)}; {core_jump(rng, loops)} }} else {{ {core_expr(rng, names, 2)} }}" + IF_END)
                else:
                    lines.append(f"{ind}if {c} {{ {core_expr(rng, names, 2)} }} else if {core_expr(rng, names, 2)} {{ {core_jump(rng, loops)} }} else {{ let q = {core_expr(rng, names, 2)}; }}" + IF_END)
            else:
                lines.append(f"{ind}{core_expr(rng, names, 3)};")
        elif r < 0.68:
            lines.append(ind + "{")
            _core_stmts(rng, names, depth + 1, lines, ind + "  ", counter, core_expr, loops)
            lines.append(ind + "}")
        elif r < 0.78:
            # `if` with statement blocks in statement position
            lines.append(f"{ind}if {core_expr(rng, names, 2)} {{")
            _core_stmts(rng, names, depth + 1, lines, ind + "  ", counter, core_expr, loops)
            form = rng.random()
            if form < 0.4:
                lines.append(ind + "}" + IF_END)
            elif form < 0.8:
                lines.append(ind + "} else {")
                _core_stmts(rng, names, depth + 1, lines, ind + "  ", counter, core_expr, loops)
                lines.append(ind + "}" + IF_END)
            else:
                lines.append(f"{ind}}} else if {core_expr(rng, names, 2)} {{")
                _core_stmts(rng, names, depth + 1, lines, ind + "  ", counter, core_expr, loops)
                lines.append(ind + "}" + IF_END)
        else:
            counter[0] += 1
            i = f"i{counter[0]}"
            k = rng.randint(0, 4)
            lab = f"L{counter[0]}" if rng.random() < 0.5 else None
            head = f"{lab}: " if lab else ""
            lines.append(f"{ind}let {i} = 0;")
            if rng.random() < 0.6:
                cond = rng.choice([f"{i} < {k}", f"{i} <= {k}", f"{k} > {i}", f"({i} < {k}) && true", f"!({i} >= {k})"])
                lines.append(f"{ind}{head}while {cond} {{")
                lines.append(f"{ind}  {i} = {i} + 1;")
            else:
                lines.append(f"{ind}{head}loop {{")
                lines.append(f"{ind}  {i} = {i} + 1;")
                lines.append(f"{ind}  if {i} > {k} {{ break; }}" + IF_END)
            _core_stmts(rng, names, depth + 1, lines, ind + "  ", counter, core_expr, tuple(loops) + (lab,))
            lines.append(ind + "}")
    return names


def core_program(rng, typed=False):
    lines = []
    ex = core_int if typed else core_expr
    names = core_stmts(rng, [], 0, lines, "", [0], ex)
    lines.append(ex(rng, names, 3))
    return "\n".join(lines) + "\n"


# ---- first-order functions over the core fragment (lean/P2sh/Core/Fn; theorems compile_sound_functions, call_pushes_one) ----
INT_LITS = [0, 1, 2, 3, 7, 63, 64, 255, 9223372036854775807]


def fn_int(rng, env, depth):
    """a well-typed integer expression over the readable names `env['vars']` and calls of the integer functions
    `env['calls']` = [(name, arity)] (each terminates and returns an integer)"""
    vs = env["vars"]
    if depth <= 0 or rng.random() < 0.3:
        r = rng.random()
        if vs and r < 0.5:
            return rng.choice(vs)
        if env["calls"] and r < 0.65:
            f, n = rng.choice(env["calls"])
            return f"{f}({', '.join(fn_int(rng, env, 0) for _ in range(n))})"
        return str(rng.choice(INT_LITS))
    a = lambda: fn_int(rng, env, depth - 1)
    r = rng.random()
    if r < 0.4:
        return f"({a()} {rng.choice(['+', '-', '*', '&', '|', '^'])} {a()})"
    if r < 0.48:
        return f"({rng.choice(['-', '~'])}{a()})"
    if r < 0.7:
        cond = rng.choice([f"{a()} {rng.choice(['<', '<=', '>', '>=', '==', '!='])} {a()}", f"!({a()} < {a()})",
                           f"({a()} < {a()}) && ({a()} != {a()})", f"({a()} > {a()}) || ({a()} == {a()})"])
        return f"if {cond} {{ {a()} }} else {{ {a()} }}"
    if r < 0.78 and env["calls"]:
        f, n = rng.choice(env["calls"])
        return f"{f}({', '.join(a() for _ in range(n))})"
    if r < 0.86:
        m = core_match(rng, a, "int", True, False)
        return m if rng.random() < 0.5 else m.replace("match (", "match (7 & ", 1)
    if r < 0.93 and env["lvals"]:
        return f"({rng.choice(env['lvals'])} = {a()})"
    return a()


def fn_any(rng, env, depth):
    """an arbitrary expression of the fragment (runtime errors possible): `core_expr` with calls as atoms"""
    if env["calls"] and rng.random() < 0.3:
        f, n = rng.choice(env["calls"])
        k = n if rng.random() < 0.9 else rng.choice([max(0, n - 1), n + 1])     # sometimes the wrong number of arguments
        return f"{f}({', '.join(core_expr(rng, env['vars'], max(0, depth - 1)) for _ in range(k))})"
    return core_expr(rng, env["vars"], depth)


def fn_body(rng, env, ex, lines, ind, depth, loops, counter, in_fn=True):
    """statements of a function body (or, with in_fn=False, of the top level, where calls are the point): local `let`s
    (fresh or shadowing names; a name never occurs in its own initialiser), assignments, expression statements, blocks,
    statement-level `if`, bounded loops with `break` / `continue` / `return` inside"""
    env = dict(env, vars=list(env["vars"]), lvals=list(env["lvals"]))
    for _ in range(rng.randint(1, 3 if depth else 4)):
        r = rng.random()
        if r < 0.3:
            n = rng.choice(["t", "u", "v", "a", "b"]) if rng.random() < 0.7 else f"t{counter[0]}"
            counter[0] += 1
            init_env = dict(env, vars=[x for x in env["vars"] if x != n], lvals=[x for x in env["lvals"] if x != n])
            lines.append(f"{ind}let {n} = {ex(rng, init_env, 2)};")
            if n not in env["vars"]:
                env["vars"].append(n)
            if n not in env["lvals"]:
                env["lvals"].append(n)
        elif r < 0.45 and env["lvals"]:
            lines.append(f"{ind}{rng.choice(env['lvals'])} = {ex(rng, env, 2)};")
        elif r < 0.58:
            lines.append(f"{ind}{ex(rng, env, 2)};")
        elif r < 0.66 and depth < 3:
            lines.append(ind + "{")
            fn_body(rng, env, ex, lines, ind + "  ", depth + 1, loops, counter, in_fn)
            lines.append(ind + "}")
        elif r < 0.8 and depth < 3:
            lines.append(f"{ind}if {ex(rng, env, 1)} > {ex(rng, env, 1)} {{")
            fn_body(rng, env, ex, lines, ind + "  ", depth + 1, loops, counter, in_fn)
            if in_fn and rng.random() < 0.3:
                lines.append(f"{ind}  return {ex(rng, env, 1)};" if rng.random() < 0.8 else f"{ind}  return;")
            if rng.random() < 0.5:
                lines.append(ind + "} else {")
                fn_body(rng, env, ex, lines, ind + "  ", depth + 1, loops, counter, in_fn)
            lines.append(ind + "};")
        elif depth < 3:
            counter[0] += 1
            i = f"i{counter[0]}"
            k = rng.randint(0, 4)
            lab = f"L{counter[0]}" if rng.random() < 0.4 else None
            head = f"{lab}: " if lab else ""
            lines.append(f"{ind}let {i} = 0;")
            if rng.random() < 0.6:
                lines.append(f"{ind}{head}while {i} < {k} {{")
                lines.append(f"{ind}  {i} = {i} + 1;")
            else:
                lines.append(f"{ind}{head}loop {{")
                lines.append(f"{ind}  {i} = {i} + 1;")
                lines.append(f"{ind}  if {i} > {k} {{ break; }};")
            # the loop counter is readable where assignments are kept apart from reads (`fn_int`); `core_expr` could assign to it
            lenv = dict(env, vars=env["vars"] + [i]) if ex is fn_int else env
            lp = tuple(loops) + (lab,)
            q = rng.random()
            if q < 0.35 and in_fn:
                lines.append(f"{ind}  if {ex(rng, lenv, 1)} > {ex(rng, lenv, 1)} {{ return {ex(rng, lenv, 1)}; }};")
            elif q < 0.55:
                lines.append(f"{ind}  if {ex(rng, lenv, 1)} > {ex(rng, lenv, 1)} {{ {core_jump(rng, lp)} }};")
            fn_body(rng, lenv, ex, lines, ind + "  ", depth + 1, lp, counter, in_fn)
            lines.append(ind + "}")
        else:
            lines.append(f"{ind}{ex(rng, env, 2)};")
    return env


def core_fn_program(rng, typed=True):
    """a program of lean/P2sh/Core/Fn: global data, 1–3 functions (straight-line with locals, bounded recursion through the
    function's own name, mutual recursion through a forward-declared global, loops with early `return`), calls from the
    top level (in expressions, in loops), sometimes a call with the wrong number of arguments"""
    q = rng.random()
    if q < 0.3:
        return core_clos_program(rng)      # closures: function literals inside function bodies capturing locals and parameters
    if q < 0.5:
        return core_heap_program(rng)      # arrays and maps: shared objects, aliases, index reads and writes
    if q < 0.65:
        return core_builtin_program(rng)   # the pure builtins called by name on shared arrays and maps
    ex = fn_int if typed else fn_any
    lines = []
    counter = [0]
    gvars = []
    for j in range(rng.randint(0, 2)):
        lines.append(f"let g{j} = {rng.choice(INT_LITS[:6])};")
        gvars.append(f"g{j}")
    calls = []        # integer functions callable so far
    rec = set()       # the recursive ones
    for j in range(rng.randint(1, 3)):
        f = f"f{j}"
        kind = rng.random()
        if kind < 0.22:
            # bounded recursion through the function's own name (CurrClosure)
            form = rng.random()
            if form < 0.4:
                lines.append(f"fn {f}(n) {{ if n < 2 {{ 1 }} else {{ n * {f}(n - 1) }} }}")
            elif form < 0.7:
                lines.append(f"let {f} = fn(n, acc) {{ if n <= 0 {{ return acc; }} {f}(n - 1, acc + n) }};")
                calls.append((f, 2)); rec.add(f); continue
            else:
                lines.append(f"fn {f}(n) {{")
                lines.append(f"  if n < 2 {{ return n; }}")
                lines.append(f"  let a = {f}(n - 1);")
                lines.append(f"  let b = {f}(n - 2);")
                lines.append(f"  a + b")
                lines.append("}")
            calls.append((f, 1)); rec.add(f)
            # recursion depth / cost bounded by masking the argument at the call sites: see `arg` below
        elif kind < 0.36:
            # mutual recursion through a global declared before (the second function is assigned)
            o = f"h{j}"
            lines.append(f"let {o} = null;")
            lines.append(f"fn {f}(n) {{ if n == 0 {{ 1 }} else {{ {o}(n - 1) }} }}")
            lines.append(f"{o} = fn(n) {{ if n == 0 {{ 0 }} else {{ {f}(n - 1) }} }};")
            calls.append((f, 1)); calls.append((o, 1)); rec.add(f); rec.add(o)
        else:
            np_ = rng.randint(0, 3)
            ps = [f"p{q}" for q in range(np_)]
            lines.append(f"fn {f}({', '.join(ps)}) {{")
            # the body may call the functions defined so far, but not the recursive ones with unbounded arguments
            env = {"vars": gvars + ps, "lvals": gvars + ps, "calls": []}
            env = fn_body(rng, env, ex, lines, "  ", 1, (), counter)
            end = rng.random()
            if end < 0.45:
                lines.append(f"  {ex(rng, env, 2)}")
            elif end < 0.7:
                lines.append(f"  return {ex(rng, env, 2)};")
            elif end < 0.8 and typed:
                lines.append(f"  if {ex(rng, env, 1)} > {ex(rng, env, 1)} {{ {ex(rng, env, 1)} }} else {{ {ex(rng, env, 1)} }}")
            elif not typed:
                pass          # no final expression: the function returns null (or the value of a final `if`)
            else:
                lines.append(f"  {ex(rng, env, 1)}")
            lines.append("}")
            if np_ <= 3:
                calls.append((f, np_)) if typed or True else None
    # the top level: calls (arguments of recursive functions are masked to stay small)
    env = {"vars": gvars, "lvals": gvars, "calls": []}
    def call(rng):
        f, n = rng.choice(calls)
        k = n
        if rng.random() < 0.06:
            k = rng.choice([max(0, n - 1), n + 1])
        args = []
        for _ in range(k):
            if f in rec:
                # the arguments of the recursive functions stay small (depth and cost of the recursion)
                args.append(rng.choice([str(rng.randint(0, 6)), f"(7 & {fn_int(rng, env, 1)})"]))
            else:
                args.append(f"(7 & {ex(rng, env, 1)})" if typed else rng.choice([str(rng.randint(0, 6)), f"(7 & {fn_int(rng, env, 1)})", core_expr(rng, gvars, 1)]))
        return f"{f}({', '.join(args)})"
    for j in range(rng.randint(1, 4)):
        r = rng.random()
        if r < 0.45:
            lines.append(f"let r{j} = {call(rng)};")
            env["vars"].append(f"r{j}"); gvars.append(f"r{j}") if False else None
        elif r < 0.6:
            lines.append(f"{call(rng)};")
        elif r < 0.75:
            lines.append(f"let s{j} = {call(rng)} + {call(rng)};")
        elif r < 0.9:
            counter[0] += 1
            i = f"i{counter[0]}"
            lines.append(f"let {i} = 0;")
            lines.append(f"while {i} < {rng.randint(1, 4)} {{")
            lines.append(f"  {i} = {i} + 1;")
            lines.append(f"  let w = {call(rng)};")
            if rng.random() < 0.4:
                lines.append(f"  if w > {rng.choice([0, 1, 5, 100])} {{ {rng.choice(['break', 'continue'])}; }};")
            if env["lvals"]:
                lines.append(f"  {rng.choice(env['lvals'])} = w;")
            lines.append("}")
        else:
            lines.append(f"if {call(rng)} > {rng.choice([0, 1, 5])} {{ {call(rng)}; }} else {{ let y = {call(rng)}; }};")
    return "\n".join(lines) + "\n"


# ---- closures over the layer with functions (lean/P2sh/Core/Fn: mkclos / fget / fset; theorems compile_sound_functions,
#      C04Closure.closure_snapshot, captured_assignment_is_private) ----
CLOS_LITS = [0, 1, 2, 3, 5, 7, 10, 100]


def clos_int(rng, ints, funs, depth, assign=True):
    """an integer expression over the integer variables `ints` (parameters, locals, captured variables, globals) and calls of
    the integer closures `funs` = [(name, arity)]; non-commutative operators dominate so that a swapped capture is visible;
    with `assign`, assignments to any of `ints` (a captured one changes the closure's own copy) may occur inside"""
    if depth <= 0 or rng.random() < 0.3:
        r = rng.random()
        if ints and r < 0.6:
            return rng.choice(ints)
        if funs and r < 0.78:
            f, n = rng.choice(funs)
            return f"{f}({', '.join(clos_int(rng, ints, [], 0) for _ in range(n))})"
        return str(rng.choice(CLOS_LITS))
    a = lambda: clos_int(rng, ints, funs, depth - 1, assign)
    r = rng.random()
    if r < 0.5:
        return f"({a()} {rng.choice(['-', '-', '-', '+', '*'])} {a()})"
    if r < 0.65:
        return f"if {a()} {rng.choice(['<', '<=', '>', '>=', '==', '!='])} {a()} {{ {a()} }} else {{ {a()} }}"
    if r < 0.8 and funs:
        f, n = rng.choice(funs)
        return f"{f}({', '.join(a() for _ in range(n))})"
    if r < 0.92 and ints and assign:
        return f"({rng.choice(ints)} = {a()})"
    return a()


def clos_body(rng, ints, funs, depth, counter, ind, ret_fn=None):
    """the statements of a function body, one per line: local `let`s, assignments (also to captured variables), nested
    function literals and `fn` statements that capture what is visible (called here, or returned when `ret_fn` gives the arity
    of the closure the function must return), blocks that shadow a captured name, loops creating a closure per iteration;
    returns the text lines"""
    ints = list(ints)
    funs = list(funs)
    out = []
    def fresh(p):
        counter[0] += 1
        return f"{p}{counter[0]}"
    for _ in range(rng.randint(0, 3)):
        r = rng.random()
        if r < 0.3:
            n = fresh("t")
            out.append(f"{ind}let {n} = {clos_int(rng, ints, funs, 2)};")
            ints.append(n)
        elif r < 0.45 and ints:
            out.append(f"{ind}{rng.choice(ints)} = {clos_int(rng, ints, funs, 2)};")
        elif r < 0.7 and depth > 0:
            # a nested closure over everything visible, stored in a local
            h = fresh("h")
            ar = rng.randint(0, 2)
            lit = clos_literal(rng, ints, funs, depth - 1, counter, ind, ar, name=h if rng.random() < 0.4 else None)
            if lit.startswith("fn " + h):
                out.append(f"{ind}{lit}")
            else:
                out.append(f"{ind}let {h} = {lit};")
            funs.append((h, ar))
        elif r < 0.8 and ints:
            # a block that shadows a (possibly captured) name; afterwards the outer binding is visible again
            v = rng.choice(ints)
            others = [x for x in ints if x != v]
            out.append(f"{ind}{{")
            out.append(f"{ind}  let {v} = {clos_int(rng, others, funs, 1)};")
            tgt = rng.choice(others) if others else v
            out.append(f"{ind}  {tgt} = {clos_int(rng, ints, funs, 1)};")
            out.append(f"{ind}}}")
        elif r < 0.92 and depth > 0:
            # a closure per iteration capturing the loop-local; each is called in its iteration and the last one afterwards
            i = fresh("i"); j = fresh("j"); h = fresh("h"); acc = fresh("s")
            out.append(f"{ind}let {i} = 0;")
            out.append(f"{ind}let {acc} = 0;")
            out.append(f"{ind}let {h} = null;")
            out.append(f"{ind}while {i} < {rng.randint(1, 3)} {{")
            out.append(f"{ind}  {i} = {i} + 1;")
            out.append(f"{ind}  let {j} = {clos_int(rng, ints + [i], funs, 1, assign=False)};")
            lit = clos_literal(rng, ints + [j, acc], funs, depth - 1, counter, ind + "  ", 1)
            out.append(f"{ind}  {h} = {lit};")
            out.append(f"{ind}  {acc} = {acc} * 3 - {h}({i});")
            out.append(f"{ind}}}")
            ints.append(acc)
            funs.append((h, 1))
        else:
            out.append(f"{ind}{clos_int(rng, ints, funs, 2)};")
    if ret_fn is not None:
        lit = clos_literal(rng, ints, funs, max(0, depth - 1), counter, ind, ret_fn)
        out.append(f"{ind}return {lit};" if rng.random() < 0.6 else f"{ind}{lit}")
    else:
        e = clos_int(rng, ints, funs, 2)
        out.append(f"{ind}return {e};" if rng.random() < 0.3 else f"{ind}{e}")
    return out


def clos_literal(rng, ints, funs, depth, counter, ind, arity, name=None, ret_fn=None):
    """`fn(p…) { … }` (or `fn name(p…) { … }`) written where `ints` / `funs` are visible: it captures what it uses"""
    counter[0] += 1
    ps = [f"p{counter[0]}_{q}" for q in range(arity)]
    # a parameter sometimes hides a visible name
    if ps and ints and rng.random() < 0.15:
        ps[0] = rng.choice(ints)
    inner_ints = [x for x in ints if x not in ps] + ps
    body = clos_body(rng, inner_ints, funs, depth, counter, ind + "  ", ret_fn)
    head = f"fn {name}({', '.join(ps)})" if name else f"fn({', '.join(ps)})"
    return head + " {\n" + "\n".join(body) + f"\n{ind}}}"


def core_clos_program(rng):
    """a program of lean/P2sh/Core/Fn with closures: makers returning closures over parameters and locals (≥ 2 captures, used
    non-commutatively), counters assigning to their captured copy, closures created in loops, two-level nests (capture
    chains), closures stored in globals and called after the maker returned, aliases of one closure object, closures passed
    as arguments, a function's own name used from a nested function"""
    counter = [0]
    lines = []
    gints = []
    for j in range(rng.randint(0, 2)):
        lines.append(f"let g{j} = {rng.choice(CLOS_LITS)};")
        gints.append(f"g{j}")
    makers = []   # (name, arity of the maker, arity of what it returns, levels)
    intfns = []
    for j in range(rng.randint(1, 3)):
        f = f"f{j}"
        kind = rng.random()
        if kind < 0.45:
            ar, rar = rng.randint(1, 3), rng.randint(0, 2)
            lit = clos_literal(rng, gints, intfns, 2, counter, "", ar, name=f, ret_fn=rar)
            lines.append(lit if rng.random() < 0.6 else f"let {f} = fn" + lit[len("fn " + f):] + ";")
            makers.append((f, ar, rar))
        elif kind < 0.6:
            # a counter: the captured copy is assigned; every closure object has its own
            lines.append(f"fn {f}(s) {{\n  let n = s;\n  return fn(d) {{ n = n + d; n }};\n}}")
            makers.append((f, 1, 1))
        elif kind < 0.7:
            # a capture chain through an intermediate function that does not use the variable itself
            lines.append(f"fn {f}(a, b) {{\n  let c = a - b;\n  fn(x) {{\n    fn(y) {{ ((a - b) * 100 + (c - x) * 10) - y }}\n  }}\n}}")
            lines.append(f"let k{j} = {f}({rng.randint(0, 9)}, {rng.randint(0, 9)});")
            lines.append(f"let m{j} = k{j}({rng.randint(0, 9)});")
            intfns.append((f"m{j}", 1))
        elif kind < 0.8:
            # the function's own name used from a nested function
            lines.append(f"fn {f}(n) {{\n  let h = fn(k) {{ if k < 1 {{ 0 }} else {{ k - {f}(k - 1) }} }};\n  h(n)\n}}")
            lines.append(f"let w{j} = {f}({rng.randint(0, 6)});")
        elif kind < 0.9:
            # the enclosing function changes its variable after the closure was created; the closure changes its copy
            lines.append(f"fn {f}(a) {{\n  let h = fn() {{ a = a * 2; a }};\n  a = a + 100;\n  let x = h();\n  let y = h();\n  (a * 10000 + x * 100) - y\n}}")
            intfns.append((f, 1))
        else:
            ar = rng.randint(0, 2)
            lit = clos_literal(rng, gints, intfns, 2, counter, "", ar, name=f)
            lines.append(lit)
            intfns.append((f, ar))
    # the top level: closures made, stored in globals, aliased, called after their makers returned
    arg = lambda: str(rng.randint(0, 9)) if rng.random() < 0.7 else (rng.choice(gints) if gints else "4")
    made = list(intfns)
    n = 0
    for _ in range(rng.randint(2, 6)):
        n += 1
        r = rng.random()
        if makers and r < 0.45:
            f, ar, rar = rng.choice(makers)
            lines.append(f"let c{n} = {f}({', '.join(arg() for _ in range(ar))});")
            made.append((f"c{n}", rar))
        elif made and r < 0.85:
            f, ar = rng.choice(made)
            k = ar if rng.random() < 0.95 else ar + 1
            lines.append(f"let r{n} = {f}({', '.join(arg() for _ in range(k))});")
            gints.append(f"r{n}")
        elif made and r < 0.92:
            f, ar = rng.choice(made)
            lines.append(f"let d{n} = {f};")
            made.append((f"d{n}", ar))
        elif made:
            f, ar = rng.choice(made)
            lines.append(f"let i{n} = 0;")
            lines.append(f"let s{n} = 0;")
            lines.append(f"while i{n} < 3 {{")
            lines.append(f"  i{n} = i{n} + 1;")
            lines.append(f"  s{n} = s{n} * 2 - {f}({', '.join(f'i{n}' for _ in range(ar))});")
            lines.append("}")
        else:
            lines.append(f"let r{n} = {arg()};")
    text = "\n".join(lines) + "\n"
    if rng.random() < 0.08:
        # a runtime fault somewhere (often inside a closure's body): the line of the failing operation is reported
        spots = [m.start() for m in re.finditer(r" - ", text)]
        if spots:
            k = rng.choice(spots)
            text = text[:k] + " - true" + text[k:]
    return text


# ---- arrays and maps: shared objects (lean/P2sh/Core/Fn; theorems index_assignment_aliases, array_literal_fresh, …) ----
HEAP_KEYS = ['1', '2', '7', '"a"', '"b"', '""', "'c'", "b'x'", 'true', 'false', 'null', '1.0', '2.5', '[1, 2]', '[]', '["a", 1]']
HEAP_BADKEYS = ['map {}', 'fn(x) { x }', 'map {1: 2}']


class HeapEnv:
    """what the generator knows about the program so far: integer variables, arrays of integers with a length that is a
    lower bound (elements 0 … len-1 are integers), maps with the keys known to be present with integer values, arrays of
    arrays (never stored anywhere: no cycles), functions; `frozen`: arrays used as map keys (never written afterwards)"""

    def __init__(self, rng):
        self.rng = rng
        self.ints, self.arrs, self.maps, self.nests, self.lines = [], {}, {}, {}, []
        self.n = 0
        self.setters, self.readers, self.mutreaders, self.getters, self.makers = [], [], [], [], []
        self.frozen = set()

    def fresh(self, p):
        self.n += 1
        return f"{p}{self.n}"

    def lit(self):
        return str(self.rng.choice([0, 1, 2, 3, 5, 9, 17, 100]))

    def iexp(self, d=2):
        rng = self.rng
        r = rng.random()
        if d <= 0 or r < 0.25:
            if self.ints and rng.random() < 0.5:
                return rng.choice(self.ints)
            return self.lit()
        if r < 0.45 and self.arrs:
            a = rng.choice(list(self.arrs))
            return f"{a}[{rng.randrange(self.arrs[a])}]"
        if r < 0.55 and self.maps:
            m = rng.choice(list(self.maps))
            if self.maps[m]:
                return f"{m}[{rng.choice(self.maps[m])}]"
        if r < 0.62 and self.nests:
            n = rng.choice(list(self.nests))
            i = rng.randrange(len(self.nests[n]))
            return f"{n}[{i}][{rng.randrange(self.nests[n][i])}]"
        if r < 0.68 and (self.readers or self.mutreaders) and self.arrs:
            a = rng.choice(list(self.arrs))
            fs = self.readers + ([] if self.frozen else self.mutreaders)
            if fs:
                return f"{rng.choice(fs)}({a}, {rng.randrange(self.arrs[a])})"
        if r < 0.72 and self.getters:
            g, ln = rng.choice(self.getters)
            return f"{g}({rng.randrange(ln)})"
        if r < 0.78 and self.arrs:
            a = rng.choice(list(self.arrs))
            b = rng.choice(list(self.arrs))
            c = rng.choice([f"{a} == {b}", f"{a} != {b}", f"{a}", f"!{a}", f"{a} == [{self.lit()}]", f"{a} && {b}[0] > 1"])
            return f"if {c} {{ {self.iexp(d - 1)} }} else {{ {self.iexp(d - 1)} }}"
        return f"({self.iexp(d - 1)} {rng.choice(['+', '-', '*'])} {self.iexp(d - 1)})"

    def arrlit(self, lo=1):
        k = self.rng.randint(lo, 4)
        return "[" + ", ".join(self.iexp(1) for _ in range(k)) + "]", k


def core_heap_program(rng):
    """a program of lean/P2sh/Core/Fn with arrays and maps: literals (nested, duplicate keys, keys of every valid kind and
    arrays as keys), aliases through globals, parameters, locals and captured variables, index reads and writes through every
    alias, `+` building a new array, `==` / truthiness of containers, loops over indices, and — in some programs — one failing
    operation (index out of range, negative, missing key, invalid key, indexing a non-container, writing past the end)"""
    E = HeapEnv(rng)
    L = E.lines
    frozen = E.frozen
    for _ in range(rng.randint(0, 2)):
        v = E.fresh("g")
        L.append(f"let {v} = {E.lit()};")
        E.ints.append(v)
    # functions working on containers passed as arguments / captured
    for _ in range(rng.randint(0, 3)):
        r = rng.random()
        f = E.fresh("f")
        if r < 0.25:
            L.append(f"fn {f}(p, i, v) {{ p[i] = v; p }}")
            E.setters.append(f)
        elif r < 0.5:
            L.append(f"fn {f}(p, i) {{ let q = p; q[i] }}")
            E.readers.append(f)
        elif r < 0.7:
            L.append(f"fn {f}(p, i) {{ p[i] = p[i] + 1; return p[i] * 2; }}")
            E.mutreaders.append(f)
        else:
            L.append(f"fn {f}(a) {{ fn(i) {{ a[i] }} }}")
            E.makers.append(f)
    steps = rng.randint(3, 9)
    for _ in range(steps):
        r = rng.random()
        arrs = [a for a in E.arrs]
        if r < 0.16 or not arrs:
            a = E.fresh("a")
            lit, k = E.arrlit()
            L.append(f"let {a} = {lit};")
            E.arrs[a] = k
        elif r < 0.26:
            b = E.fresh("b")
            a = rng.choice(arrs)
            L.append(f"let {b} = {a};")
            E.arrs[b] = E.arrs[a]
            if a in frozen:
                frozen.add(b)
        elif r < 0.40:
            ws = [a for a in arrs if a not in frozen]
            if ws:
                a = rng.choice(ws)
                L.append(f"{a}[{rng.randrange(E.arrs[a])}] = {E.iexp(2)};")
        elif r < 0.48:
            m = E.fresh("m")
            ks = [rng.choice(HEAP_KEYS) for _ in range(rng.randint(0, 4))]
            L.append(f"let {m} = map {{" + ", ".join(f"{k}: {E.iexp(1)}" for k in ks) + "};")
            E.maps[m] = list(dict.fromkeys(ks))
        elif r < 0.56 and E.maps:
            m = rng.choice(list(E.maps))
            k = rng.choice(HEAP_KEYS)
            L.append(f"{m}[{k}] = {E.iexp(1)};")
            if k not in E.maps[m]:
                E.maps[m].append(k)
        elif r < 0.60 and E.maps and arrs:
            # an array variable as a key: it is never written afterwards (the hash of a stored key must not change)
            m = rng.choice(list(E.maps))
            a = rng.choice(arrs)
            frozen.add(a)
            L.append(f"{m}[{a}] = {E.iexp(1)};")
            E.maps[m].append(a)
            # every alias of `a` is frozen too: conservatively freeze all arrays
            frozen.update(E.arrs)
        elif r < 0.68:
            n = E.fresh("n")
            parts, lens = [], []
            for _ in range(rng.randint(1, 3)):
                if arrs and rng.random() < 0.6:
                    a = rng.choice(arrs)
                    parts.append(a); lens.append(E.arrs[a])
                else:
                    lit, k = E.arrlit()
                    parts.append(lit); lens.append(k)
            L.append(f"let {n} = [{', '.join(parts)}];")
            E.nests[n] = lens
            if any(p in frozen for p in parts):
                frozen.add(n)
        elif r < 0.74 and E.nests:
            ws = [n for n in E.nests if n not in frozen and not frozen]
            if ws:
                n = rng.choice(ws)
                i = rng.randrange(len(E.nests[n]))
                L.append(f"{n}[{i}][{rng.randrange(E.nests[n][i])}] = {E.iexp(1)};")
        elif r < 0.80 and len(arrs) >= 1:
            c = E.fresh("c")
            a, b = rng.choice(arrs), rng.choice(arrs)
            L.append(f"let {c} = {a} + {b};")
            E.arrs[c] = E.arrs[a] + E.arrs[b]
        elif r < 0.86 and E.setters:
            ws = [a for a in arrs if a not in frozen]
            if ws:
                a = rng.choice(ws)
                f = rng.choice(E.setters)
                b = E.fresh("b")
                L.append(f"let {b} = {f}({a}, {rng.randrange(E.arrs[a])}, {E.iexp(1)});")
                E.arrs[b] = E.arrs[a]
        elif r < 0.90 and E.makers:
            a = rng.choice(arrs)
            g = E.fresh("h")
            L.append(f"let {g} = {rng.choice(E.makers)}({a});")
            E.getters.append((g, E.arrs[a]))
        elif r < 0.95:
            ws = [a for a in arrs if a not in frozen]
            if ws:
                a = rng.choice(ws)
                i = E.fresh("i")
                L.append(f"let {i} = 0;")
                L.append(f"while {i} < {E.arrs[a]} {{ {a}[{i}] = {a}[{i}] * 2 + {i}; {i} = {i} + 1; }}")
        else:
            # locals: a literal evaluated on every call is a fresh object each time; an alias inside the function
            f = E.fresh("f")
            L.append(f"fn {f}(n) {{ let t = [n, n * 2]; let u = t; u[0] = 7; let w = [t, [n]]; w[1][0] = t[0] + t[1]; w[1][0] - n }}")
            v = E.fresh("r")
            L.append(f"let {v} = {f}({E.iexp(1)}) - {f}({E.lit()});")
            E.ints.append(v)
        if rng.random() < 0.35:
            v = E.fresh("r")
            L.append(f"let {v} = {E.iexp(2)};")
            E.ints.append(v)
    v = E.fresh("r")
    L.append(f"let {v} = {E.iexp(3)};")
    if rng.random() < 0.2:
        # one failing operation
        arrs = list(E.arrs)
        a = rng.choice(arrs) if arrs else None
        m = rng.choice(list(E.maps)) if E.maps else None
        bad = [f"let z = 5[0];", f"let z = \"s\"[0];", f"let z = map {{{rng.choice(HEAP_BADKEYS)}: 1}};", "let z = [1, 2][2];", "let z = [][0];",
               "let z = map {1: null}[1];", "let z = [1][true];", "let z = (fn(x) { x })[0];"]
        if a:
            bad += [f"let z = {a}[{E.arrs[a] + 40}];", f"let z = {a}[-1];", f"let z = {a}[0 - 1];", f"{a}[{E.arrs[a] + 40}] = 1;", f"let z = {a}[\"k\"];",
                    f"let z = {a}[1.0];", f"{a}[-1] = 0;", f"let z = {a}[{a}];"]
        if m:
            bad += [f"let z = {m}[\"absent\"];", f"let z = {m}[{rng.choice(HEAP_BADKEYS)}];", f"{m}[{rng.choice(HEAP_BADKEYS)}] = 1;", f"let z = {m}[12345];"]
        k = rng.randrange(len(L) + 1)
        L.insert(max(k, len(L) - 3), rng.choice(bad))
    return "\n".join(L) + "\n"


CORE_HEAP_FIXED = [
    "let a = [1, 2, 3];\nlet b = a;\nb[0] = 9;\nlet x = a[0];\n",
    "fn lit() { [1, 2] }\nlet a = lit();\nlet b = lit();\na[0] = 5;\nlet x = b[0];\nlet e = a == b;\n",
    "let m = map {1: \"a\", 1.0: \"b\", \"k\": 1, \"k\": 2};\nlet x = m[1];\nlet y = m[\"k\"];\n",
    "let a = [1];\nlet b = [2];\nlet c = a + b;\nc[0] = 7;\nlet x = a[0];\nlet y = c[0];\nlet d = a + a;\nd[1] = 5;\nlet z = a[0];\n",
    "fn mk(a) { fn(i, v) { a[i] = v; a } }\nlet arr = [1, 2, 3];\nlet f = mk(arr);\nlet r = f(1, 20);\nlet s = arr[1];\nlet t = r == arr;\n",
    "let w = [[1, 2], [3]];\nlet p = w[0];\np[1] = 10;\nlet x = w[0][1];\nw[1] = p;\nw[1][0] = 4;\nlet y = w[0][0];\n",
    "let m = map {[1, 2]: \"x\", [1]: \"y\"};\nlet k = [1, 2];\nlet x = m[k];\nm[[1]] = \"z\";\nlet y = m[[1]];\nlet mm = map {\"in\": m};\nmm[\"in\"][3] = 4;\nlet z = m[3];\n",
    "let a = [1, 2];\nlet x = a[2];\n",
    "let a = [1, 2];\nlet x = a[-1];\n",
    "let a = [1, 2];\na[2] = 0;\n",
    "let m = map {1: 2};\nlet x = m[3];\n",
    "let m = map {1: 2};\nlet x = m[map {}];\n",
    "let m = map {fn(x) { x }: 2};\n",
    "let m = map {1: null};\nlet x = m[1];\n",
    "let x = 5[0];\n",
    "let a = [1];\nlet x = a[\"k\"];\n",
    "let a = [];\nlet r = 0;\nif a { r = 1; } else { r = 2; }\nlet b = [0];\nif b { r = r + 10; }\nlet n = !a;\nlet q = a || 7;\nlet m = map {};\nlet t = m && 1;\nwhile b { b = []; r = r + 100; }\n",
    "let a = [1, 2];\nlet r = match a { 1 => 10, _ => 20 };\nlet s = (a[0] = 5) + a[0];\nlet i = 0;\nlet t = a[i = 1];\n",
    "let a = [1, [2, 3]];\nlet b = [1, [2, 3]];\nlet e = a == b;\nb[1][0] = 9;\nlet f = a == b;\nlet g = a != b;\nlet h = map {1: a} == map {1: a};\n",
    "let a = [3, 4];\nlet i = 0;\nlet s = 0;\nwhile i < 2 { let t = [a[i], i]; s = s * 10 + t[0] - t[1]; a[i] = t; i = i + 1; }\nlet x = a[1][0];\n",
    "fn f(p) { p[0] = p[0] + 1; p }\nlet a = [0];\nlet b = f(f(f(a)));\nlet x = a[0];\nlet y = b == a;\n",
    "fn f() { let t = [0]; fn() { t[0] = t[0] + 1; t[0] } }\nlet c = f();\nlet d = f();\nlet r1 = c();\nlet r2 = c();\nlet r3 = d();\n",
    "let a = [1, 2, 3];\nlet b = a[1 - 2];\n",
    "let a = [1];\nlet b = a + 1;\n",
    "let a = [1];\nlet b = a - a;\n",
    "let m = map {1: 2};\nlet b = m + m;\n",
    "let a = [1];\nlet b = a < a;\n",
]


# ---- pure builtins called by name (lean/P2sh/Core/Fn: `bfn`, `callBuiltinH`; theorem builtin_call_correct) ----
def core_builtin_program(rng):
    """a program of lean/P2sh/Core/Fn calling the pure builtins by name: `len`, `first`, `last`, `rest`, `push`, `pop`, `get`,
    `contains`, `insert`, `str`, `int`, `sort`, `chars`, `join`, `tolower`, `toupper`, `is_error`, `char`, `byte` on shared
    arrays and maps (a mutating builtin changes the object every alias sees; `rest` / `chars` build new objects), builtins as
    values (`let f = len;`), user bindings that shadow a builtin (a global, a parameter, a local in a block — after the block
    the builtin is visible again), wrong arities and argument kinds (runtime errors)"""
    L = []
    n = [0]

    def fresh(p):
        n[0] += 1
        return f"{p}{n[0]}"

    arrs, maps, ints, strs = {}, [], [], []
    lit = lambda: str(rng.choice([0, 1, 2, 3, 5, 9, 17, 100]))

    def iexp(d=2):
        r = rng.random()
        if d <= 0 or r < 0.2:
            return rng.choice(ints) if ints and rng.random() < 0.5 else lit()
        if r < 0.35 and arrs:
            return f"len({rng.choice(list(arrs))})"
        if r < 0.45 and arrs:
            a = rng.choice(list(arrs))
            return rng.choice([f"first({a})", f"last({a})", f"get({a}, {rng.randrange(3)})", f"{a}[0]"]) if arrs[a] > 0 else f"len({a})"
        if r < 0.52 and strs:
            return f"len({rng.choice(strs)})"
        if r < 0.6:
            return f"int(\"{rng.choice(['12', '-7', '0', '99'])}\")"
        if r < 0.66 and maps:
            m = rng.choice(maps)
            return f"if contains({m}, {rng.choice(['1', '2', chr(34) + 'a' + chr(34)])}) {{ {iexp(d - 1)} }} else {{ len({m}) }}"
        if r < 0.72:
            return f"int({rng.choice(['true', 'false', chr(39) + 'a' + chr(39), 'b' + chr(39) + 'x' + chr(39), lit()])})"
        return f"({iexp(d - 1)} {rng.choice(['+', '-', '*'])} {iexp(d - 1)})"

    if rng.random() < 0.3:
        f = fresh("f")
        L.append(f"fn {f}(len) {{ len + 1 }}")      # a parameter named like a builtin
        ints_f = f
    else:
        ints_f = None
    for _ in range(rng.randint(4, 10)):
        r = rng.random()
        A = list(arrs)
        if r < 0.15 or not A:
            a = fresh("a")
            k = rng.randint(1, 4)
            L.append(f"let {a} = [" + ", ".join(iexp(1) for _ in range(k)) + "];")
            arrs[a] = k
        elif r < 0.27:
            a = rng.choice(A)
            L.append(f"push({a}, {iexp(1)});")
            arrs[a] += 1
        elif r < 0.35:
            a = rng.choice(A)
            v = fresh("p")
            L.append(f"let {v} = pop({a});")
            if arrs[a] > 0:
                arrs[a] -= 1
                ints.append(v)
        elif r < 0.42:
            a = rng.choice(A)
            b = fresh("b")
            L.append(f"let {b} = {a};")
            arrs[b] = 0            # lengths of aliases are not tracked: only `len`, `push`, `pop`, `get` on them
            arrs[a] = 0
        elif r < 0.5:
            a = rng.choice(A)
            c = fresh("c")
            L.append(f"let {c} = rest({a});")
            if arrs[a] >= 2:
                arrs[c] = arrs[a] - 1
                L.append(f"{c}[0] = {iexp(1)};")
        elif r < 0.57:
            m = fresh("m")
            L.append(f"let {m} = map {{" + ", ".join(f"{k}: {iexp(1)}" for k in rng.sample(['1', '2', '"a"', '"b"', 'true'], rng.randint(0, 3))) + "};")
            maps.append(m)
        elif r < 0.65 and maps:
            m = rng.choice(maps)
            v = fresh("o")
            L.append(f"let {v} = insert({m}, {rng.choice(['1', '2', chr(34) + 'a' + chr(34), '[1]'])}, {iexp(1)});")
        elif r < 0.7 and maps:
            m = rng.choice(maps)
            v = fresh("g")
            L.append(f"let {v} = get({m}, {rng.choice(['1', '2', chr(34) + 'a' + chr(34), chr(34) + 'zz' + chr(34)])});")
        elif r < 0.77:
            s = fresh("s")
            what = rng.choice([iexp(1), rng.choice(A), '"Ab"', "'c'", "true", "null", "[1, [2, \"x\"], null]"] + maps[:1])
            L.append(f"let {s} = str({what});")
            strs.append(s)
        elif r < 0.82:
            a = rng.choice(A)
            s = fresh("t")
            L.append(f"let {s} = sort({a});")
            L.append(f"push({s}, {lit()});")
            arrs[a] = 0
        elif r < 0.86:
            s = fresh("u")
            L.append(f"let {s} = {rng.choice(['toupper', 'tolower'])}({rng.choice(strs) if strs else chr(34) + 'aBc' + chr(34)});")
            strs.append(s)
        elif r < 0.9:
            s = fresh("w")
            src = rng.choice(strs) if strs else '"hey"'
            L.append(f"let {s} = chars({src});")
            L.append(f"let {fresh('j')} = join({s}, \"-\");")
        elif r < 0.94:
            # a builtin as a value; a block-local binding that hides a builtin, visible again after the block
            f = fresh("k")
            b = rng.choice(["len", "first", "last"])
            a = rng.choice(A)
            L.append(f"let {f} = {b};")
            v = fresh("r")
            L.append(f"let {v} = 0;")
            L.append(f"{{ let {b} = fn(x) {{ 1000 }}; {v} = {b}({a}); }}")
            L.append(f"let {fresh('r')} = [{f}({a}), {b}({a}), {v}, {f} == {b}];")
        else:
            v = fresh("e")
            L.append(f"let {v} = [is_error({iexp(1)}), char(97), byte(65), int(\"x\"), get({rng.choice(A)}, 99)];")
        if rng.random() < 0.3:
            v = fresh("r")
            L.append(f"let {v} = {iexp(2)};")
            ints.append(v)
    if ints_f:
        L.append(f"let {fresh('r')} = {ints_f}({iexp(1)}) + len([1, 2]);")
    if rng.random() < 0.2:
        a = rng.choice(list(arrs))
        bad = [f"let z = len({a}, 1);", "let z = len(5);", f"let z = push({a});", "let z = first(1);", f"let z = get({a}, \"k\");", "let z = rest(\"s\");",
               "let z = insert([1], 1, 2);", "let z = contains([1], 1);", f"let z = pop(\"s\");", "let z = len();", "let z = int([1]);", "let z = sort(3);",
               "let z = tolower(1);", "let z = join([1], 2);"]
        L.insert(rng.randrange(max(1, len(L) - 3), len(L) + 1), rng.choice(bad))
    return "\n".join(L) + "\n"


CORE_BUILTIN_FIXED = [
    "let a = [3, 1, 2];\nlet b = a;\npush(b, 9);\nlet n = len(a);\nlet p = pop(a);\nlet q = len(b);\n",
    "let a = [1, 2, 3];\nlet r = rest(a);\nr[0] = 100;\nlet x = a[1];\nlet f = first(a);\nlet l = last(a);\nlet e = first([]);\n",
    "let m = map {\"k\": 1};\nlet o = insert(m, \"k\", 2);\nlet p = insert(m, \"z\", [1]);\nlet c = contains(m, \"z\");\nlet g = get(m, \"k\");\nlet h = get(m, \"none\");\nlet n = len(m);\n",
    "let ff = len;\nlet q = ff(\"abc\");\nfn h(len) { len + 1 }\nlet t = h(5);\n{ let len = 7; t = t + len; }\nlet u = len([1]);\nlet same = ff == len;\n",
    "let len = 3;\nlet x = len + 1;\n",
    "fn f(a) { push(a, len(a)); a }\nlet v = [0];\nlet w = f(f(v));\nlet n = len(v);\n",
    "fn mk() { let t = []; fn(x) { push(t, x); len(t) } }\nlet c = mk();\nlet d = mk();\nlet r1 = c(5);\nlet r2 = c(6);\nlet r3 = d(7);\n",
    "let a = [3, 1, 2];\nlet s = sort(a);\ns[0] = 55;\nlet v = a[0];\nlet same = s == a;\n",
    "let s = str([1, [2, \"x\"], null, true]);\nlet t = str(map {1: 2});\nlet u = str(\"q\") + str('c') + str(12);\nlet i = int(\"42\") + int('a') + int(true) + int(7);\nlet bad = int(\"zz\");\n",
    "let w = chars(\"héy\");\nlet j = join(w, \"-\");\nlet up = toupper(j);\nlet lo = tolower(\"ABC\");\n",
    "let x = len(5);\n",
    "let x = len([1], 2);\n",
    "let a = [1];\nlet x = push(a);\n",
    "let x = first(\"s\");\n",
    "let x = get([1, 2], 5);\nlet y = get([1, 2], -1);\nlet z = get([1, 2], \"k\");\n",
    "let p = pop([]);\nlet q = len([]);\nlet r = rest([]);\nlet l = last([]);\n",
    "let a = [[1], [2]];\nlet f = first(a);\npush(f, 9);\nlet x = a[0];\nlet l = last(a);\nl[0] = 7;\nlet y = a[1][0];\n",
]


CORE_CLOS_FIXED = [
    "fn mk(a, b) { let c = a * 2; return fn(x) { a - b + c * x }; }\nlet f = mk(1, 2);\nlet g = mk(10, 3);\nlet r = f(5);\nlet q = g(7);\n",
    "fn counter() { let n = 0; return fn() { n = n + 1; n }; }\nlet c = counter();\nlet d = counter();\nlet r1 = c();\nlet r2 = c();\nlet r3 = d();\nlet r4 = c();\nlet e = c;\nlet r5 = e();\nlet r6 = c();\n",
    "fn outer(a) { let b = a + 1; fn(x) { fn(y) { a * 100 + b * 10 + x + y } } }\nlet f = outer(1);\nlet g = f(3);\nlet r = g(4);\n",
    "let c0 = null;\nlet c1 = null;\nfn make(n) {\n  let i = 0;\n  while i < n {\n    let j = i * 10;\n    if i == 0 { c0 = fn(x) { j - x }; } else { c1 = fn(x) { x - j }; };\n    i = i + 1;\n  }\n}\nmake(2);\nlet r0 = c0(1);\nlet r1 = c1(1);\n",
    "fn fact(n) { let h = fn(k) { if k < 2 { 1 } else { k * fact(k - 1) } }; h(n) }\nlet r = fact(5);\n",
    "fn f(a) { let g = fn() { a = a + 1; a }; let x = g(); let y = g(); a * 100 + x * 10 + y }\nlet r = f(1);\n",
    "fn f(a) { fn g(b) { a - b } g(1) - g(2) }\nlet r = f(10);\n",
    "fn o(a, b) { fn() { a = b; a - b } }\nlet r = o(1, 2)();\n",
    "fn o(a, b) { fn() { if a < b { a - b } else { b - a } } }\nlet r = o(1, 2)();\nlet q = o(2, 1)();\n",
    "fn o(a) { fn(x) { let r = a + x; { let a = r * 2; r = a - x; } a - r } }\nlet r = o(5)(3);\n",
    "fn o(a) { fn() { fn() { a = a + 1; a } } }\nlet m = o(1);\nlet i1 = m();\nlet i2 = m();\nlet r1 = i1();\nlet r2 = i1();\nlet r3 = i2();\n",
    "fn apply(f, x) { f(x) }\nfn twice(f) { fn(x) { f(f(x)) } }\nfn sub(n) { fn(x) { x - n } }\nlet r = apply(twice(sub(3)), 10);\n",
    "fn f(a) { { fn g(b) { a - b } a = g(1); } a }\nlet r = f(5);\n",
    "fn f(a) { let g = fn(a) { a - 1 }; g(a * 2) - a }\nlet r = f(5);\n",
    "let g0 = 5;\nfn f(a) { fn() { g0 = g0 + a; g0 } }\nlet c = f(2);\nlet r1 = c();\ng0 = 100;\nlet r2 = c();\n",
    "fn f(a) { fn(x) { a - x } }\nlet r = f(1)(2, 3);\n",
    "fn f(a) { let h = fn() { a }; a = a + 100; h() - a }\nlet r = f(1);\n",
    "let r = (fn(x) { fn(y) { x - y } })(10)(3);\n",
    "fn f(n) { let a = 0; let h = null; while a < n { a = a + 1; let b = a * a; h = fn() { b = b - a; b }; } h() - h() }\nlet r = f(3);\n",
    # re-entrancy: a closure assigns to a captured variable while an EARLIER activation of the same closure object is still
    # running (the free variables live in the closure object: the outer activation sees the inner one's assignment; the
    # specification does not commit there)
    "let g = null;\nfn mk() { let a = 0; return fn(n) { if n == 0 { a = 5; 0 } else { g(0); a } }; }\ng = mk();\nlet r = g(1);\n",
    "let g = null;\nfn mk(a) { return fn(n) { if n > 0 { a = a + n; g(n - 1); a } else { a } }; }\ng = mk(10);\nlet r = g(3);\nlet s = g(0);\n",
    "let g = null;\nfn mk() { let a = 1; return fn(n) { let before = a; if n > 0 { g(n - 1); } a = a * 2; before + a }; }\ng = mk();\nlet r = g(2);\n",
    # re-entry through a second closure, the inner activation only reads; then the outer one assigns after the inner returned
    "let g = null;\nlet h = null;\nfn mk() { let a = 3; return fn(n) { if n == 0 { a } else { let inner = h(); a = 5; inner * 10 + a } }; }\ng = mk();\nh = fn() { g(0) };\nlet r = g(1);\n",
    # a closure that creates a child after assigning; a later activation of the parent creates another child
    "fn mk() { let a = 1; return fn() { a = a + 1; return fn() { a }; }; }\nlet p = mk();\nlet c1 = p();\nlet r1 = c1();\nlet c2 = p();\nlet r2 = c2();\nlet r3 = c1();\n",
    # the outer activation assigns, calls itself (inner reads the shared cell), then reads again
    "let g = null;\nfn mk() { let a = 0; return fn(n) { if n == 0 { a } else { a = 7; let seen = g(0); seen + a } }; }\ng = mk();\nlet r = g(1);\n",
]


CORE_FN_FIXED = [
    "fn fact(n) { if n < 2 { 1 } else { n * fact(n - 1) } }\nlet r = fact(10);\n",
    "let odd = null;\nfn even(n) { if n == 0 { true } else { odd(n - 1) } }\nodd = fn(n) { if n == 0 { false } else { even(n - 1) } };\nlet r = even(9);\nlet q = odd(9);\n",
    "fn root(n) {\n  let i = 0;\n  while true {\n    loop {\n      if i * i > n { return i; }\n      i = i + 1;\n    }\n  }\n}\nlet r = 100 + root(10);\n",
    "fn f(a, b) { a - b }\nlet r = f(1);\n",
    "fn f(a, b) { a - b }\nlet r = f(1, 2, 3);\n",
    "fn f() { }\nlet r = f();\nlet q = r(1);\n",
    "fn f(a) { let a = 2; { let a = 3; a = a + 1; } a }\nlet r = f(1);\n",
    "fn f(f) { f + 1 }\nlet r = f(1);\n",
    "let g = 1;\nfn f(g) { g = g + 1; g }\nlet r = f(5) + g;\n",
    "fn f(n) { let s = 0; let i = 0; out: while i < n { i = i + 1; let j = 0; while j < n { j = j + 1; if j == 2 { continue out; } if i == 3 { return s; } s = s + 1; } } s }\nlet r = f(5);\n",
    "fn f(n) { if n > 3 { return; } n }\nlet a = f(1);\nlet b = f(9);\n",
    "fn f(x) { while x > 0 { x = x - 1; } }\nlet r = f(3);\n",
    "fn fib(n) { if n < 2 { return n; } let a = fib(n - 1); let b = fib(n - 2); a + b }\nlet i = 0;\nlet s = 0;\nwhile i < 8 { s = s + fib(i); i = i + 1; }\n",
    "let f = fn(n, acc) { if n <= 0 { return acc; } f(n - 1, acc + n) };\nlet r = f(50, 0);\n",
] + CORE_CLOS_FIXED + CORE_HEAP_FIXED + CORE_BUILTIN_FIXED


# containers nested deeper than the reference semantics' structural view (64): it must not commit on == / + / display there
DEEP_EQ = ["let obs = [];\nlet a = [1]; let b = [2]; let i = 0;\nwhile i < 70 { a = [a]; b = [b]; i = i + 1; }\npush(obs, a == b);\npush(obs, a != b);\n0\n",
           "let obs = [];\nlet a = [1]; let i = 0;\nwhile i < 64 { a = [a]; i = i + 1; }\nlet c = a + [a];\npush(obs, len(c));\nif a { push(obs, 1); }\n0\n",
           "let obs = [];\nlet m = map {1: 1}; let i = 0;\nwhile i < 66 { m = map {1: m}; i = i + 1; }\npush(obs, m == m);\n0\n",
           "let obs = [];\nlet a = [1]; let b = [1]; let i = 0;\nwhile i < 30 { a = [a]; b = [b]; i = i + 1; }\npush(obs, a == b);\n0\n"]


# spellings that the fragment recogniser maps to the same core terms as the canonical ones (else-less `if`, `else if` chains, empty
# blocks and arm bodies), also spread over several lines with the failing operand on a line of its own: the oracle bridges
# (Props/RefCore …) speak about the canonical spelling only, these relate the others to the oracle by the run
CORE_SPELLINGS = [
    "let c = 1;\nlet r = if c { 1 };\nlet s = if !c { 1 };\nr\n",
    "let a = 0;\nlet b = 1;\nlet r = if a { 1 } else if b { 2 } else { 3 };\nlet q = if a { 1 } else if a { 2 } else { 3 };\nr + q\n",
    "let c = 1;\nlet r = if c { } else { };\nlet q = if !c { } else { 5 };\nq\n",
    "let x = 1;\nlet r = match x { 1 => { }, _ => 2 };\nlet q = match x { 2 => 1, _ => { } };\nr\n",
    "let c = 0;\nlet r = if c {\n  1\n} else if c + 1 {\n  2 +\n  (1 / 0)\n} else {\n  3\n};\nr\n",
    "let c = 1;\nlet r = if c\n{\n  null -\n  1\n};\nr\n",
    "let x = 2;\nmatch x {\n  1 => 1,\n  2 => {\n    'c' *\n    2\n  },\n  _ => 3\n}\n",
    "let c = 1;\nif c { c = c + 1; }\nif !c { c = 0; } else if c > 1 { c = c * 10; }\nc\n",
]


# value positions fed by branches of unusual shape, and map keys that are == but differently spelled
DIRECTED_EVAL = [
    "let obs = [];\nlet t = true;\npush(obs, [10, if t { { 7; } }, 30]);\npush(obs, [1, if t { 5 }, if t { { 6; } } else { 8 }]);\nfn f(c) { [1, if c { { 42; } }] }\npush(obs, f(true));\npush(obs, f(false));\n0\n",
    "let obs = [];\nlet t = true;\nfn g(a, b, c) { [a, b, c] }\npush(obs, g(1, if t { { 2; } }, 3));\npush(obs, 1 + if t { { 5; } 4 });\npush(obs, [if t { let q = 1; }, if !t { 1 }, match 1 { 1 => { { 9; } }, _ => 0 }]);\n0\n",
    "let obs = [];\nlet z = 0.0;\nlet nz = -z;\nlet m = map {z: \"zero\", 1: \"one\"};\npush(obs, nz == z);\npush(obs, m[nz]);\npush(obs, m[0]);\npush(obs, m[-0.0]);\npush(obs, m[1.0]);\npush(obs, contains(m, nz));\nm[nz] = \"neg\";\npush(obs, len(m));\n0\n",
    "let obs = [];\nlet m = map {0: \"int\"};\npush(obs, m[0.0 * -1]);\npush(obs, get(m, -0.0));\nlet a = [0.0, 1];\nlet k = map {a: 1};\npush(obs, k[[-0.0, 1.0]]);\n0\n",
]


def alias_programs(rng, n):
    """arrays and maps are shared by reference, `+` builds a NEW array whatever its operands are: mutate one side, observe both"""
    empties = ["[]", "e()", "rest([1])", "([] + [])", "z"]
    muts = ["b[0] = 9;", "push(b, 4);", "pop(b);", "b[1] = b[0];", "sort(b);"]
    out = []
    for _ in range(n):
        e = rng.choice(empties)
        a = "[" + ", ".join(str(rng.randint(1, 9)) for _ in range(rng.randint(1, 4))) + "]"
        form = rng.choice(["a + {e}", "{e} + a", "a + {e} + {e}", "({e} + a) + {e}", "cat(a, {e})", "a"])
        mut = " ".join(rng.sample(muts, rng.randint(1, 3)))
        out.append("let obs = [];\nfn e() { return []; }\nfn cat(x, y) { return x + y; }\nlet z = [];\nlet a = %s;\nlet b = %s;\n%s\npush(obs, a + []);\npush(obs, b + []);\npush(obs, z + []);\nobs\n"
                   % (a, form.format(e=e), mut))
    return out


def sources(ctx):
    rng = ctx.rng
    out = []
    tags = []
    for s in alias_programs(rng, ctx.scale(60, 3000)):
        out.append(s); tags.append("alias")
    for s in DEEP_EQ:
        out.append(s); tags.append("deep-eq")
    for s in DIRECTED_EVAL:
        out.append(s); tags.append("directed")
    for s in gen_lang.SPECIALS:
        out.append(s); tags.append("special")
    for s in gen_lang.FAULTY:
        out.append(s); tags.append("faulty")
    n = ctx.scale(3000, 120000)
    for s in gen_lang.programs(rng, n, max_stmts=10):
        out.append(s); tags.append("generated")
        if rng.random() < 0.15:
            out.append(gen_lang.faulty_variant(rng, s)); tags.append("ill-formed")
    return out, tags


def cases(ctx):
    srcs, tags = sources(ctx)
    lines = lang_lines(ctx, srcs)
    out = [Case(l, (t,), extra={"src": s}) for l, t, s in zip(lines, tags, srcs)]
    # the VM model on the real compiler's bytecode (correspondence of the VM model)
    # (the VM model's structural view of containers is bounded at 64 levels — Deep.deep_eq_diverges in Props/FnVmHeap.lean states it —
    # so the deeper-than-64 programs go through the reference semantics and the real pipeline only)
    vsel = [k for k in range(len(srcs)) if tags[k] != "deep-eq"]
    vl = vmrun_lines(ctx, [srcs[k] for k in vsel])
    out += [Case(l, ("vm-" + tags[k],), extra={"src": srcs[k]}) for l, k in zip(vl, vsel)]
    # the core fragment: the functional compiler model must equal the real compiler byte for byte,
    # its machine the real VM, and both the reference evaluation (theorem compile_correct)
    csrcs = [core_program(ctx.rng, typed=(k % 2 == 0)) for k in range(ctx.scale(3000, 150000))] + CORE_SPELLINGS
    cl = lang_lines(ctx, csrcs, op="core")
    out += [Case(l, ("core",), extra={"src": s}) for l, s in zip(cl, csrcs)]
    # the layer with first-order functions (theorem compile_sound_functions): main code, every function constant (code,
    # lines, num_locals, num_params), the machine with frames and the reference evaluation against the real compiler and VM
    fsrcs = [core_fn_program(ctx.rng, typed=(k % 2 == 0)) for k in range(ctx.scale(1200, 60000))] + CORE_FN_FIXED
    fl = lang_lines(ctx, fsrcs, op="core")
    out += [Case(l, ("core-fn",), extra={"src": s}) for l, s in zip(fl, fsrcs)]
    # the same fragment programs are also judged by the executable specification (Spec/Ref): Core's evaluator and
    # Spec/Ref are two separate semantics, related by no theorem — both must agree with the real pipeline on these programs
    both = csrcs[: len(csrcs) // 2] + fsrcs
    el = lang_lines(ctx, both)
    out += [Case(l, ("core-by-ref",), extra={"src": s}) for l, s in zip(el, both)]
    return out


def shrink(ctx, c):
    return c
