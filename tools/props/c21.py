"""C21 — file reads return the file's bytes exactly once, in order, however chunked; write modes."""
import concurrent.futures as cf
import fcntl
import os
import struct
import subprocess
import termios
import time

from vlib import Case

BINARY_PROFILES = ["dev"]
RULE = ("e2e-file: the REAL p2sh binary (dev profile, working tree) runs generated scripts. `fread`: open/read/read_line/read_to_string on a real temp file, or on stdin fed "
        "through a pipe by a writer that hands over one chunk per blocked read (scripted chunk sizes {1, 2, 4095, 4096, 4097, random}); results are printed as hex by the script. "
        "`fwrite`: open(path, mode) on an existing / missing file, a sequence of writes (byte, array, string; below and above the 8 KiB buffer), ending normal / flush / exit / "
        "flush+exit; the file is read back after the process ended; `fwriten`: two to four such files open at the same time in one program, writes interleaved, ending normal / exit, some flushed, some handles released (set to null) while later writers hold unflushed data. The Lean driver gets the same abstract scenario and prints model (Model/FileRead.lean) ## spec "
        "(prefix law / documented mode table, Spec/FileIo.lean). The model is the code as it is: a reverted repair shows up both as a model disagreement and as an oracle failure. non-trivial = at least one call returned data (fread) / the open succeeded (fwrite)")
ASSUMPTIONS = ["a regular file read returns min(n, remaining) bytes; a pipe read returns what the writer has written so far, at most n (the reader axioms of Model/FileRead.Conforms)",
               "the pipe writer writes a chunk only once the reader is blocked in read(0) (observed through /proc/<pid>/syscall) and the previous chunk was drained (FIONREAD): "
               "each chunk is then delivered by its own read; without /proc the writer falls back to 20 ms pauses",
               "BufReader/BufWriter/io::stdin of std use 8 KiB buffers; String::from_utf8 = Lean's String.fromUTF8?"]
NOTES = ["spec-reading decision (DESIGN §6.1): read_to_string / read_line on bytes that are not UTF-8 — the value is unconstrained, the data counts as consumed; a negative count is unconstrained"]

HELPERS = ("fn hx(a) { let i = 0; let n = len(a); while i < n { print(\"{:0>2x}\", int(a[i])); i = i + 1; } println(\"\"); }\n"
           "fn mk(n, s) { let a = []; let i = 0; while i < n { push(a, byte((s + 7 * i) % 256)); i = i + 1; } return a; }\n")
ALPHA = "abcdefghijklmnopqrstuvwxyz"


# ------------------------------------------------------------------ scripts

def read_script(handle_expr, calls):
    src = [HELPERS, "let f = %s;\n" % handle_expr]
    for c in calls:
        if c == "R":
            e, pre, conv = "read(f)", "b:", "r"
        elif c.startswith("R"):
            e, pre, conv = "read(f, %d)" % int(c[1:]), "b:", "r"
        elif c == "L":
            e, pre, conv = "read_line(f)", "s:", "encode_utf8(r)"
        elif c == "S":
            e, pre, conv = "read_to_string(f)", "s:", "encode_utf8(r)"
        else:
            raise ValueError(c)
        src.append("let r = %s; if is_error(r) { println(\"E {}\", r); } else { print(\"%s\"); hx(%s); }\n" % (e, pre, conv))
    src.append("println(\"done\");\n")
    return "".join(src)


def parse_read_output(out, err, rc, ncalls):
    toks = []
    lines = out.decode("utf-8", "replace").splitlines()
    done = False
    for l in lines:
        if l == "done":
            done = True
            break
        if l.startswith("E io-error"):
            toks.append("E:io")
        elif l.startswith("E utf8-error"):
            toks.append("E:utf8")
        elif l.startswith(("b:", "s:")):
            toks.append(l)
        else:
            toks.append("?" + l[:40])
    e = err.decode("utf-8", "replace")
    if "panicked" in e:
        return "PANIC " + e.strip().splitlines()[0][:120].encode().hex()
    if rc != 0:
        return "ABORT(%s)" % rc
    if not done:
        toks.append("rterr" if "Runtime error" in e else "?noend")
    return ";".join(toks)


def blob_bytes(d):
    k = d[0]
    if k == "a":
        n, s = d[1:].split(".")
        return bytes((int(s) + 7 * i) % 256 for i in range(int(n)))
    if k == "s":
        n, s = d[1:].split(".")
        return ("".join(ALPHA[(int(s) + i) % 26] for i in range(26)) * int(n)).encode()
    if k == "b":
        return bytes([int(d[1:]) % 256])
    raise ValueError(d)


def blob_expr(d):
    k = d[0]
    if k == "a":
        n, s = d[1:].split(".")
        return "mk(%s, %s)" % (n, s)
    if k == "s":
        n, s = d[1:].split(".")
        return "\"%s\" * %s" % ("".join(ALPHA[(int(s) + i) % 26] for i in range(26)), n)
    return "byte(%d)" % (int(d[1:]) % 256)


def write_script(path, mode, writes, ending):
    src = [HELPERS, "let f = open(\"%s\", \"%s\");\n" % (path, mode), "if is_error(f) { println(\"open=E\"); } else { println(\"open=H\");\n"]
    for w in writes:
        src.append("  let r = write(f, %s); if is_error(r) { println(\"w=E\"); } else { println(\"w={}\", r); }\n" % blob_expr(w))
    if ending in ("flush", "flushexit"):
        src.append("  flush(f);\n")
        # "contain exactly the bytes written once flushed": the file is looked at while the program is still running
        if mode in ("w", "a", "x"):
            src.append("  let cp_ = open(\"%s.copy\", \"w\"); write(cp_, read(open(\"%s\"))); flush(cp_);\n" % (path, path))
    src.append("  println(\"done\");\n")
    if ending in ("exit", "flushexit"):
        src.append("  exit(0);\n")
    src.append("}\n")
    return "".join(src)


def write_script_n(paths, parts, ending):
    """several writers open at the same time; writes go round-robin over the handles that opened"""
    src = [HELPERS]
    for i, (path, (mode, _ex, _ws, _fl)) in enumerate(zip(paths, parts)):
        src.append("let f%d = open(\"%s\", \"%s\");\nif is_error(f%d) { println(\"open%d=E\"); } else { println(\"open%d=H\"); }\n" % (i, path, mode, i, i, i))
    queues = [list(ws) for (_m, _e, ws, _f) in parts]
    k = 0
    while any(queues):
        for i, q in enumerate(queues):
            if q:
                w = q.pop(0)
                src.append("if !is_error(f%d) { let r%d = write(f%d, %s); if is_error(r%d) { println(\"w%d=E\"); } else { println(\"w%d={}\", r%d); } }\n"
                           % (i, k, i, blob_expr(w), k, i, i, k))
                k += 1
    for i, (_m, _e, _ws, fl) in enumerate(parts):
        if fl == "1":
            src.append("if !is_error(f%d) { flush(f%d); }\n" % (i, i))
        if fl == "2":
            # the handle is released while later writers are still open with unflushed data: dropping it closes the file
            # (its bytes must be there), and the others must still be written out when the program ends, also through exit
            src.append("f%d = null;\n" % i)
    src.append("println(\"done\");\n")
    if ending == "exit":
        src.append("exit(0);\n")
    return "".join(src)


# ------------------------------------------------------------------ the pipe writer

def _blocked_in_read0(pid):
    """True: blocked in read(fd 0); False: not; None: cannot tell"""
    try:
        with open("/proc/%d/syscall" % pid) as f:
            t = f.read().split()
    except OSError:
        return None
    if not t or t[0] in ("running", "-1"):
        return False
    try:
        return int(t[0]) in (0, 63) and int(t[1], 16) == 0
    except (ValueError, IndexError):
        return None


def _unread(fd):
    try:
        return struct.unpack("i", fcntl.ioctl(fd, termios.FIONREAD, b"\0\0\0\0"))[0]
    except OSError:
        return 0


def feed(proc, chunks, deadline):
    fd = proc.stdin.fileno()
    for ch in chunks:
        # wait for the reader to block on stdin (or to be gone)
        blind = False
        while proc.poll() is None and time.time() < deadline:
            b = _blocked_in_read0(proc.pid)
            if b:
                break
            if b is None:
                blind = True
                break
            time.sleep(0.0004)
        if blind:
            time.sleep(0.02)
        if proc.poll() is not None:
            break
        try:
            view = memoryview(ch)
            while view:
                n = os.write(fd, view)
                view = view[n:]
        except (BrokenPipeError, OSError):
            break
        while _unread(fd) > 0 and proc.poll() is None and time.time() < deadline:
            time.sleep(0.0003)
    try:
        proc.stdin.close()
    except OSError:
        pass


# ------------------------------------------------------------------ one case

def run_case(exe, scratch, idx, line):
    t = line.split(" ")
    d = os.path.join(scratch, "c%d" % idx)
    os.makedirs(d, exist_ok=True)
    outp, errp, scriptp = os.path.join(d, "out"), os.path.join(d, "err"), os.path.join(d, "s.p2")
    try:
        if t[0] == "fread":
            src, hexc, calls, sched = t[1], t[2], t[3].split(","), t[4]
            content = b"" if hexc == "-" else bytes.fromhex(hexc)
            if src == "file":
                datap = os.path.join(d, "data.bin")
                with open(datap, "wb") as f:
                    f.write(content)
                script = read_script("open(\"%s\")" % datap, calls)
            else:
                script = read_script("stdin", calls)
            with open(scriptp, "w") as f:
                f.write(script)
            with open(outp, "wb") as fo, open(errp, "wb") as fe:
                if src == "file":
                    p = subprocess.run([exe, scriptp], stdin=subprocess.DEVNULL, stdout=fo, stderr=fe, timeout=60)
                    rc = p.returncode
                else:
                    sizes = [] if sched == "-" else [int(x) for x in sched.split(".")]
                    chunks, pos = [], 0
                    for n in sizes:
                        chunks.append(content[pos:pos + n])
                        pos += n
                    if pos < len(content):
                        chunks.append(content[pos:])
                    chunks = [c for c in chunks if c]
                    proc = subprocess.Popen([exe, scriptp], stdin=subprocess.PIPE, stdout=fo, stderr=fe)
                    deadline = time.time() + 60
                    feed(proc, chunks, deadline)
                    try:
                        rc = proc.wait(timeout=max(1, deadline - time.time()))
                    except subprocess.TimeoutExpired:
                        proc.kill()
                        proc.wait()
                        return "HANG"
            return parse_read_output(open(outp, "rb").read(), open(errp, "rb").read(), rc, len(calls))
        if t[0] == "fwrite":
            mode, ex, ws, ending = t[1], t[2], t[3], t[4]
            target = os.path.join(d, "target.bin")
            if ex != "missing":
                with open(target, "wb") as f:
                    f.write(blob_bytes(ex))
            writes = [] if ws == "-" else ws.split(",")
            with open(scriptp, "w") as f:
                f.write(write_script(target, mode, writes, ending))
            with open(outp, "wb") as fo, open(errp, "wb") as fe:
                p = subprocess.run([exe, scriptp], stdin=subprocess.DEVNULL, stdout=fo, stderr=fe, timeout=60)
            out = open(outp, "rb").read().decode("utf-8", "replace").splitlines()
            err = open(errp, "rb").read().decode("utf-8", "replace")
            if "panicked" in err:
                return "PANIC " + err.strip().splitlines()[0][:120].encode().hex()
            if p.returncode != 0:
                return "ABORT(%d)" % p.returncode
            opened = out[0] if out else ("open=rterr" if "Runtime error" in err else "open=?")
            ws_out = [l[2:] for l in out[1:] if l.startswith("w=")]
            if opened == "open=H" and "done" not in out:
                ws_out.append("rterr" if "Runtime error" in err else "?")
            if os.path.exists(target):
                data = open(target, "rb").read()
                ftok = "file=" + (data.hex() or "-")
                if os.path.exists(target + ".copy") and open(target + ".copy", "rb").read() != data:
                    # what the file held right after flush(f) is not what was written
                    ftok = "file=AFTER-FLUSH:" + (open(target + ".copy", "rb").read().hex() or "-")
            else:
                ftok = "file=missing"
            return ";".join([opened, "w=" + (".".join(ws_out) or "-"), ftok])
        if t[0] == "fwriten":
            ending = t[1]
            parts = []
            for part in t[2:]:
                mode, ex, ws, fl = part.split(":")
                parts.append((mode, ex, [] if ws == "-" else ws.split(","), fl))
            paths = [os.path.join(d, "target%d.bin" % i) for i in range(len(parts))]
            for path, (_m, ex, _ws, _f) in zip(paths, parts):
                if ex != "missing":
                    with open(path, "wb") as f:
                        f.write(blob_bytes(ex))
            with open(scriptp, "w") as f:
                f.write(write_script_n(paths, parts, ending))
            with open(outp, "wb") as fo, open(errp, "wb") as fe:
                p = subprocess.run([exe, scriptp], stdin=subprocess.DEVNULL, stdout=fo, stderr=fe, timeout=60)
            out = open(outp, "rb").read().decode("utf-8", "replace").splitlines()
            err = open(errp, "rb").read().decode("utf-8", "replace")
            if "panicked" in err:
                return "PANIC " + err.strip().splitlines()[0][:120].encode().hex()
            if p.returncode != 0:
                return "ABORT(%d)" % p.returncode
            toks = []
            for i, path in enumerate(paths):
                opened = [l for l in out if l.startswith("open%d=" % i)]
                otok = "open=" + opened[0].split("=", 1)[1] if opened else ("open=rterr" if "Runtime error" in err else "open=?")
                ws_out = [l.split("=", 1)[1] for l in out if l.startswith("w%d=" % i)]
                if "done" not in out and otok == "open=H":
                    ws_out.append("rterr" if "Runtime error" in err else "?")
                ftok = "file=" + (open(path, "rb").read().hex() or "-") if os.path.exists(path) else "file=missing"
                toks += [otok, "w=" + (".".join(ws_out) or "-"), ftok]
            return ";".join(toks)
        return "bad-op"
    except subprocess.TimeoutExpired:
        return "HANG"
    finally:
        for n in os.listdir(d):
            try:
                os.unlink(os.path.join(d, n))
            except OSError:
                pass
        try:
            os.rmdir(d)
        except OSError:
            pass


def run_impl(ctx, cases):
    exe = ctx.p2sh.get("dev")
    if not exe:
        return ["NOHARNESS"] * len(cases)
    scratch = ctx.mkscratch()
    with cf.ThreadPoolExecutor(max_workers=min(12, (os.cpu_count() or 4))) as ex:
        futs = [ex.submit(run_case, exe, scratch, i, c.line) for i, c in enumerate(cases)]
        return [f.result() for f in futs]


# ------------------------------------------------------------------ judging

def nontrivial(c):
    if c.line.startswith("fread"):
        return any(len(t) > 2 and t[:2] in ("b:", "s:") for t in c.impl.split(";"))
    return c.impl.startswith("open=H")


def classify(c):
    """class of a violation: which call / which mode x target x ending deviates, and how"""
    t = c.line.split(" ")
    if c.impl.startswith(("PANIC", "ABORT", "HANG")):
        return "crash"
    if t[0] == "fread":
        want = c.spec[6:].split(";") if c.spec.startswith("steps ") else []
        got = c.impl.split(";")
        calls = t[3].split(",")
        for i, w in enumerate(want):
            g = got[i] if i < len(got) else None
            if w == "-" or w == g:
                continue
            call = calls[i] if i < len(calls) else "?"
            if g == "rterr":
                how = "runtime-error"
            elif g is not None and g[:2] == w[:2] and w.startswith(g):
                how = "short"            # a proper prefix of what was due
            else:
                how = "other"
            return "fread:%s:%s:%s" % (t[1], call[0], how)
        return "fread:length"
    if t[0] == "fwrite":
        return "fwrite:%s:%s:%s" % (t[1], "missing" if t[2] == "missing" else "existing", t[4])
    if t[0] == "fwriten":
        return "fwriten:%s" % t[1]
    return None


# ------------------------------------------------------------------ cases

def utf8_text(rng, n):
    out = []
    size = 0
    while size < n:
        r = rng.random()
        if r < 0.02:
            ch = rng.choice(["\r\n", "\r", "\n\r", "\r\r\n"])
        elif r < 0.08:
            ch = "\n"
        elif r < 0.8:
            ch = chr(rng.randint(32, 126))
        else:
            ch = rng.choice("éßλж€漢字🙂𝄞")
        b = ch.encode()
        if size + len(b) > n:
            ch = "x"
            b = b"x"
        out.append(ch)
        size += len(b)
    return "".join(out).encode()


def rand_calls(rng, n, text):
    calls = []
    for _ in range(rng.randint(1, 6)):
        r = rng.random()
        if r < 0.35:
            calls.append("R%d" % rng.choice([0, 1, 2, 10, 100, 4095, 4096, 4097, 8191, 8192, 8193, n, n + 1, max(0, n - 1), rng.randint(0, n + 10)]))
        elif r < 0.6:
            calls.append("L" if text or rng.random() < 0.3 else "R%d" % rng.randint(0, 50))
        elif r < 0.85:
            calls.append("R")
        else:
            calls.append("S")
    if rng.random() < 0.6:
        calls.append(rng.choice(["R", "S", "R", "L"]))
    return calls


def schedule(rng, n, kind):
    if n == 0:
        return "-"
    if kind == "one":
        return str(n)
    sizes = []
    left = n
    while left > 0:
        if kind == "random":
            k = rng.choice([1, 2, 3, 7, 100, 1000, 4095, 4096, 4097, 8191, 8192, 8193, rng.randint(1, 9000)])
        else:
            k = int(kind)
        k = min(k, left)
        sizes.append(k)
        left -= k
        if len(sizes) >= 60:          # keep the number of hand-overs bounded
            sizes.append(left)
            break
    return ".".join(str(s) for s in sizes if s)


def cases(ctx):
    rng = ctx.rng
    out = []

    def fread(src, content, calls, sched, tag):
        out.append(Case("fread %s %s %s %s" % (src, content.hex() or "-", ",".join(calls), sched), (tag,)))

    # ---- the replayed defects and their neighbours
    big = b"line one\n" + bytes(range(256)) * 86
    fread("file", big, ["L", "R", "R"], "-", "file-fixed")
    fread("file", big, ["R"], "-", "file-fixed")
    fread("file", big, ["R10", "R", "R"], "-", "file-fixed")
    # line ends of every kind: what read_line returns is a piece of the content, CR included
    crlf = b"ab\r\ncd\r\n\r\nef\rgh\n\rij\r\n"
    for calls_ in (["L", "L", "L", "L", "L", "R"], ["L", "R5", "L", "S"], ["R3", "L", "L", "R"], ["L"] * 8):
        fread("file", crlf, calls_, "-", "crlf")
        fread("pipe", crlf, calls_, "3.4.5", "crlf")
    fread("file", b"hello\nworld\n", ["L", "L", "L", "R"], "-", "file-fixed")
    fread("file", b"", ["R", "L", "S", "R0"], "-", "file-fixed")
    fread("file", "héllo wörld\nλ\n".encode(), ["S", "R"], "-", "file-fixed")
    fread("file", b"ab\xffcd\nxyz\nlast", ["L", "L", "R-1", "L"], "-", "file-fixed")
    fread("file", b"ab\xffcd\nxyz", ["S", "R"], "-", "file-fixed")
    fread("pipe", b"aaaabbbb", ["R"], "4.4", "pipe-fixed")
    fread("pipe", b"aaaabbbb", ["R8"], "4.4", "pipe-fixed")
    fread("pipe", b"aaaabbbb", ["R", "R", "R"], "4.4", "pipe-fixed")
    fread("pipe", b"aaaabbbb", ["R"], "8", "pipe-fixed")
    fread("pipe", b"hello\n", ["S"], "6", "pipe-fixed")
    fread("pipe", b"one\ntwo\nthree", ["L", "L", "L", "L"], "2.3.1.7", "pipe-fixed")
    fread("pipe", b"", ["R", "L"], "-", "pipe-fixed")
    # ---- files: sizes around the buffer boundaries x random call sequences
    sizes = [0, 1, 2, 100, 4095, 4096, 4097, 8191, 8192, 8193, 12288, 16384, 16385, 22000]
    for k in range(ctx.scale(90, 1500)):
        n = rng.choice(sizes) if rng.random() < 0.8 else rng.randint(0, 20000)
        text = rng.random() < 0.5
        content = utf8_text(rng, n) if text else (rng.getrandbits(8 * n).to_bytes(n, "little") if n else b"")
        fread("file", content, rand_calls(rng, n, text), "-", "file-text" if text else "file-binary")
    # ---- stdin through a pipe: the same x chunk schedules
    for k in range(ctx.scale(110, 1500)):
        n = rng.choice([1, 2, 8, 100, 4095, 4096, 4097, 8191, 8192, 8193, 12000]) if rng.random() < 0.85 else rng.randint(1, 20000)
        text = rng.random() < 0.5
        content = utf8_text(rng, n) if text else rng.getrandbits(8 * n).to_bytes(n, "little")
        kind = rng.choice(["one", "random", "random", "4095", "4096", "4097", "2" if n <= 100 else "random", "1" if n <= 60 else "random"])
        calls = [c for c in rand_calls(rng, n, text) if c != "S" or rng.random() < 0.25]
        fread("pipe", content, calls or ["R"], schedule(rng, n, kind), "pipe-" + kind)
    # ---- writing: every mode x existing/missing x endings x write sequences
    blobs = ["b65", "b0", "b255", "a1.7", "a10.3", "a100.9", "s1.0", "s3.5", "a4096.1", "a8191.2", "a8192.4", "a8193.5", "a9000.6", "s315.2", "s316.1", "a20000.8"]
    for mode in ("w", "a", "x"):
        for ex in ("missing", "a5.1", "a9000.2"):
            for ending in ("normal", "flush", "exit", "flushexit"):
                out.append(Case("fwrite %s %s %s %s" % (mode, ex, "s1.0", ending), ("write-table",)))
                out.append(Case("fwrite %s %s %s %s" % (mode, ex, "-", ending), ("write-table",)))
                for _ in range(ctx.scale(2, 30)):
                    ws = [rng.choice(blobs) for _ in range(rng.randint(1, 6))]
                    out.append(Case("fwrite %s %s %s %s" % (mode, ex, ",".join(ws), ending), ("write-random",)))
    # ---- several writers open at once (each file must behave as if it were alone, also when the program ends through exit)
    small = ["b65", "a10.3", "s1.0", "s3.5", "a100.9"]
    for ending in ("normal", "exit"):
        for _ in range(ctx.scale(14, 300)):
            parts = []
            for _k in range(rng.randint(2, 4)):
                ws = [rng.choice(small if rng.random() < 0.7 else blobs) for _ in range(rng.randint(0, 3))]
                parts.append("%s:%s:%s:%s" % (rng.choice("wax"), rng.choice(["missing", "missing", "a5.1"]), ",".join(ws) or "-", rng.choice(["0", "0", "1", "2"])))
            out.append(Case("fwriten %s %s" % (ending, " ".join(parts)), ("write-several",)))
    out.append(Case("fwriten exit w:missing:s1.0,b65:0 a:a5.1:s1.0:0 x:missing:a10.3:0", ("write-several",)))
    out.append(Case("fwriten exit w:missing:s1.0:0 w:missing:s3.5:0", ("write-several",)))
    out.append(Case("fwriten exit w:missing:s1.0:2 x:missing:s3.5,s1.0:0", ("write-several",)))
    out.append(Case("fwriten exit w:missing:s1.0:0 a:a5.1:s1.0:2 w:missing:s3.5:0 a:missing:b65:0", ("write-several",)))
    out.append(Case("fwriten normal w:missing:s1.0:2 a:a5.1:s3.5:0", ("write-several",)))
    for ex in ("missing", "a5.1"):
        out.append(Case("fwrite r %s - normal" % ex, ("write-table",)))
        out.append(Case("fwrite q %s - normal" % ex, ("write-table",)))
    return out
