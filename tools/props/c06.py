"""C06 — truthiness and short-circuit logic follow the documented table."""
import wire
from vlib import Case

RULE = ("ops `eqhash a b` (Object::is_falsey of both operands) and `un Bang v` through the real VM vs the Lean model; "
        "the spec is the documented falsey table; exhaustive over the representatives of every value kind "
        "(zero/non-zero, empty/non-empty, NaN, -0.0, nested empty containers, closures, builtins, file handles, error objects); "
        "non-trivial = the implementation produced a value")
ASSUMPTIONS = ["the && / || templates and the if/while/filter positions are covered by the language-level engine (see C02/C05 evidence) once enabled"]
EXHAUSTIVE = True
canon = wire.canon_rterr


def nontrivial(c):
    return c.impl.startswith(("ok", "eq="))


def classify(c):
    return "falsey " + c.line.split(" ", 2)[-1][:40]


REPS = ([wire.NULL, wire.TRUE, wire.FALSE] + [wire.i(x) for x in (0, 1, -1, wire.I64_MIN)] +
        [wire.d(x) for x in (0.0, -0.0, 1.0, float("nan"), float("inf"), 5e-324)] +
        [wire.c(x) for x in ("\0", "a", "0")] + [wire.b(x) for x in (0, 1, 48)] +
        [wire.s(x) for x in ("", "a", "0", " ", "\0")] +
        [wire.a(), wire.a(wire.a()), wire.a(wire.NULL), wire.a(wire.i(0)), wire.m(), wire.m((wire.i(0), wire.i(0))), wire.m((wire.NULL, wire.NULL))] +
        wire.OTHERS)


def cases(ctx):
    out = []
    for v in REPS:
        out.append(Case(f"un Bang {v}", ("bang",)))
        out.append(Case(f"eqhash {v} {v}", ("is_falsey",)))
    for k in wire.KINDS:
        for v in wire.pool(k):
            out.append(Case(f"un Bang {v}", ("bang-pool",)))
    for _ in range(ctx.scale(2000, 100000)):
        out.append(Case(f"un Bang {wire.rand_val(ctx.rng, 3)}", ("bang-random",)))
    return out
