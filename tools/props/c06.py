"""C06 — truthiness and short-circuit logic follow the documented table."""
import wire
from props import c02
from vlib import Case, lang_lines

RULE = ("ops `eqhash a b` (Object::is_falsey of both operands) and `un Bang v` through the real VM vs the Lean model; "
        "the spec is the documented falsey table; exhaustive over the representatives of every value kind "
        "(zero/non-zero, empty/non-empty, NaN, -0.0, nested empty containers, closures, builtins, file handles, error objects); "
        "non-trivial = the implementation produced a value")
HARNESS_TIMEOUT = 30      # the programs are tiny; a change that makes loops run forever should cost seconds per case, not minutes
ASSUMPTIONS = ["every truthiness position of the language (!, &&, ||, if, else-if, while, if-expression) is exercised with a source-level representative of every value kind through the real pipeline (op `eval`), "
               "the reference semantics (falsey table) as oracle; the filter-pattern position is exercised by C20's end-to-end engine"]
EXHAUSTIVE = True
def canon(s):
    return c02.canon(s) if s.startswith(("ok ", "rterr ", "cerr ", "perr")) and " obs=" in s or s.startswith(("cerr", "perr")) else wire.canon_rterr(s)


def model_skip(c):
    return c.line.startswith("eval ")


def nontrivial(c):
    if c.line.startswith("eval "):
        return c.spec.startswith("m ok")
    return c.impl.startswith(("ok", "eq="))


def classify(c):
    return "falsey " + c.line.split(" ", 2)[-1][:40]


REPS = ([wire.NULL, wire.TRUE, wire.FALSE] + [wire.i(x) for x in (0, 1, -1, wire.I64_MIN)] +
        [wire.d(x) for x in (0.0, -0.0, 1.0, float("nan"), float("inf"), 5e-324)] +
        [wire.c(x) for x in ("\0", "a", "0", "一", "Ā", "✀", "\U00010000")] + [wire.b(x) for x in (0, 1, 48)] +
        [wire.s(x) for x in ("", "a", "0", " ", "\0")] +
        [wire.a(), wire.a(wire.a()), wire.a(wire.NULL), wire.a(wire.i(0)), wire.m(), wire.m((wire.i(0), wire.i(0))), wire.m((wire.NULL, wire.NULL))] +
        wire.OTHERS)


SRC_REPS = ["null", "true", "false", "0", "1", "-1", "0.0", "-0.0", "1.0", "1e-320", "5e-324", "2.5e-16", "(1e308 * 10 - 1e308 * 10)", "char(0)", "'a'", "'0'", "'一'", "char(256)", "char(9984)", "char(65536)", "byte(0)", "byte(1)", "byte(48)",
            '""', '"a"', '"0"', '" "', "[]", "[[]]", "[null]", "[0]", "map {}", "map {0: 0}", "map {null: null}", "len", "fn() { 1 }", "(1 / 1.0 - 1)", "[1][0] - 1", "str(0)", "chars(\"\")"]


def position_program(v, w):
    return ("let obs = [];\nfn probe(x) { push(obs, x); x }\n"
            f"let v = {v};\nlet w = {w};\n"
            "push(obs, !v);\npush(obs, !!v);\n"
            "let r1 = v && probe(1);\nlet r2 = v || probe(2);\nlet r3 = v && w;\nlet r4 = v || w;\nlet r5 = (v && w) || probe(3);\n"
            "push(obs, [r1, r2, r3, r4, r5]);\n"
            "if v { push(obs, 10); } else { push(obs, 11); }\n"
            "if w { push(obs, 12); } else if v { push(obs, 13); } else { push(obs, 14); }\n"
            "let n = 0;\nwhile v { n = n + 1; if n > 0 { break; } }\npush(obs, n);\n"
            "let k = 0;\nwhile !v && k < 2 { k = k + 1; }\npush(obs, k);\n"
            "push(obs, if v { 1 } else { 2 });\n"
            "if v && w { 20 } else { 21 }\n")


def tail_programs(v):
    """a truthiness test as the LAST thing in the code: its jump targets are the very end of the instructions"""
    pre = f"let obs = [];\nfn probe(x) {{ push(obs, x); x }}\nlet v = {v};\n"
    return [pre + "while v { push(obs, 1); break; }\n",
            pre + "let n = 0;\nwhile !v && n < 2 { n = n + 1; push(obs, n); }\n",
            pre + "if v { push(obs, 2); }\n",
            pre + "if v { push(obs, 3); } else { push(obs, 4); }\n",
            pre + "v && probe(5)\n",
            pre + "v || probe(6)\n",
            pre + "if !v { push(obs, 7); }\n"]


PAD = "".join("[" + ", ".join(str(k) for k in range(100)) + "];\n" for _ in range(125))      # about 38 KB of bytecode


def far_program(v, w):
    """the same positions beyond byte offset 32768 of the main code: jump operands with the top bit set"""
    return ("let obs = [];\nfn probe(x) { push(obs, x); x }\n" + PAD +
            f"let v = {v};\nlet w = {w};\n"
            "let r1 = v && probe(1);\nlet r2 = v || probe(2);\npush(obs, [r1, r2]);\n"
            "if v { push(obs, 10); } else { push(obs, 11); }\n"
            "let n = 0;\nwhile v { n = n + 1; if n > 0 { break; } }\npush(obs, n);\n"
            "push(obs, if w { 1 } else { 2 });\n"
            "v || w\n")


NUM_REPS = ["0", "1", "-1", "0.0", "-0.0", "1.5", "1e-320", "2.5e-16", "(1e308 * 10 - 1e308 * 10)", "(1e308 * 10)", "9223372036854775807", "byte(0)", "byte(7)"]


def negated_comparison_program(v, w):
    """`!` applied directly to a comparison (the compiler must not fold it into the opposite comparison: NaN)"""
    return ("let obs = [];\nfn probe(x) { push(obs, x); x }\n"
            f"let v = {v};\nlet w = {w};\n"
            "push(obs, [!(v > w), !(v < w), !(v >= w), !(v <= w), !(v == w), !(v != w)]);\n"
            "if !(v > w) { push(obs, 1); } else { push(obs, 2); }\n"
            "if !(v <= w) { push(obs, 3); } else { push(obs, 4); }\n"
            "let n = 0;\nwhile !(v < w) { n = n + 1; if n > 1 { break; } }\npush(obs, n);\n"
            "let r1 = !(v >= w) && probe(5);\nlet r2 = !(v > w) || probe(6);\npush(obs, [r1, r2]);\n"
            "!(v == w)\n")


def cases(ctx):
    out = []
    srcs = [position_program(v, w) for v in SRC_REPS for w in SRC_REPS]
    srcs += [negated_comparison_program(v, w) for v in NUM_REPS for w in NUM_REPS]
    for v in SRC_REPS:
        srcs += tail_programs(v)
    far = ["0", "1", "\"\"", "\"a\"", "null", "[]", "0.0", "true"]
    srcs += [far_program(v, w) for v in far for w in ("0", "7")]
    for l, s in zip(lang_lines(ctx, srcs), srcs):
        out.append(Case(l, ("positions",), extra={"src": s if len(s) < 4000 else "(padding) " + s[-400:]}))
    for v in REPS:
        out.append(Case(f"un Bang {v}", ("bang",)))
        out.append(Case(f"eqhash {v} {v}", ("is_falsey",)))
    for k in wire.KINDS:
        for v in wire.pool(k):
            out.append(Case(f"un Bang {v}", ("bang-pool",)))
    for _ in range(ctx.scale(2000, 100000)):
        out.append(Case(f"un Bang {wire.rand_val(ctx.rng, 3)}", ("bang-random",)))
    return out
