"""C15 — reading packet fields never alters the bytes written back out."""
import random

from vlib import Case
from props import pktlib as P

RULE = ("op `pkt <frame> <script>`: a PcapPacket built with the verif_new hook, driven through the real GetProp/Dollar code by a script of reads, "
        "then serialised with Vec<u8>::from(&PcapPacket) (what pcap_write / write / filter output call); the spec demands record header ++ captured bytes "
        "at every W of a script without assignments; frames: every shape of DESIGN §C15 truncated at every byte offset x three script families; "
        "distinct = distinct op line; non-trivial = the implementation produced a serialisation")
NOTES = ["the model (P2sh.Proto) is the code after /repo commits aefd4e7, d83dd30, 3d62d14, cc7014b: P2sh.Props.C15.reads_preserve_bytes holds without restriction; "
         "a revert of one of them shows as model disagreements and as oracle failures classed W:tcp-urgent-dropped / W:ipv4-options-dropped / W:error-object-swallows-rest / W:unexplained",
         "the witness lines of the repaired findings in known_findings.json are run as regression inputs on every check"]
ASSUMPTIONS = ["the link type is Ethernet (what p2sh assumes for every savefile)",
               "Vec<u8>::from(&PcapPacket) is the only serialiser: pcap_write, write and filter-mode output all call it (checked end to end by C19/C20)"]
HARNESS_TIMEOUT = 300
DRIVER_TIMEOUT = 600

spec_override, judge, classify = P.make_hooks("C15", "W")
canon = P.canon


def nontrivial(c):
    return ";ok " in ";" + c.impl and "PANIC" != c.impl


def cases(ctx):
    rng = ctx.rng
    out = []
    shapes = P.shapes()
    core = ["eth-ipv4-tcp", "eth-ipv4-udp", "eth-ipv6-tcp", "eth-vlan-vlan-ipv4-udp", "eth-ipv4(ihl=7)-udp", "eth-ipv4-tcp(doff=8)", "eth-vlan-ipv6-udp", "eth-ipv4-ipv6-tcp"]
    for name, layers in shapes.items():
        frame = P.build(layers, rng)
        every = ctx.thorough() or name in core
        cuts = list(range(len(frame) + 1)) if every else sorted(set(list(range(0, len(frame) + 1, 5)) + [len(frame), 13, 14, 15, 33, 34, 35, 53, 54, 55]))
        cuts = [c for c in cuts if c <= len(frame)]
        full = P.full_read_script(layers)
        for cut in cuts:
            fr = frame[:cut]
            out.append(Case(P.pkt_line(fr, full), ("full-path", name)))
            out.append(Case(P.pkt_line(fr, P.dollar_script()), ("dollar", name)))
            for _ in range(ctx.scale(2, 4)):
                out.append(Case(P.pkt_line(fr, P.random_read_script(rng, layers)), ("random-reads", name)))
    # frames with bytes after what the length fields announce (padding, trailers): still "exactly the captured bytes"
    for name in core + ["eth-vlan-ipv4-tcp", "eth-ipv6-udp", "eth-ipv4-ipv6-udp", "eth-ipv4-icmp", "eth-arp"]:
        layers = shapes[name]
        for _ in range(ctx.scale(6, 60)):
            fr = P.with_trailer(P.build(layers, rng, payload=P.rb(rng, rng.choice([0, 1, 4, 18]))), rng)
            out.append(Case(P.pkt_line(fr, P.full_read_script(layers)), ("trailer", name)))
            out.append(Case(P.pkt_line(fr, P.dollar_script()), ("trailer", name)))
            out.append(Case(P.pkt_line(fr, P.random_read_script(rng, layers)), ("trailer", name)))
    # unstructured frames
    for _ in range(ctx.scale(300, 20000)):
        n = rng.choice([0, 1, 13, 14, 15, 18, 33, 34, 38, 54, 60, 74, 100])
        fr = P.rb(rng, n)
        if n >= 14 and rng.random() < 0.7:
            fr = fr[:12] + rng.choice([b"\x08\x00", b"\x86\xdd", b"\x81\x00"]) + fr[14:]
        out.append(Case(P.pkt_line(fr, P.random_read_script(rng, [P.L("eth"), P.L("ipv4"), P.L("tcp")])), ("random-frame",)))
        out.append(Case(P.pkt_line(fr, P.dollar_script()), ("random-frame-dollar",)))
    # record header values
    for _ in range(ctx.scale(50, 2000)):
        hdr = [rng.choice([0, 1, 0xFFFFFFFF, rng.getrandbits(32)]) for _ in range(4)]
        fr = P.build(shapes["eth-ipv4-udp"], rng)
        out.append(Case(P.pkt_line(fr, ["Gsec", "Gusec", "Gcaplen", "Gwirelen", "W", "Geth.ipv4.udp.payload", "W"], hdr), ("record-header",)))
    return P.with_witnesses(ctx, out)
