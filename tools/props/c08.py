"""C08 — execution never crashes: failures surface as runtime errors."""
import gen_lang
import wire
from props import c02, c09, c11, c12
from vlib import Case, lang_lines

RULE = ("no-panic oracle over four in-process engines: (1) every operator x operand-kind pair x boundary values through the real VM (op/un), (2) every builtin that is safe to call "
        "in-process x arity 0..4 x kinds x boundary values (builtin), (3) format strings incl. malformed ones, (4) generated programs plus deep recursion (unbounded, zero-argument), "
        "wide functions (255 parameters/locals), wrong arities, absurd shift/repeat/precision arguments (eval); every case runs under catch_unwind with a watchdog; "
        "non-trivial = the case ended with a value or a reported runtime/compile error")
ASSUMPTIONS = ["excluded by the property: requests for more memory than the machine has (repetition counts / widths above 2^24 are not generated) and printing self-containing containers",
               "time, exit, sleep, input, rand and the file/pcap builtins are exercised end-to-end through the binary by C20-C22/C24, not in-process",
               "comparison/hashing of a self-containing array overflows the native stack (K4): not generated here; recorded as a known finding of this property"]
HARNESS_TIMEOUT = 60


def canon(s):
    return s.split(" ")[0] if s.startswith(("ok", "rterr", "cerr", "perr", "eq=", "toks", "ast", "bc")) else s


def nontrivial(c):
    return c.impl in ("ok", "rterr", "cerr", "perr", "eq=")


def classify(c):
    return "crash " + c.line.split(" ")[0] + " " + " ".join(c.line.split(" ")[1:2])[:30]


def model_skip(c):
    return True


def spec_override(c):
    # this property demands one thing of every case: no panic, abort or hang
    return "nopanic"


DEEP = [
    "fn f() { f() }\nf()\n",
    "fn f(n) { f(n + 1) }\nf(0)\n",
    "let g = fn(a) { let x = [a]; g(x) };\ng(1)\n",
    "fn a() { b() }\nfn b() { a() }\na()\n",
    "fn f(n) { if n == 0 { 0 } else { 1 + f(n - 1) } }\nf(3000)\n",
    "fn f(n) { if n == 0 { 0 } else { 1 + f(n - 1) } }\nf(5000)\n",
    "let a = [];\nlet i = 0;\nwhile i < 5000 { i = i + 1; push(a, i); }\nlen(a)\n",
    "let s = \"ab\";\nlet i = 0;\nwhile i < 12 { i = i + 1; s = s + s; }\nlen(s)\n",
    "fn f() { return f; }\nf()()()()\n",
    "1 << 64; 1 << -1; 1 >> 64; 1 >> -1; -(-9223372036854775807 - 1); 9223372036854775807 + 1; (-9223372036854775807 - 1) / -1; (-9223372036854775807 - 1) % -1\n",
    "\"ab\" * 0; \"ab\" * -1; \"\" * 9223372036854775807\n",
    "round(1.5, 100); round(1.5, -1); round(1.5, 9223372036854775807); round(1e308, 300)\n",
    "[1][9223372036854775807]; [1][-9223372036854775807 - 1]; get([1], -1); get([1], 9223372036854775807)\n",
    "char(-1); char(4294967296); byte(-1); byte(1e30); int(1e30); int(-1e30); int(0.0 / 0.0)\n",
    "sort([3, \"a\", 1]); sort([1, 2.5, 0]); sort([[1], [0]]); sort([null, null])\n",
    "let m = map {}; m[[1, [2]]] = 1; m[[1, [2.0]]]\n",
    "len(); len(1, 2); push(); first(); format(); format(1); join(); chars(); round(); insert(1); get()\n",
    "pcap_stream(); pcap_open(); pcap_read_next(); pcap_read_all(); pcap_write(); open(); read(); write(); flush(); read_line(); read_to_string(); decode_utf8(); encode_utf8(); is_error(); strerror(); get_errno(1)\n",
]


def wide(n):
    ps = ", ".join(f"p{i}" for i in range(n))
    args = ", ".join(str(i) for i in range(n))
    locs = "".join(f"  let l{i} = p{i % max(n, 1)} + {i};\n" for i in range(n))
    return f"fn w({ps}) {{\n{locs}  return l{n - 1};\n}}\nw({args})\n"


def cases(ctx):
    rng = ctx.rng
    out = []
    for c in c09.cases(ctx):
        out.append(Case(c.line, ("op",)))
    skip = ("time", "exit", "sleep", "input", "flush", "open", "read", "write", "read_to_string", "read_line", "pcap_open", "pcap_stream", "pcap_read_next", "pcap_read_all", "pcap_write", "puts", "print", "println", "eprint", "eprintln")
    for c in c11.cases(ctx):
        out.append(Case(c.line, ("builtin",)))
    for c in c12.cases(ctx):
        out.append(Case(c.line, ("format",)))
    for b in ("get_errno", "strerror", "rand"):
        for v in [wire.i(0), wire.i(-1), wire.i(wire.I64_MAX), wire.i(wire.I64_MIN), wire.d(-1.0), wire.d(float("nan")), wire.d(float("inf")), wire.d(1e308), wire.s("x"), wire.NULL, wire.a()]:
            out.append(Case(f"builtin {b} {v}", ("builtin-extra",)))
            out.append(Case(f"builtin {b} {v} {v}", ("builtin-extra",)))
        out.append(Case(f"builtin {b}", ("builtin-extra",)))
    srcs, tags = [], []
    for s in DEEP:
        srcs.append(s); tags.append("deep")
    for n in (1, 100, 254, 255):
        srcs.append(wide(n)); tags.append("wide")
    for s in gen_lang.programs(rng, ctx.scale(1500, 60000), max_stmts=10, error_rate=0.1):
        srcs.append(s); tags.append("generated")
        if rng.random() < 0.2:
            srcs.append(gen_lang.faulty_variant(rng, s)); tags.append("ill-formed")
    lines = lang_lines(ctx, srcs)
    for l, t, s in zip(lines, tags, srcs):
        out.append(Case(l, (t,), extra={"src": s}))
    return out
