"""C08 — execution never crashes: failures surface as runtime errors."""
import concurrent.futures as cf
import os
import subprocess

import gen_lang
import vlib
import wire
from props import c02, c09, c11, c12, c20
from vlib import Case, lang_lines, vmrun_lines

# the direct operator / builtin / format applications are cases whose size the oracle computes: a "capacity overflow" panic or an
# allocator refusal is never excused there.  In a generated PROGRAM that the reference semantics left unconstrained before it
# reached the request (verdict `nopanic`), the size is not known to the oracle: there the statement's memory exclusion applies.
def MEMORY_EXCLUSION_IN_UNCONSTRAINED(c):
    return c.line.startswith(("eval ", "vmrun ", "filt "))

RULE = ("no-panic oracle over four in-process engines: (1) every operator x operand-kind pair x boundary values through the real VM (op/un), (2) every builtin that is safe to call "
        "in-process x arity 0..4 x kinds x boundary values (builtin), (3) format strings incl. malformed ones, (4) generated programs plus deep recursion (unbounded, zero-argument), "
        "wide functions (255 parameters/locals), wrong arities, absurd shift/repeat/precision arguments (eval); every case runs under catch_unwind with a watchdog; "
        "(5) end to end through the binary (dev and release) with packet input: filter programs — filters at top level, inside functions, blocks, loops and other filters' actions, "
        "referring to globals, parameters and locals of the enclosing function, with return / break / continue / runtime errors / recursion inside patterns and actions, several `@ end`; "
        "non-trivial = the case ended with a value or a reported runtime/compile error")
ASSUMPTIONS = ["excluded by the property: requests for more memory than the machine has (repetition counts / widths above 2^24 are not generated) and printing self-containing containers",
               "time, exit, sleep, input, rand and the file/pcap builtins are exercised end-to-end through the binary by C20-C22/C24, not in-process",
               "comparison/hashing of a self-containing array and dropping a container nested 200 000 levels deep overflow the native stack: generated, listed in known_findings.json"]
HARNESS_TIMEOUT = 60
BINARY_PROFILES = ["dev", "release"]


def canon(s):
    return s.split(" ")[0] if s.startswith(("ok", "rterr", "cerr", "perr", "eq=", "toks", "ast", "bc")) else s


def nontrivial(c):
    return c.impl in ("ok", "rterr", "cerr", "perr", "eq=")


def classify(c):
    k = (c.extra or {}).get("known_key")
    if k:
        return k
    return "crash " + c.line.split(" ")[0] + " " + " ".join(c.line.split(" ")[1:2])[:30]


# recursion of the native code over the *value* (drop, ==, hash): known findings, see known_findings.json
NATIVE_RECURSION = [
    ("deep-nesting-native-recursion", "let a = [];\nlet i = 0;\nwhile i < 200000 { a = [a]; i = i + 1; }\n0\n"),
    ("deep-nesting-native-recursion", "let a = map {};\nlet i = 0;\nwhile i < 200000 { a = map {1: a}; i = i + 1; }\n0\n"),
    ("self-containing-compare-or-hash", "let a = [1];\npush(a, a);\na == a\n"),
    ("self-containing-compare-or-hash", "let a = [1];\npush(a, a);\nlet m = map {};\nm[a] = 1;\n0\n"),
    ("map-inside-its-own-key", "let m = map {};\ninsert(m, [m], 1);\ninsert(m, [map {}], 2);\n0\n"),
]


def model_skip(c):
    return True


def spec_override(c):
    # this property demands one thing of every case: no panic, abort or hang — except where the oracle itself
    # computed a request for more memory than the machine has (verdict `any`: the property's exclusion)
    if c.line.startswith("vmrun "):
        # op vmrun: only the verdict of the bytecode verifier counts (proved: accepted code never panics in the VM model);
        # the execution of the same source is judged on its `eval` line, where the oracle knows the memory exclusion
        return c.spec if c.spec.startswith("eq BCV-REJECTED") else "any"
    # `any` is what the drivers print for exactly one reason here: the oracle computed a request beyond 16 MiB
    return "any" if c.spec == "any" and c.line.startswith(("eval ", "op ")) else "nopanic"


DEEP = [
    "fn f() { f() }\nf()\n",
    "fn f(n) { f(n + 1) }\nf(0)\n",
    "let g = fn(a) { let x = [a]; g(x) };\ng(1)\n",
    "fn a() { b() }\nfn b() { a() }\na()\n",
    "fn f(n) { if n == 0 { 0 } else { 1 + f(n - 1) } }\nf(3000)\n",
    "fn f(n) { if n == 0 { 0 } else { 1 + f(n - 1) } }\nf(5000)\n",
    "let a = [];\nlet i = 0;\nwhile i < 5000 { i = i + 1; push(a, i); }\nlen(a)\n",
    "let s = \"ab\";\nlet i = 0;\nwhile i < 12 { i = i + 1; s = s + s; }\nlen(s)\n",
    "fn f() { return f; }\nf()()()()\n",
    "1 << 64; 1 << -1; 1 >> 64; 1 >> -1; -(-9223372036854775807 - 1); 9223372036854775807 + 1; (-9223372036854775807 - 1) / -1; (-9223372036854775807 - 1) % -1\n",
    "\"ab\" * 0; \"ab\" * -1; \"\" * 9223372036854775807\n",
    "round(1.5, 100); round(1.5, -1); round(1.5, 9223372036854775807); round(1e308, 300)\n",
    "[1][9223372036854775807]; [1][-9223372036854775807 - 1]; get([1], -1); get([1], 9223372036854775807)\n",
    "char(-1); char(4294967296); byte(-1); byte(1e30); int(1e30); int(-1e30); int(0.0 / 0.0)\n",
    "sort([3, \"a\", 1]); sort([1, 2.5, 0]); sort([[1], [0]]); sort([null, null])\n",
    "let m = map {}; m[[1, [2]]] = 1; m[[1, [2.0]]]\n",
    "len(); len(1, 2); push(); first(); format(); format(1); join(); chars(); round(); insert(1); get()\n",
    "pcap_stream(); pcap_open(); pcap_read_next(); pcap_read_all(); pcap_write(); open(); read(); write(); flush(); read_line(); read_to_string(); decode_utf8(); encode_utf8(); is_error(); strerror(); get_errno(1)\n",
]


# ---- engine 5: filter programs through the binary, with packet input
F_PATTERNS = ["true", "false", "NP % 2 == 0", "PL > 10", "g > 0", "x", "loc", "1 / 0", "undefined_name", "f(1)", "self_name", "[1][5]", "null", "\"\"", "NP"]
F_ACTIONS = ["", "{ }", "{ g = g + 1; }", "{ return; }", "{ return 1; }", "{ break; }", "{ continue; }", "{ x = x + 1; }", "{ loc = loc + 1; puts(loc); }",
             "{ let a = 1; let b = 2; let c = a + b; g = g + c; }", "{ 1 / 0; }", "{ f(g); }", "{ rec(50); }", "{ rec(100000); }", "{ @ true { g = g + 1; } }",
             "{ fn inner() { return 5; } g = g + inner(); }", "{ while true { break; } }", "{ let i = 0; while i < 3 { i = i + 1; if i == 2 { continue; } } }",
             "{ puts(NP, \" \", PL, \" \", WL, \" \", TSS, \" \", TSU); }", "{ exit(0); }", "{ self_name(1); }", "{ let big = [1, 2, 3] * 2; }", "{ undefined_fn(); }",
             # unbounded recursion started from a filter, through functions with no parameters and no locals: the frame limit, not the
             # operand stack, is what stops it (a filter frame has no callee slot)
             "{ inf(); }", "{ pa(); }", "{ inf3(); }", "{ let q = 1; inf(); }",
             # the layers of the current packet, by depth and by name
             "{ puts($0, \" \", $1, \" \", $2, \" \", $3, \" \", $4, \" \", $5); }", "{ let t = $3; puts(t); let u = $2; puts(u); }",
             "{ let e = ($1); if e { puts(e.type); } let i = $2; if i { puts(i); } }", "{ puts($11); }", "{ let p = $0; puts(p.caplen, \" \", p.wirelen); g = g + len(p.payload); }"]
F_PLACES = [
    "@ {pat} {act}\n",
    "fn host(x) {{\n  let loc = 5;\n  @ {pat} {act}\n  return x;\n}}\nhost(1);\n",
    "fn self_name(x) {{\n  let loc = 5;\n  @ {pat} {act}\n}}\nself_name(2);\n",
    "{{\n  let loc = 7;\n  let x = 1;\n  @ {pat} {act}\n}}\n",
    "let k = 0;\nwhile k < 2 {{\n  k = k + 1;\n  let loc = k;\n  let x = k;\n  @ {pat} {act}\n}}\n",
    "let mk = fn(x) {{ let loc = x; return fn() {{ @ {pat} {act} }}; }};\nlet h = mk(3);\nh();\n",
    "@ true {{\n  let loc = 1;\n  let x = 2;\n  @ {pat} {act}\n}}\n",
    "@ end {act}\n",
    "@ {pat} {act}\n@ end {{ puts(NP); }}\n@ end {{ puts(g); }}\n",
]
F_PRELUDE = "let g = 1;\nlet x = 0;\nlet loc = 0;\nfn f(n) { n + g }\nfn rec(n) { if n == 0 { 0 } else { 1 + rec(n - 1) } }\nfn self_name(n) { n }\nfn inf() { return inf(); }\nlet pb = null;\nfn pa() { return pb(); }\npb = fn() { return pa(); };\nfn inf3() { inf3(); return 0; }\n"


def filter_programs(rng, n_random):
    out = []
    for place in F_PLACES:
        for pat in F_PATTERNS:
            out.append(F_PRELUDE + place.format(pat=pat, act=rng.choice(F_ACTIONS)))
        for act in F_ACTIONS:
            out.append(F_PRELUDE + place.format(pat=rng.choice(F_PATTERNS[:6]), act=act))
    for _ in range(n_random):
        body = "".join(rng.choice(F_PLACES).format(pat=rng.choice(F_PATTERNS), act=rng.choice(F_ACTIONS)) for _ in range(rng.randint(1, 3)))
        out.append(F_PRELUDE + body)
    return out


def guards(ctx, cases):
    """the engines must keep exercising what they are for: most filter programs compile and run"""
    f = [c for c in cases if c.line.startswith("filt ")]
    bad = [c for c in f if c.impl == "cerr"]
    if f and len(bad) > 0.65 * len(f):
        return [f"generator degenerate: {len(bad)} of {len(f)} filter programs are rejected by the compiler (e.g. {bad[0].extra['src'][-120:]!r})"]
    return []


def run_filter(ctx, scratch, idx, c):
    e = c.extra
    exe = ctx.p2sh.get(e["prof"])
    if not exe:
        return "NOHARNESS"
    path = os.path.join(scratch, f"q{idx}.p2")
    with open(path, "w", encoding="utf-8") as f:
        f.write(e["src"])
    try:
        p = subprocess.run([exe] + (["-s"] if e["skip"] else []) + [path], input=bytes.fromhex(e["data"]), stdout=subprocess.PIPE, stderr=subprocess.PIPE, timeout=60)
    except subprocess.TimeoutExpired:
        return "HANG"
    err = p.stderr.decode("utf-8", "replace")
    if "panicked" in err or "overflowed its stack" in err:
        return "PANIC " + err[:200].encode("utf-8").hex()
    if p.returncode < 0 or p.returncode in (101, 134, 139):
        return f"ABORT({p.returncode})"
    if "Runtime error" in err:
        return "rterr"
    if "compile error" in err or "parse errors" in err:
        return "cerr"
    return "ok"


def run_impl(ctx, cases):
    outs = [None] * len(cases)
    hidx = [k for k, c in enumerate(cases) if not c.line.startswith("filt ")]
    hout = vlib.run_parallel(ctx.harness, [cases[k].line for k in hidx], timeout=HARNESS_TIMEOUT, label="harness") if ctx.harness else ["NOHARNESS"] * len(hidx)
    for k, o in zip(hidx, hout):
        outs[k] = o
    fidx = [k for k, c in enumerate(cases) if c.line.startswith("filt ")]
    scratch = ctx.mkscratch()
    with cf.ThreadPoolExecutor(max_workers=16) as ex:
        for k, o in zip(fidx, ex.map(lambda k: run_filter(ctx, scratch, k, cases[k]), fidx)):
            outs[k] = o
    return outs


def wide(n):
    ps = ", ".join(f"p{i}" for i in range(n))
    args = ", ".join(str(i) for i in range(n))
    locs = "".join(f"  let l{i} = p{i % max(n, 1)} + {i};\n" for i in range(n))
    return f"fn w({ps}) {{\n{locs}  return l{n - 1};\n}}\nw({args})\n"


def cases(ctx):
    rng = ctx.rng
    out = []
    # the thorough tiers of C09 / C11 / C12 run their own case lists in full; here (no-panic only) a sample of them is enough
    # and keeps this check's memory bounded (the full union was ~1.5 M lines and got the run killed at 44 GB)
    step = 6 if ctx.thorough() else 1
    for c in c09.cases(ctx)[::step]:
        out.append(Case(c.line, ("op",)))
    skip = ("time", "exit", "sleep", "input", "flush", "open", "read", "write", "read_to_string", "read_line", "pcap_open", "pcap_stream", "pcap_read_next", "pcap_read_all", "pcap_write", "puts", "print", "println", "eprint", "eprintln")
    for c in c11.cases(ctx)[::step]:
        out.append(Case(c.line, ("builtin",)))
    for c in c12.cases(ctx)[::step]:
        out.append(Case(c.line, ("format",)))
    for b in ("get_errno", "strerror", "rand"):
        for v in [wire.i(0), wire.i(-1), wire.i(wire.I64_MAX), wire.i(wire.I64_MIN), wire.d(-1.0), wire.d(float("nan")), wire.d(float("inf")), wire.d(1e308), wire.s("x"), wire.NULL, wire.a()]:
            out.append(Case(f"builtin {b} {v}", ("builtin-extra",)))
            out.append(Case(f"builtin {b} {v} {v}", ("builtin-extra",)))
        out.append(Case(f"builtin {b}", ("builtin-extra",)))
    srcs, tags = [], []
    for s in DEEP:
        srcs.append(s); tags.append("deep")
    for n in (1, 100, 254, 255):
        srcs.append(wide(n)); tags.append("wide")
    for s in gen_lang.programs(rng, ctx.scale(1500, 30000), max_stmts=10, error_rate=0.1):
        srcs.append(s); tags.append("generated")
        if rng.random() < 0.2:
            srcs.append(gen_lang.faulty_variant(rng, s)); tags.append("ill-formed")
    lines = lang_lines(ctx, srcs)
    for l, t, s in zip(lines, tags, srcs):
        out.append(Case(l, (t,), extra={"src": s}))
    # translation validation (vm_safe): Bcv, proved sound for the VM model with explicit panic sites, on the real bytecode of every
    # program (verifier only: the VM model itself runs the same generator's programs in C02)
    vl = vmrun_lines(ctx, srcs, static=True)
    for l, t, s in zip(vl, tags, srcs):
        out.append(Case(l, (t, "vm"), extra={"src": s}))
    nl = lang_lines(ctx, [src for _, src in NATIVE_RECURSION])
    for l, (key, src) in zip(nl, NATIVE_RECURSION):
        out.append(Case(l, ("native-recursion",), extra={"src": src, "known_key": key}))
    # engine 5: filter programs with packet input, through the binary
    for k, src in enumerate(filter_programs(rng, ctx.scale(150, 6000))):
        hdr, pkts, data = c20.stream(rng)
        if not pkts:
            hdr, pkts, data = c20.stream(rng)
        if k % 2 == 1:
            # real frames, well-formed and malformed (every header-length / data-offset value, truncations): the layer accessors of
            # the filter actions parse them
            import struct
            from props import pktlib as PL
            shapes = PL.shapes()
            names = list(shapes)
            frames = []
            for _ in range(rng.randint(1, 6)):
                fr = PL.build(shapes[rng.choice(names)], rng)
                if rng.random() < 0.3:
                    fr = fr[: rng.randint(0, len(fr))]
                frames.append(fr)
            data = struct.pack("<IHHiIII", 0xA1B2C3D4, 2, 4, 0, 0, 65535, 1) + b"".join(struct.pack("<IIII", 1 + j, 0, len(fr), len(fr)) + fr for j, fr in enumerate(frames))
            pkts = frames
        prof = "dev" if k % 3 else "release"
        skip = rng.random() < 0.5
        out.append(Case("filt " + src.encode("utf-8").hex(), ("filter-e2e", prof), extra={"src": src, "data": data.hex(), "skip": skip, "prof": prof, "packets": len(pkts)}))
    return out
