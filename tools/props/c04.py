"""C04 — names resolve to the innermost visible binding and closures capture it."""
import itertools

import gen_lang
from props import c02
from vlib import Case, lang_lines, vmrun_lines

RULE = ("op `eval` on scope skeletons: nested/sibling blocks, shadowing, functions written inside blocks, nested and recursive functions, closures returned and called later, "
        "with a use of each name before, inside and after every block (each binding has a distinct value so a wrong resolution is visible); enumerated skeletons + random programs; "
        "oracle = P2sh.Ref / P2sh.Static (lexical scoping); non-trivial = the oracle constrained the outcome and the program compiled or was rejected")
ASSUMPTIONS = c02.ASSUMPTIONS
HARNESS_TIMEOUT = 20
canon = c02.canon
nontrivial = c02.nontrivial
classify = c02.classify
def model_skip(c):
    if c.line.startswith("core "):
        return c02.model_skip(c)
    return not c.line.startswith(("symtab ", "vmrun ", "resolve "))

NAMES = ["x", "y"]


def skeletons():
    """Enumerate small scope shapes.  Each shape is a list of nested pieces:
    U(name)  use -> push(obs, name) (or a compile error if not visible)
    A(name)  assignment name = <fresh value>
    L(name)  let name = <fresh value>
    B[...]   block
    F[...]   function statement whose body is [...], called right after its definition
    K[...]   closure created now, called after the enclosing block/function ended
    """
    out = []
    atoms = ["Ux", "Lx", "Uy", "Ly"]
    # depth-1 sequences of 3 atoms inside each wrapper shape
    seqs3 = list(itertools.product(atoms, repeat=3))
    wrappers = [
        "{pre} {{ {a} }} {post}",
        "{pre} {{ {a} {{ {b} }} {c} }} {post}",
        "{pre} {{ {a} }} {{ {b} }} {post}",
        "{pre} fn f() {{ {a} }} f(); {post}",
        "{pre} fn f() {{ {a} {{ {b} }} {c} }} f(); {post}",
        "{pre} {{ {a} fn f() {{ {b} }} f(); {c} }} {post}",
        "{pre} fn f() {{ {a} fn g() {{ {b} }} g(); {c} }} f(); {post}",
        "{pre} fn f() {{ {a} return fn() {{ {b} }}; }} let k = f(); {c} k(); {post}",
        "{pre} fn f(x) {{ {a} {{ {b} }} {c} }} f(50); {post}",
        "{pre} let i = 0; while i < 2 {{ i = i + 1; {a} {{ {b} }} {c} }} {post}",
        "{pre} if true {{ {a} }} else {{ {b} }} {c} {post}",
        "{pre} fn f() {{ {a} if true {{ {b} }} {c} }} f(); {post}",
        # a closure written inside a nested block, capturing that block's bindings; blocks inside the closure
        "{pre} fn f() {{ {{ {a} let k = fn() {{ {b} {{ {c} }} push(obs, x); }}; k(); }} }} f(); {post}",
        "{pre} {{ {{ {a} let k = fn() {{ {b} }}; {c} k(); }} }} {post}",
        "{pre} fn f() {{ if true {{ {a} {{ {b} let k = fn() {{ {c} push(obs, y); }}; k(); k(); }} }} }} f(); {post}",
        # a parameter spelled like the function (it hides the function's own name inside the body); the same for a local
        "{pre} fn x(x) {{ {a} push(obs, x); {b} }} x(77); {c} {post}",
        "{pre} let y = fn(y, x) {{ {a} push(obs, y); push(obs, x); {b} }}; y(5, 6); {c} {post}",
        "{pre} fn x(p) {{ let x = p + 1; {a} push(obs, x); {b} }} x(8); {c} {post}",
        # closures with several captured variables used non-commutatively
        "{pre} fn mk(p, q) {{ let r = 3; {a} return fn() {{ {b} push(obs, p - q); push(obs, [p, q, r, x]); }}; }} let k = mk(10, 4); {c} k(); {post}",
        # the enclosing function's own name used from a function nested in it
        "{pre} fn f(n) {{ {a} let g = fn() {{ {b} if n > 0 {{ return f(n - 1); }} return 7; }}; {c} return g(); }} push(obs, f(1)); {post}",
        "{pre} let f = fn(n) {{ {a} let g = fn(m) {{ {b} if m > 0 {{ return f(m - 1); }} return 100; }}; {c} if n > 0 {{ return g(n); }} return 7; }}; push(obs, f(2)); {post}",
    ]
    return wrappers, seqs3


class Render:
    def __init__(self):
        self.n = 0

    def atom(self, a):
        kind, name = a[0], a[1]
        if kind == "U":
            return f"push(obs, {name});"
        self.n += 1
        if kind == "A":
            return f"{name} = {self.n * 10 + (3 if name == 'x' else 4)};"
        return f"let {name} = {self.n * 10 + (1 if name == 'x' else 2)};"


def render(wrapper, pre, a, b, c, post):
    r = Render()
    parts = {}
    for key, atoms in (("pre", pre), ("a", a), ("b", b), ("c", c), ("post", post)):
        parts[key] = " ".join(r.atom(t) for t in atoms)
    body = wrapper.format(**parts)
    # one statement per line so that line numbers are meaningful
    text = "let obs = [];\n" + body.replace("; ", ";\n").replace("{ ", "{\n").replace(" }", "\n}") + "\n0\n"
    return text


def cases(ctx):
    rng = ctx.rng
    wrappers, seqs3 = skeletons()
    srcs, tags = [], []
    pres = [[], ["Lx"], ["Lx", "Ly"]]
    posts = [["Ux"], ["Ux", "Uy"]]
    atoms = ["Ux", "Lx", "Uy", "Ly", "Ax", "Ay"]
    core = ["Ux", "Lx", "Ax", "Uy"]
    for w in wrappers:
        for pre in pres:
            for post in posts:
                if ctx.thorough():
                    # all pairs over the four core atoms in every slot, plus all single atoms of the full set
                    combos = list(itertools.product(itertools.product(core, repeat=2), repeat=3)) + [((x,), (y,), (z,)) for x in atoms for y in atoms for z in atoms]
                else:
                    combos = [tuple(tuple(rng.choice(atoms) for _ in range(rng.randint(1, 2))) for _ in range(3)) for _ in range(60)]
                    combos += [((x,), (y,), (z,)) for x in core for y in core for z in core]
                for a, b, c in combos:
                    srcs.append(render(w, pre, list(a), list(b), list(c), post))
                    tags.append("skeleton")
    for s in gen_lang.SPECIALS:
        srcs.append(s); tags.append("special")
    for s in gen_lang.FAULTY:
        srcs.append(s); tags.append("faulty")
    # closures assigning to captured variables, also re-entrantly (an earlier activation of the same closure object still
    # running): through the reference semantics too — it must not commit where the documents are silent
    for s in c02.CORE_CLOS_FIXED:
        srcs.append("let obs = [];\n" + s + "0\n"); tags.append("closure-fixed")
    for s in gen_lang.programs(rng, ctx.scale(1000, 60000), max_stmts=8):
        srcs.append(s); tags.append("generated")
    lines = lang_lines(ctx, srcs)
    out = [Case(l, (t,), extra={"src": s}) for l, t, s in zip(lines, tags, srcs)]
    # translation validation: Bcv (the verified bytecode verifier: heights, local / free / constant indices in range, closure
    # free counts) on the real bytecode of the scope skeletons (closures, nested and recursive functions); the VM model runs it
    vsel = [k for k in range(len(srcs)) if tags[k] != "skeleton" or ctx.thorough() or k % 4 == 0]
    vl = vmrun_lines(ctx, [srcs[k] for k in vsel], static=[tags[k] == "generated" for k in vsel])
    out += [Case(l, (tags[k], "vm"), extra={"src": srcs[k]}) for l, k in zip(vl, vsel)]
    # the compiler's use of the symbol table (model P2sh.Resolver) against the real compiler, and the real compiler against
    # the lexical reference (P2sh.Lex): what is emitted for every name of every skeleton / generated program (op `resolve`)
    rl = lang_lines(ctx, srcs, op="resolve")
    out += [Case(l, (t, "resolve"), extra={"src": s}) for l, t, s in zip(rl, tags, srcs)]
    # the symbol-table model against the real SymbolTable, step by step
    names = ["x", "y", "f"]
    for _ in range(ctx.scale(4000, 200000)):
        steps, depth, level = [], 0, 0
        for _ in range(rng.randint(3, 25)):
            r = rng.random()
            n = rng.choice(names)
            if r < 0.3:
                steps.append(f"D{n},{depth}")
            elif r < 0.6:
                steps.append(f"R{n},{depth}")
            elif r < 0.7:
                depth += 1
            elif r < 0.8 and depth > 0:
                depth -= 1
                steps.append(f"L{depth}")
            elif r < 0.88 and level < 3:
                steps.append("E"); level += 1
                if rng.random() < 0.5:
                    steps.append(f"F{n}")
                depth = 0 if rng.random() < 0.8 else depth
            elif r < 0.95 and level > 0:
                steps.append("X"); level -= 1
            else:
                steps.append(f"B{rng.randint(0, 5)},len")
        if steps:
            out.append(Case("symtab " + ";".join(steps), ("symtab",)))
    # the run-time half of the last sentence (theorems C04Closure.closure_snapshot, captured_assignment_is_private): the layer
    # with closures of lean/P2sh/Core/Fn — which values `Closure` copies and in which order, what `GetFree` / `SetFree` read and
    # write, capture chains — functional compiler, machine and reference evaluation against the real compiler and VM (op `core`)
    csrcs = [c02.core_clos_program(rng) for _ in range(ctx.scale(500, 30000))] + c02.CORE_CLOS_FIXED
    cl = lang_lines(ctx, csrcs, op="core")
    out += [Case(l, ("closure-core",), extra={"src": s}) for l, s in zip(cl, csrcs)]
    return out
