"""C24 — script and command modes run a program the same way with the same argv."""
import concurrent.futures as cf
import os
import re
import subprocess

import gen_lang
from vlib import Case

RULE = ("end-to-end through the real binary (dev profile, built from the working tree): each generated program (printing, erroring, with parse/compile errors) x argument vector "
        "(empty, plain, unicode, dash-prefixed after --) is run from a script file, with -c, and from a file whose first line is a #! line; compared: stdout of -c = stdout of the "
        "script + the final value's line (predicted by the model of run_buf), argv as printed by the program in each mode, shebang-insensitivity (stdout equal, diagnostics' line "
        "numbers shifted by one), and the gate (diagnostics => empty stdout); non-trivial = the three runs completed and the program printed something")
ASSUMPTIONS = ["clap's grouping of the command line into -c / script / args is assumed (the model starts after it)",
               "the final value's Display text is supplied by the generator for a fixed table of final statements; other final statements are unconstrained (`*`)"]
BINARY_PROFILES = ["dev"]
FINALS = [("42", "42"), ('"s t"', '"s t"'), ("null", "-"), ("[1, 2]", "[1, 2]"), ("let zz = 1;", "*"), ("true", "true"), ("'c'", "'c'"), ("1.5", "1.5"),
          ('puts("tail")', "-"), ("if false { 1 }", "-"), ("3 * 4", "12"), ("map {}", "map {}"), ("fn() { 1 }", "<closure>"), ("len", "<built-in function len>")]
ERR_FINALS = ["1 / 0", "[1][5]", "undefined_name_q", "len(1)", "1 +"]
ARGVS = [[], ["a"], ["a", "b c"], ["é", "日本"], ["--", "-x", "--flag"], ["1", "2", "3", "4"], ["first", "--", "-x", "--y"], ["one", "two", "--", "-x"], ["a", "--", "--"], ["", "x"],
         # arguments spelled like the script path / like each other (a dispatch that removes argv[0] by value, or de-duplicates, loses them)
         ["p.p2"], ["a", "p.p2", "b"], ["s.p2", "p.p2", "s.p2"], ["x", "x"], ["./p.p2", "p.p2"], ["-", "p.p2"]]


# the first line of the shebang copy s.p2: any text up to the newline is a comment (non-ASCII paths, options, an empty `#!`)
SHEBANGS = ["#!/usr/bin/env p2sh", "#!/home/józef/bin/p2sh", "#!/opt/パケット/bin/p2sh -s", "#!", "#!/usr/bin/env -S p2sh --skip-pcap \"é\" 'x'", "#! /bin/p2sh # 日本語のコメント 🎉"]


def hx(s):
    return s.encode("utf-8").hex()


def positional(argv):
    """what the program sees: the first `--` is the separator the command line parser consumes; later ones are ordinary arguments"""
    if "--" in argv:
        k = argv.index("--")
        return argv[:k] + argv[k + 1:]
    return list(argv)


def nontrivial(c):
    return "same=t" in c.impl and "out=0" not in (c.extra or {}).get("note", "")


def classify(c):
    e = c.extra or {}
    return "cli " + e.get("final", "?")[:20]


SAFE = ['puts("hello");', "puts(1 + 2 * 3);", 'print("{} and {}", 1, "two"); puts("");', "let v@n@ = @n@ * 7;", "puts(v@m@);", "fn f@n@(a) { a + @n@ }", "puts(f@m@(1));",
        'println("n={}", @n@);', "let c@n@ = 0; while c@n@ < 3 { c@n@ = c@n@ + 1; puts(c@n@); }", "puts([1, 2, @n@]);", 'puts("é", " ", true, " ", null);',
        'if @n@ > 2 { puts("big"); } else { puts("small"); }', 'puts(match @n@ { 1 => "one", 2..5 => "few", _ => "many" });', "# a comment", ""]


def build(rng, k):
    body = []
    defined_v, defined_f = [], []
    for n in range(1, rng.randint(2, 9)):
        t = rng.choice(SAFE)
        if "@m@" in t:
            pool = defined_v if t.startswith("puts(v") else defined_f
            if not pool:
                continue
            t = t.replace("@m@", str(rng.choice(pool)))
        if t.startswith("let v@n@"):
            defined_v.append(n)
        if t.startswith("fn f@n@"):
            defined_f.append(n)
        body.append(t.replace("@n@", str(n)))
    body.append('puts("@@A ", len(argv));')
    body.append("let ai_ = 0;")
    body.append('while ai_ < len(argv) { puts("@@A ", argv[ai_]); ai_ = ai_ + 1; }')
    if rng.random() < 0.25:
        f = rng.choice(ERR_FINALS)
        fin, disp, err = f, "-", True
        diag = f in ("undefined_name_q", "1 +")
    else:
        fin, disp = rng.choice(FINALS)
        err, diag = False, False
    body.append(fin)
    # leading / trailing blank lines and a leading comment: the text is run as it is (line numbers count from its first line)
    lead = rng.choice(["", "", "\n", "\n\n\n", "// header\n", "  \n\t\n"])
    return lead + "\n".join(body) + "\n" + rng.choice(["", "", "\n\n"]), disp, err, diag, fin


def cases(ctx):
    rng = ctx.rng
    out = []
    for k in range(ctx.scale(250, 6000)):
        src, disp, err, diag, fin = build(rng, k)
        argv = rng.choice(ARGVS)
        f = disp if disp in ("-", "*") else hx(disp)
        if err:
            f = "-"
        line = f"cli F={f} E={'t' if err and not diag else 'f'} D={'t' if diag else 'f'} A={','.join(hx(a) for a in positional(argv))} P={hx(src)}"
        out.append(Case(line, ("error-final" if err else "value-final",), extra={"src": src, "argv": argv, "final": fin}))
    return out


def shift_lines(text, by):
    return re.sub(r"\[line (\d+)\]", lambda m: f"[line {int(m.group(1)) + by}]", text)


def run_one(exe, scratch, idx, c):
    src, argv = c.extra["src"], c.extra["argv"]
    d = os.path.join(scratch, f"c{idx}")
    os.makedirs(d, exist_ok=True)
    with open(os.path.join(d, "p.p2"), "w", encoding="utf-8") as f:
        f.write(src)
    with open(os.path.join(d, "s.p2"), "w", encoding="utf-8") as f:
        f.write(SHEBANGS[idx % len(SHEBANGS)] + "\n" + src)

    def run(args):
        try:
            p = subprocess.run([exe] + args, cwd=d, stdin=subprocess.DEVNULL, stdout=subprocess.PIPE, stderr=subprocess.PIPE, timeout=20)
            return p.stdout.decode("utf-8", "replace"), p.stderr.decode("utf-8", "replace"), p.returncode
        except subprocess.TimeoutExpired:
            return "", "HANG", -9
    o1, e1, r1 = run(["p.p2"] + argv)
    o2, e2, r2 = run(["-c", src] + argv)
    o3, e3, r3 = run(["s.p2"] + argv)
    for e in (e1, e2, e3):
        if "panicked" in e or e == "HANG":
            return "PANIC" if "panicked" in e else "HANG"
    if r1 < 0 or r2 < 0 or r3 < 0:
        return "ABORT"
    def strip_argv(out):
        return "".join(l for l in out.splitlines(keepends=True) if not l.startswith("@@A "))

    def argv_of(out):
        ls = [l[4:] for l in out.split("\n") if l.startswith("@@A ")]
        if not ls or not ls[0].isdigit() or len(ls) - 1 != int(ls[0]):
            return None
        return ls[1:]
    p1, p2 = strip_argv(o1), strip_argv(o2)
    # the diagnostics (with their line numbers) are part of "what running the text does": file and -c must report the same
    same = p2.startswith(p1) and e1 == e2
    extra = p2[len(p1):] if same else ""
    a1, a2 = argv_of(o1), argv_of(o2)
    diag1 = ("parse errors" in e1) or ("compile error" in e1)
    gate = (not diag1) or (o1 == "" and o2 == "" and o3 == "")
    sheb = (o3.replace("@@A s.p2\n", "@@A p.p2\n", 1) == o1) and (shift_lines(e1, 1) == e3)
    enc = lambda xs: "?" if xs is None else ",".join(hx(x) for x in xs)
    if diag1:
        # nothing ran: argv cannot be observed
        a1 = ["p.p2"] + positional(argv)
        a2 = positional(argv)
    if a1 is not None and a1 and a1[0] == "p.p2":
        pass
    return f"same={'t' if same else 'f'} extra={hx(extra)} argvfile={enc(a1)} argvcmd={enc(a2)} shebang={'t' if sheb else 'f'} gate={'t' if gate else 'f'}"


def run_impl(ctx, cases):
    exe = ctx.p2sh.get("dev")
    if not exe:
        return ["NOHARNESS"] * len(cases)
    scratch = ctx.mkscratch()
    with cf.ThreadPoolExecutor(max_workers=16) as ex:
        return list(ex.map(lambda ic: run_one(exe, scratch, ic[0], ic[1]), enumerate(cases)))


def model_skip(c):
    # an unconstrained final statement: the model prints the wildcard
    return " F=* " in c.line
