"""C18 — MAC, IPv4 and IPv6 address text converts losslessly and accepts the standard forms."""
import itertools

import wire
from vlib import Case
from props import pktlib as P

RULE = ("op `addr <mac|v4|v6> <text>`: the real from_str, Display, and from_str of the displayed text; op `pkt` assigning the text to an address property and reading "
        "it back; the reference parsers (Lean, Spec/Rfc.lean) classify every text as standard (must be accepted with that value), wrong group count / out-of-range "
        "group (must be rejected) or neither (only the round trip of whatever was accepted is demanded); IPv6: all 36 positions x lengths of `::`, both cases, "
        "1-4 digit groups; malformed mutations; distinct = distinct op line; non-trivial = the text was accepted")
NOTES = ["the model is the code after /repo commit d061929 (RFC 4291 `::` anywhere, a lone colon at an end and the empty text refused): v6_accepts_all is proved",
         "the witness lines of the repaired findings in known_findings.json are run as regression inputs on every check"]
ASSUMPTIONS = ["standard forms: six two-digit hexadecimal groups separated by ':'; four decimal groups without superfluous zeros separated by '.'; RFC 4291 §2.2 forms 1 and 2",
               "a text with characters other than digits and the separator, with one-digit MAC groups, zero-padded decimal groups, more than four hex digits of value "
               "<= 0xffff, ':::' or a stray single colon next to a complete address is 'neither standard nor required to be rejected'"]
HARNESS_TIMEOUT = 300
DRIVER_TIMEOUT = 600

spec_override, judge, classify = P.make_hooks("C18", "GSW")
canon = P.canon


def nontrivial(c):
    return c.impl.startswith("ok") or ";ok s:" in c.impl


def hx(t):
    return t.encode("utf-8").hex()


def group_text(rng, g, digits, upper):
    t = f"{g:x}"
    if digits > len(t):
        t = t.rjust(digits, "0")
    return t.upper() if upper else t


def v6_texts(ctx, rng):
    """every (position, length) of `::` x case x group width, values arranged so that no other zero run misleads"""
    out = []
    reps = ctx.scale(2, 12)
    for pos in range(0, 9):
        for ln in range(1, 9 - pos):
            for upper in (False, True):
                for digits in (0, 1, 2, 3, 4):
                    for _ in range(reps if digits == 0 else 1):
                        gs = [rng.choice([1, 0xf, 0x10, 0xabc, 0xffff, rng.randrange(1, 65536)]) for _ in range(8)]
                        if digits in (1, 2, 3):
                            gs = [g % (16 ** digits) or 1 for g in gs]
                        pre = [group_text(rng, g, digits, upper) for g in gs[:pos]]
                        post = [group_text(rng, g, digits, upper) for g in gs[pos + ln:]]
                        out.append((":".join(pre) + "::" + ":".join(post), "compressed"))
    for upper in (False, True):
        for digits in (0, 4):
            for _ in range(ctx.scale(40, 3000)):
                gs = [rng.choice([0, 0, 1, 0xffff, rng.randrange(65536)]) for _ in range(8)]
                out.append((":".join(group_text(rng, g, digits, upper) for g in gs), "full"))
    return out


def mutate(rng, text, sep, digits):
    r = rng.randrange(12)
    parts = text.split(sep)
    if r == 0:
        return sep.join(parts + [rng.choice(parts) or "1"])            # extra group
    if r == 1 and len(parts) > 1:
        return sep.join(parts[:-1])                                     # missing group
    if r == 2:
        i = rng.randrange(len(parts))
        parts[i] = {":": "10000", ".": "256"}[sep] if sep != ":" or digits == 4 else "100"
        return sep.join(parts)                                          # out-of-range group
    if r == 3:
        return sep + text                                               # leading separator
    if r == 4:
        return text + sep                                               # trailing separator
    if r == 5:
        i = rng.randrange(len(text) + 1)
        return text[:i] + sep + text[i:]                                # stray separator
    if r == 6:
        i = rng.randrange(len(parts))
        parts[i] = "0" + parts[i]
        return sep.join(parts)                                          # leading zero
    if r == 7:
        i = rng.randrange(len(text) + 1)
        return text[:i] + rng.choice("+- gGxz%/") + text[i:]            # foreign character
    if r == 8:
        return text.replace(sep, sep * 2, 1)                            # doubled separator
    if r == 9 and len(parts) > 2:
        i = rng.randrange(1, len(parts) - 1)
        return sep.join(parts[:i]) + sep * 2 + sep.join(parts[i:])      # a `::` in a complete address
    if r == 10:
        return text.replace(sep, sep * 3, 1)
    return sep.join(parts[1:]) if len(parts) > 1 else ""


def cases(ctx):
    rng = ctx.rng
    out = []
    texts = []      # (kind, text, tag)
    # --- MAC
    for _ in range(ctx.scale(300, 20000)):
        bs = [rng.choice([0, 9, 10, 15, 16, 0xab, 0xff, rng.getrandbits(8)]) for _ in range(6)]
        t = ":".join(f"{b:02x}" for b in bs)
        texts.append(("mac", t.upper() if rng.random() < 0.5 else t, "standard"))
        texts.append(("mac", mutate(rng, t, ":", 2), "mutation"))
    for b in range(256):
        texts.append(("mac", ":".join([f"{b:02X}"] * 6), "standard"))
    texts += [("mac", t, "boundary") for t in ("", ":", "0:0:0:0:0:0", "00:00:00:00:00:0", "000:00:00:00:00:00", "00-11-22-33-44-55", "0011.2233.4455", "00:11:22:33:44:5g", "+0:11:22:33:44:55",
                                               "00:11:22:33:44:100", "00:11:22:33:44:55:66", "00:11:22:33:44", "00::11:22:33:44:55")]
    # --- IPv4
    for _ in range(ctx.scale(300, 20000)):
        bs = [rng.choice([0, 1, 9, 10, 99, 100, 199, 200, 255, rng.getrandbits(8)]) for _ in range(4)]
        t = ".".join(str(b) for b in bs)
        texts.append(("v4", t, "standard"))
        texts.append(("v4", mutate(rng, t, ".", 3), "mutation"))
    for b in range(256):
        texts.append(("v4", f"{b}.{255 - b}.{b}.0", "standard"))
    texts += [("v4", t, "boundary") for t in ("", ".", "1.2.3", "1.2.3.4.5", "256.1.1.1", "1.1.1.256", "1.1.1.999", "01.2.3.4", "1.2.3.04", "1.2.3.+4", "1.2.3.-4", " 1.2.3.4", "1.2.3.4 ", "1..2.3",
                                              "1.2.3.4.", ".1.2.3.4", "0x1.2.3.4", "1.2.3", "4294967295", "1.2.3.0004")]
    # --- IPv6
    for t, tag in v6_texts(ctx, rng):
        texts.append(("v6", t, tag))
    for _ in range(ctx.scale(600, 30000)):
        gs = [rng.choice([0, 1, 0xffff, rng.randrange(65536)]) for _ in range(8)]
        t = ":".join(f"{g:x}" for g in gs)
        texts.append(("v6", mutate(rng, t, ":", 4), "mutation"))
        if rng.random() < 0.5:
            pos = rng.randrange(0, 8)
            ln = rng.randrange(1, 9 - pos)
            c = ":".join(f"{g:x}" for g in gs[:pos]) + "::" + ":".join(f"{g:x}" for g in gs[pos + ln:])
            texts.append(("v6", mutate(rng, c, ":", 4), "mutation"))
    texts += [("v6", t, "boundary") for t in ("", ":", "::", ":::", "::::", "::1", "1::", "1::1", "::ffff:1.2.3.4", "1:2:3:4:5:6:7:8", "1:2:3:4:5:6:7", "1:2:3:4:5:6:7:8:9", "1::2::3", "::1::",
                                              "1:2:3:4::5:6:7:8", "::2:3:4:5:6:7:8", "1:2:3:4:5:6:7::", "1::3:4:5:6:7:8", "10000::", "::10000", "0ffff::", "fffff::1", "g::1", "1:2:3:4:5:6:7:8:",
                                              ":1:2:3:4:5:6:7:8", ":1:2:3:4:5:6:7", "1:2:3:4:5:6:7:", "+1::2", "-1::2", "1::+2", "fe80::1%eth0", "::0", "0::", "0::0", "0:0:0:0:0:0:0:0",
                                              "00000::1", "1:2:3:4:5:6:7:00008")]
    # address families that printers like to special-case (IPv4-mapped / -compatible, NAT64, loopback, link-local, multicast):
    # written in full and compressed, so that whatever text the printer chooses for them is parsed back
    for _ in range(ctx.scale(60, 3000)):
        a, b = rng.randrange(65536), rng.randrange(65536)
        for gs in ([0, 0, 0, 0, 0, 0xffff, a, b], [0, 0, 0, 0, 0, 0, a, b], [0, 0, 0, 0, 0xffff, 0, a, b], [0x64, 0xff9b, 0, 0, 0, 0, a, b],
                   [0, 0, 0, 0, 0, 0xffff, 0, b], [0, 0, 0, 0, 0, 0, 0, b % 3], [0xfe80, 0, 0, 0, a, b, a, b], [0xff02, 0, 0, 0, 0, 0, 0, b % 256],
                   [0x2002, a, b, 0, 0, 0, 0, 1], [0x2001, 0xdb8, 0, 0, a, 0, 0, b]):
            texts.append(("v6", ":".join(f"{g:x}" for g in gs), "special"))
    texts += [("v6", t, "special") for t in ("::ffff:102:304", "::ffff:0:0", "::ffff:ffff:ffff", "::102:304", "64:ff9b::102:304", "::ffff:0:102:304", "::1:0:0", "0:0:0:0:0:ffff:c0a8:1")]
    seen = set()
    for kind, t, tag in texts:
        if (kind, t) in seen or t == "":
            continue            # the empty text goes through the property path only (an op line cannot carry an empty token)
        seen.add((kind, t))
        out.append(Case(f"addr {kind} {hx(t)}", ("addr", kind, tag)))
    # --- through the property path: assign the text, read it back, serialise, re-parse, read again
    shapes = P.shapes()
    hosts = {"mac": ("eth-ipv4-udp", ["eth.src", "eth.dst"]), "v4": ("eth-ipv4-udp", ["eth.ipv4.src", "eth.ipv4.dst"]), "v6": ("eth-ipv6-udp", ["eth.ipv6.src", "eth.ipv6.dst"])}
    sample = [x for x in texts if x[2] != "mutation"]
    rng.shuffle(sample)
    sample = sample[: ctx.scale(1200, 40000)] + [x for x in texts if x[2] == "boundary"]
    for kind, t, tag in sample:
        host, props = hosts[kind]
        frame = P.build(shapes[host], rng)
        p = rng.choice(props)
        out.append(Case(P.pkt_line(frame, [f"S{p}={wire.s(t)}", f"G{p}", "W", "R", f"G{p}"]), ("property", kind, tag)))
    return P.with_witnesses(ctx, out)
