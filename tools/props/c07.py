"""C07 — statements leave the operand stack balanced so loops run in constant stack."""
import itertools

import gen_lang
from props import c02
from vlib import Case, lang_lines, vmrun_lines

RULE = ("op `vmrun`: Bcv.checkProgram (heights consistent at every join, 0 at the end of the main code, operands in range) must accept the real bytecode of every program "
        "except the recorded pending-operand jumps, which it must refuse; op `eval`: statement sequences and loop bodies over the expression grammar, including empty match arms, branches ending in nested blocks, and break/continue taken "
        "inside array literals, call arguments, operands, match arms and if branches; the real VM's operand-stack height after the run (hook VM::verif_sp) must be 0 and long "
        "loops (5000 iterations > STACK_SIZE) must not report a stack overflow; oracle = P2sh.Ref (values) + height 0; non-trivial = program ran and the oracle constrained it")
ASSUMPTIONS = c02.ASSUMPTIONS + ["the height is read after the whole top-level program (heights of the statements add up, so a single leaking statement is visible); "
                                 "leaks inside a called function vanish at return and are caught by the long-loop cases"]
HARNESS_TIMEOUT = 60
canon = c02.canon
nontrivial = c02.nontrivial
model_skip = c02.model_skip

# expression contexts with a hole for a statement-bearing sub-expression
OPERAND_CTX = ["[1, {H}]", "[{H}, 2]", "f2(1, {H})", "(1 + {H})", "({H} + 1)", "map {{1: {H}}}", "a[{H}]", "(0 < {H})", "!{H}", "str({H})"]
JUMPS = ["if c == 2 {{ {J}; }}", "if c == 2 {{ {J}; }} else {{ 5 }}", "match c {{ 2 => {{ {J}; }}, _ => 3 }}", "if c != 2 {{ 1 }} else {{ {J}; 9 }}"]
SAFE_STMTS = [
    "match c { 1 => {} }", "match c { 1 => {}, _ => {} }", "if c == 1 { { 1; } }", "if c == 1 { { c; } } else { { 2; } }", "if c == 1 { }", "if c == 1 { let t = 1; }",
    "match c { 1 => { let t = 2; }, 2 => { { 3; } } }", "{ 1; 2; }", "c;", "[c, c];", "f2(c, c);", "let t = [c];", "a[0] = c;", "c == 1 && f2(c, c);", "c == 1 || c;",
    "if c == 1 { 1 } else if c == 2 { { 2; } } else { }", "fn g() { { 1; } } g();",
    # a return taken inside an operand position of the callee: the caller's stack must be as before the call
    "fn r1(x) { [1, 2, if x > 0 { return x; } else { 3 }] } r1(c);", "fn r2(x) { f2(10, if x > 0 { return 0; } else { x }) } r2(c);",
    "fn r3(x) { (1 + (2 * if x > 1 { return x; } else { 3 })) } let t = r3(c);", "fn r4(x) { map {1: if x > 0 { return x; } else { 2 }} } r4(c); r4(0);",
    "fn r5() { } r5(); f2(r5(), 1); null == r5();", "fn r6() { let t = 1; } [r6(), r6()];", "a[1] = c; a[2] = a[1];", "let mm = map {}; mm[c] = c; mm[c] = 0;",
    "let m2 = map {c: 1, c: 2, (c + 0): 3};", "let h = fn() { if c == 1 { { 1; } } }; h();", "match c { 1..3 => { { 1; } }, _ => 2 };",
]


def classify(c):
    if "pending-jump" in c.tags and c.spec.startswith("eq BCV-REJECTED") and "height-mismatch" in c.spec:
        # op vmrun: the bytecode verifier (Bcv, proved sound in P2sh.Props.Bcv) refuses the real bytecode statically:
        # two paths reach the join after the loop / at the loop head with different operand-stack heights
        return "jump-with-pending-operands"
    if "pending-jump" in c.tags and c.spec.startswith("m ok") and c.impl.startswith("ok "):
        # same final value and observations, only the height differs: the known compiler gap
        want = c.spec.split(" ")[1:]      # ok <final> obs=… sp=0
        got = c.impl.split(" ")
        if len(got) == 4 and len(want) == 4 and got[2] == want[2] and (want[1] == "*" or got[1] == want[1]) and got[3] != "sp=0":
            return "jump-with-pending-operands"
    return c02.classify(c)


def prog(body_lines, iters=3):
    return ("let obs = [];\nlet a = [0, 0, 0];\nfn f2(p, q) { p }\nlet c = 0;\nwhile c < " + str(iters) + " {\n  c = c + 1;\n"
            + "".join("  " + l + "\n" for l in body_lines) + "  push(obs, c);\n}\nc\n")


def cases(ctx):
    rng = ctx.rng
    progs = []
    for s in SAFE_STMTS:
        progs.append(("balanced", prog([s])))
        progs.append(("balanced-long", prog([s], 5000).replace("  push(obs, c);\n", "")))
    for s1, s2 in itertools.product(SAFE_STMTS, SAFE_STMTS):
        if rng.random() < ctx.scale(0.3, 1.0):
            progs.append(("balanced-pair", prog([s1, s2])))
    for ctxt, j, kind in itertools.product(OPERAND_CTX, JUMPS, ["break", "continue"]):
        e = ctxt.format(H=j.format(J=kind))
        progs.append(("pending-jump", prog([e + ";"])))
        progs.append(("pending-jump", prog(["let t = " + e + ";"])))
    # jumps in statement position inside branches (no pending operands)
    for j, kind in itertools.product(JUMPS, ["break", "continue"]):
        progs.append(("stmt-jump", prog([j.format(J=kind) + ";"])))
        progs.append(("stmt-jump-long", prog([j.format(J=kind).replace("c == 2", "c == 4999").replace("c != 2", "c != 4999").replace("2 =>", "4999 =>") + ";"], 5000).replace("  push(obs, c);\n", "")))
    # assignment to something that cannot be assigned to: rejected, or balanced — never a stack slot per execution
    for tgt in ("f2(1, 2)", "c + f2(1, 2)", "[c]", "1", "(c)", "-c", "!c", "f2", "$1", "-f2(1, 2)", "~c", "-a[0]", "!a[1]", "$c", "\"s\"", "null", "map {}", "fn() {}"):
        progs.append(("odd-assignment-long", prog([f"{tgt} = 3;"], 5000).replace("  push(obs, c);\n", "")))
    # `$n` outside a filter (no current packet): whatever it yields, evaluating it must leave the stack as a one-value expression does
    for st in ("$0;", "let t = $1;", "f2($0, $1);", "[$0, $2];", "$3 == null;", "if $0 { 1; }"):
        progs.append(("odd-assignment-long", prog([st], 5000).replace("  push(obs, c);\n", "")))
    for s in gen_lang.programs(rng, ctx.scale(1500, 60000), max_stmts=10):
        progs.append(("generated", s))
    srcs = [s for _, s in progs]
    lines = lang_lines(ctx, srcs)
    out = [Case(l, (t,), extra={"src": s}) for l, (t, s) in zip(lines, progs)]
    # translation validation: the verified bytecode verifier Bcv on the REAL bytecode of every program (driver op `vmrun`
    # appends bcv=ok|<reason>; a refusal is the verdict `eq BCV-REJECTED <reason>`), and the VM model runs that bytecode
    vprogs = [(t, s) for t, s in progs if not t.endswith("-long")]
    vl = vmrun_lines(ctx, [s for _, s in vprogs], static=[t == "generated" for t, _ in vprogs])
    out += [Case(l, (t, "vm"), extra={"src": s}) for l, (t, s) in zip(vl, vprogs)]
    # the core fragment (lean/P2sh/Core; theorems statement_balanced, loop_constant_stack, break_continue_balanced): `while` / `loop`
    # with break / continue under a statement-level `if`, plain and labelled; op `core` compares the functional compiler's code,
    # lines and constants, its machine (final globals, sp) and the reference evaluation with the real compiler and VM
    csrcs = [s for s in (c02.core_program(rng, typed=(k % 2 == 0)) for k in range(ctx.scale(1200, 40000))) if "break" in s or "continue" in s]
    for body in ("if c == 4000 { continue; }", "if c > 4400 { break; }", "if c == 7 { 1; continue out; } else { c }", "loop { if c > 0 { break; } }",
                 "if c < 0 { break; } else if c == 3 { continue; } else { let q = c; }"):
        csrcs.append(f"let c = 0;\nout: while c < 4500 {{\n  c = c + 1;\n  {body}\n}}\nc\n")
    # (the model's machine runs 100 000 steps: fewer rounds for the nested loop)
    csrcs.append("let c = 0;\nout: while c < 2000 {\n  c = c + 1;\n  let d = 0; L: loop { d = d + 1; if d > 1 { continue out; } }\n}\nc\n")
    cl = lang_lines(ctx, csrcs, op="core")
    out += [Case(l, ("core-loops",), extra={"src": s}) for l, s in zip(cl, csrcs)]
    # calls (lean/P2sh/Core/Fn; theorems call_pushes_one, call_statement_balanced): a call leaves one value, also after a
    # `return` from inside nested loops; calls in loops run in constant stack (sp after the run is 0)
    fsrcs = [s for s in (c02.core_fn_program(rng, typed=(k % 2 == 0)) for k in range(ctx.scale(600, 20000))) if "return" in s] + c02.CORE_FN_FIXED
    fsrcs.append("fn f(n) { let i = 0; while true { loop { if i > n { return i; } i = i + 1; } } }\nlet c = 0;\nwhile c < 1500 {\n  c = c + 1;\n  f(2);\n  let q = 1 + f(1);\n}\nc\n")
    fl = lang_lines(ctx, fsrcs, op="core")
    out += [Case(l, ("core-calls",), extra={"src": s}) for l, s in zip(fl, fsrcs)]
    return out


def judge(c):
    if "odd-assignment-long" in c.tags:
        # whatever the compiler makes of it, 5000 executions must not exhaust the stack
        return not c.impl.startswith(("rterr", "PANIC", "ABORT", "HANG"))
    return None
