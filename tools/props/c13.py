"""C13 — runtime errors report the source line of the failing operation."""
import gen_lang
from props import c02
from vlib import Case, lang_lines

RULE = ("op `eval`: one failing construct (division/modulo by zero, bad index, missing key, bad operand kinds, wrong arity, failing builtin, calling a non-function, bad unary operand) "
        "written on a single line, placed on a random line after random preceding code (blank lines, comments, definitions, loops, functions), inside and outside functions and "
        "nested calls; the oracle (P2sh.Ref) predicts `rterr <line>`; non-trivial = a runtime error was predicted and observed")
ASSUMPTIONS = c02.ASSUMPTIONS + ["constructs spanning several lines and errors raised by the frame/stack limits are not generated (the statement restricts itself to single-line constructs)"]
HARNESS_TIMEOUT = 20
canon = c02.canon
model_skip = c02.model_skip
classify = c02.classify


def nontrivial(c):
    return c.impl.startswith("rterr") and c.spec.startswith("m rterr")


FAILING = ["1 / 0", "7 % 0", "1.5 / 0", "[1, 2][5]", "[1][-1]", "map {1: 2}[3]", 'map {"a": 1}["b"]', '1 + "a"', '"a" - "b"', "[1] - [2]", "true < false", '-"a"', "~1.5", "!1 + 1",
           "g2(1)", "g2(1, 2, 3)", "len(1)", "len()", "first(5)", "push(1, 2)", "5(1)", '"s"()', "null[0]", "1[0]", "[1][true]", '"ab" * -1', "1 << \"a\"", "insert(1, 2, 3)",
           "g0() + zero()", "bad()", "[1, 2, 3][g2(1, 2)]", "int([])", "rest(1)", "contains([], 1)", "1 & 1.0", "map {[1]: 1}[map {}]"]
FILLER = ["", "# a comment", "// another comment", "let k{n} = {n};", "k0 = k0 + 1;", "fn unused{n}(a) {{ return a / 0; }}", "let w{n} = [1, 2, 3];",
          "let m{n} = map {{1: 2}};", "if k0 > 100 {{ k0 = 0; }}", "let q{n} = 0; while q{n} < 3 {{ q{n} = q{n} + 1; }}", "{{ let inner{n} = 1; }}", "push(obs, k0);"]


def build(rng):
    lines = ["let obs = [];", "let k0 = 0;", "fn g2(a, b) { a + b }", "fn g0() { 1 }", "fn zero() { 1 / 0 }", "fn bad() { return [1][9]; }"]
    for n in range(rng.randint(0, 40)):
        lines.append(rng.choice(FILLER).format(n=n + 1))
    f = rng.choice(FAILING)
    place = rng.random()
    if place < 0.4:
        lines.append(f + ";")
    elif place < 0.6:
        lines.append("let z = " + f + ";")
    elif place < 0.8:
        lines.append("fn wrap() {")
        for n in range(rng.randint(0, 5)):
            lines.append("  " + rng.choice(FILLER[:5]).format(n=100 + n))
        lines.append("  return " + f + ";")
        lines.append("}")
        for n in range(rng.randint(0, 5)):
            lines.append(rng.choice(FILLER[:4]).format(n=200 + n))
        lines.append("wrap();")
    elif place < 0.9:
        lines.append("let cl = fn(x) { fn() { x + " + f + " } };")
        lines.append("")
        lines.append("cl(1)();")
    else:
        lines.append("if k0 == 0 {")
        lines.append("  push(obs, " + f + ");")
        lines.append("}")
    lines.append("push(obs, 1);")
    # the line the error must name, computed from the text alone (independent of the scanner)
    if "zero()" in f:
        expect = 5
    elif "bad()" in f:
        expect = 6
    else:
        expect = max(i + 1 for i, l in enumerate(lines) if f in l)
    crlf = rng.random() < 0.25
    return ("\r\n" if crlf else "\n").join(lines) + ("\r\n" if crlf else "\n"), expect, crlf


def cases(ctx):
    rng = ctx.rng
    progs = []
    for _ in range(ctx.scale(2500, 100000)):
        src, expect, crlf = build(rng)
        progs.append(("failing-construct-crlf" if crlf else "failing-construct", src, expect))
    for s in gen_lang.programs(rng, ctx.scale(800, 40000), max_stmts=10, error_rate=0.08):
        progs.append(("generated", s, None))
    srcs = [s for _, s, _ in progs]
    lines = lang_lines(ctx, srcs)
    return [Case(l, (t,), extra={"src": s, "expect_line": e}) for l, (t, s, e) in zip(lines, progs)]


def judge(c):
    """independent of the AST lines: the failing construct's line as laid out by the generator"""
    e = (c.extra or {}).get("expect_line")
    if e is None or not c.impl.startswith("rterr "):
        return None
    return c.impl.split(" ")[1] == str(e)
