"""C13 — runtime errors report the source line of the failing operation."""
import gen_lang
from props import c02
from vlib import Case, lang_lines

RULE = ("op `eval`: one failing construct (division/modulo by zero, bad index, missing key, bad operand kinds, wrong arity, failing builtin, calling a non-function, bad unary operand) "
        "written on a single line, placed on a random line after random preceding code (blank lines, comments, definitions, loops, functions), inside and outside functions and "
        "nested calls; the oracle (P2sh.Ref) predicts `rterr <line>`; non-trivial = a runtime error was predicted and observed")
ASSUMPTIONS = c02.ASSUMPTIONS + ["constructs spanning several lines and errors raised by the frame/stack limits are not generated (the statement restricts itself to single-line constructs)"]
HARNESS_TIMEOUT = 20
canon = c02.canon
classify = c02.classify
BINARY_PROFILES = ["dev"]


def model_skip(c):
    # the end-to-end cases carry only the reported line (the binary prints no observation list)
    return "e2e-line" in c.tags or c02.model_skip(c)


def spec_override(c):
    if "e2e-line" in c.tags:
        # where the reference semantics commits to a failing line the binary must print exactly that line
        if c.spec.startswith("m rterr "):
            return "eq e2e rterr " + c.spec.split(" ")[2]
        if c.spec.startswith("m ok"):
            return "eq e2e ok"
        return "nopanic"
    return c.spec


def run_e2e(exe, scratch, idx, c):
    import os, re, subprocess
    path = os.path.join(scratch, f"l{idx}.p2")
    with open(path, "w", encoding="utf-8", newline="") as f:
        f.write(c.extra["src"])
    try:
        p = subprocess.run([exe, path], stdin=subprocess.DEVNULL, stdout=subprocess.PIPE, stderr=subprocess.PIPE, timeout=30)
    except subprocess.TimeoutExpired:
        return "HANG"
    err = p.stderr.decode("utf-8", "replace")
    if "panicked" in err:
        return "PANIC " + err[:160].encode("utf-8").hex()
    m = re.search(r"\[line (\d+)\] Runtime error", err)
    if m:
        return "e2e rterr " + m.group(1)
    if "compile error" in err or "parse error" in err:
        return "e2e cerr"
    return "e2e ok"


def run_impl(ctx, cases):
    import concurrent.futures as cf
    import vlib
    outs = [None] * len(cases)
    hidx = [k for k, c in enumerate(cases) if "e2e-line" not in c.tags]
    hout = vlib.run_parallel(ctx.harness, [cases[k].line for k in hidx], timeout=HARNESS_TIMEOUT, label="harness") if ctx.harness else ["NOHARNESS"] * len(hidx)
    for k, o in zip(hidx, hout):
        outs[k] = o
    gidx = [k for k, c in enumerate(cases) if "e2e-line" in c.tags]
    exe = ctx.p2sh.get("dev")
    if not exe:
        for k in gidx:
            outs[k] = "NOHARNESS"
    else:
        scratch = ctx.mkscratch()
        with cf.ThreadPoolExecutor(max_workers=16) as ex:
            for k, o in zip(gidx, ex.map(lambda k: run_e2e(exe, scratch, k, cases[k]), gidx)):
                outs[k] = o
    return outs


def nontrivial(c):
    if c.line.startswith("core "):
        # core fragment: the model compiler's line table and the reference evaluation's failing line were compared
        return c.impl.startswith("code=") and " rterr " in c.impl and c.spec.startswith("m code=") and " rterr " in c.spec
    return (c.impl.startswith("rterr") or c.impl.startswith("e2e rterr")) and c.spec.startswith("m rterr")


FAILING = ["1 / 0", "7 % 0", "1.5 / 0", "[1, 2][5]", "[1][-1]", "map {1: 2}[3]", 'map {"a": 1}["b"]', '1 + "a"', '"a" - "b"', "[1] - [2]", "true < false", '-"a"', "~1.5", "!1 + 1",
           "g2(1)", "g2(1, 2, 3)", "len(1)", "len()", "first(5)", "push(1, 2)", "5(1)", '"s"()', "null[0]", "1[0]", "[1][true]", '"ab" * -1', "1 << \"a\"", "insert(1, 2, 3)",
           "g0() + zero()", "bad()", "[1, 2, 3][g2(1, 2)]", "int([])", "rest(1)", "contains([], 1)", "1 & 1.0", "map {[1]: 1}[map {}]"]
FILLER = ["", "# a comment", "// another comment", "let k{n} = {n};", "k0 = k0 + 1;", "fn unused{n}(a) {{ return a / 0; }}", "let w{n} = [1, 2, 3];",
          "let m{n} = map {{1: 2}};", "if k0 > 100 {{ k0 = 0; }}", "let q{n} = 0; while q{n} < 3 {{ q{n} = q{n} + 1; }}", "{{ let inner{n} = 1; }}", "push(obs, k0);",
          # literals that cover several lines (the language has no escapes: this is how a newline is written)
          "let s{n} = \"two\nlines\";", "let t{n} = \"a\n\n\nb\";", "let c{n} = '\n';", "push(obs, len(\"x\ny\"));", "let b{n} = b'\n';"]


def build(rng):
    lines = ["let obs = [];", "let k0 = 0;", "fn g2(a, b) { a + b }", "fn g0() { 1 }", "fn zero() { 1 / 0 }", "fn bad() { return [1][9]; }"]
    for n in range(rng.randint(0, 40)):
        lines.append(rng.choice(FILLER).format(n=n + 1))
    f = rng.choice(FAILING)
    place = rng.random()
    if place < 0.4:
        lines.append(f + ";")
    elif place < 0.6:
        lines.append("let z = " + f + ";")
    elif place < 0.8:
        lines.append("fn wrap() {")
        for n in range(rng.randint(0, 5)):
            lines.append("  " + rng.choice(FILLER[:5]).format(n=100 + n))
        lines.append("  return " + f + ";")
        lines.append("}")
        for n in range(rng.randint(0, 5)):
            lines.append(rng.choice(FILLER[:4]).format(n=200 + n))
        lines.append("wrap();")
    elif place < 0.9:
        lines.append("let cl = fn(x) { fn() { x + " + f + " } };")
        lines.append("")
        lines.append("cl(1)();")
    else:
        lines.append("if k0 == 0 {")
        lines.append("  push(obs, " + f + ");")
        lines.append("}")
    lines.append("push(obs, 1);")
    # the line the error must name, computed from the text alone (independent of the scanner)
    if "zero()" in f:
        expect = 5
    elif "bad()" in f:
        expect = 6
    else:
        expect = max(i + 1 for i, l in enumerate("\n".join(lines).split("\n")) if f in l)
    crlf = rng.random() < 0.25
    return ("\r\n" if crlf else "\n").join(lines) + ("\r\n" if crlf else "\n"), expect, crlf


# ---- the core fragment (lean/P2sh/Core/Lines.lean, theorem Props.C13.fail_line_program): op `core` compares the real
# compiler's whole line table with `Core.lineTable` and the reported line with `Core.failLine`, on constructs that
# span several lines.  (text of the failing construct, 0-based offset of the line of the failing OPERATOR inside it)
CORE_FAIL = [("(2 / 0)", 0), ("(7 %\n  0)", 0), ("(2\n  / 0)", 1), ("(1\n  +\n  'c')", 1), ("(null -\n  1)", 0), ("(-'c')", 0), ("(-\n  'c')", 0), ("(~1.5)", 0), ("(~\n\n  null)", 0),
             ("(true < false)", 0), ("(1 <=\n  null)", 0), ("(1 << \"\")", 0), ("(1.5 &\n  1)", 0), ("(b'a' *\n  'c')", 0), ("((1 / 0) +\n  (2 / 0))", 0), ("((1 - null) <\n  (2 / 0))", 1),
             ("((1 - null)\n  <=\n  (2 % 0))", 2), ("(if true {\n  'c' - 1\n})", 1), ("(if 1 > 2 { 1 } else {\n  1 /\n  0\n})", 1), ("(false ||\n  (1 / 0))", 1), ("(1 &&\n  (null\n  * 2))", 2),
             ("(!(1 / 0))", 0), ("(9223372036854775807 +\n  (1 % 0))", 1)]
CORE_FILLER = ["", "# a comment", "// another comment", "let k{n} = {n};", "k0 = k0 + 1;", "{{ let inner{n} = k0 * 2; }}", "if k0 > 100 {{ k0 }} else {{ 0 }};",
               "let q{n} = 0; while q{n} < 3 {{ q{n} = q{n} + 1; }}", "k0 = (k0\n  +\n  1);", "false && (1 / 0);", "true || (1 % 0);"]


def build_core(rng):
    lines = ["let k0 = 0;"]
    for n in range(rng.randint(0, 25)):
        lines.append(rng.choice(CORE_FILLER).format(n=n + 1))
    f, off = rng.choice(CORE_FAIL)
    lines = "\n".join(lines).split("\n")
    place = rng.random()
    if place < 0.2:
        pre, post = [], ";"
    elif place < 0.35:
        pre, post = ["let z = 1 +"], ";"
    elif place < 0.5:
        pre, post = ["if k0 >= 0 {"], "\n};"
    elif place < 0.6:
        pre, post = ["if k0 < 0 { 1 } else if false { 2 } else {"], "\n};"
    elif place < 0.7:
        pre, post = ["true &&", "  (null ||"], ");"
    elif place < 0.8:
        # `<` evaluates its right operand first: the construct on the right fails before the division on the left
        pre, post = ["(1 / 0) <"], ";"
    else:
        # inside a loop, in the k-th iteration (k-1 complete iterations before)
        k = rng.randint(1, 4)
        pre, post = ["let i = 0;", "while i < 5 {", "  i = i + 1;", f"  if i == {k} {{"], "\n  } else { 0 };\n}"
    lines += pre
    start = len(lines) + 1            # 1-based line on which the construct starts
    lines += (f + post).split("\n")
    lines.append("k0 = k0 + 1;")
    lines.append("k0")
    return "\n".join(lines) + "\n", start + off


def multiline(rng, src):
    """the same core program with random token boundaries turned into line breaks (no token of the fragment contains a space)"""
    return "".join("\n" if ch == " " and rng.random() < 0.2 else ch for ch in src)


def core_cases(ctx):
    rng = ctx.rng
    progs = [("core-failing-construct",) + build_core(rng) for _ in range(ctx.scale(800, 8000))]
    progs += [("core-multiline", multiline(rng, c02.core_program(rng, typed=(k % 4 == 0))), None) for k in range(ctx.scale(1200, 12000))]
    lines = lang_lines(ctx, [s for _, s, _ in progs], op="core")
    return [Case(l, (t,), extra={"src": s, "expect_line": e}) for l, (t, s, e) in zip(lines, progs)]


def cases(ctx):
    rng = ctx.rng
    progs = []
    for _ in range(ctx.scale(2500, 100000)):
        src, expect, crlf = build(rng)
        progs.append(("failing-construct-crlf" if crlf else "failing-construct", src, expect))
    # line numbers beyond 16 bits: blank and comment lines emit no code, so the program stays small
    for off in (65530, 65535, 65536, 70000, 131072, 200001):
        for _ in range(2):
            src, expect, crlf = build(rng)
            if crlf:
                continue
            pad = "\n" * off if rng.random() < 0.5 else "# pad\n" * off
            progs.append(("large-line-number", pad + src, expect + off))
    for s in gen_lang.programs(rng, ctx.scale(800, 40000), max_stmts=10, error_rate=0.08):
        progs.append(("generated", s, None))
    # end to end through the binary (the text reaches the scanner as it is in the file: leading blank lines and comments count)
    e2e = []
    for _ in range(ctx.scale(160, 4000)):
        src, expect, crlf = build(rng)
        if crlf:
            continue
        lead = rng.choice(["", "\n", "\n\n\n", "# header\n\n", "  \n\t\n", "// a\n// b\n"])
        e2e.append(("e2e-line", lead + src, expect + lead.count("\n")))
    srcs = [s for _, s, _ in progs + e2e]
    lines = lang_lines(ctx, srcs)
    return [Case(l, (t,), extra={"src": s, "expect_line": e}) for l, (t, s, e) in zip(lines, progs + e2e)] + core_cases(ctx)


def judge(c):
    """independent of the AST lines: the failing construct's line as laid out by the generator"""
    e = (c.extra or {}).get("expect_line")
    if "e2e-line" in c.tags:
        # the line the binary prints is the generator's line (and, where the reference semantics commits, the oracle's)
        if not c.impl.startswith("e2e "):
            return False
        if c.impl.startswith("e2e rterr "):
            return c.impl == "e2e rterr " + str(e)
        return None
    if e is not None and c.line.startswith("core "):
        # a core program built around one failing construct must fail, on the line of the failing operator
        t = c.impl.split(" ")
        return "rterr" in t[:-1] and t[t.index("rterr") + 1] == str(e)
    if e is None or not c.impl.startswith("rterr "):
        return None
    return c.impl.split(" ")[1] == str(e)
