"""C14 — bytecode operands are encoded losslessly or the program is rejected."""
import vlib
from vlib import Case

# every case of this module is a direct operator / builtin / codec application whose size the oracle computes:
# a "capacity overflow" panic is never excused here
MEMORY_EXCLUSION_IN_UNCONSTRAINED = False

RULE = ("op `enc <byte> <operands>`: definitions::make, lookup and read_operands on the real code vs the Lean model; "
        "the spec demands decode(encode(operands)) = operands whenever every operand fits its declared width; "
        "distinct = distinct (opcode byte, operand list); non-trivial = the opcode has a DEFINITIONS row and code was produced")
ASSUMPTIONS = ["operands are usize values; the harness passes them to make() unchanged",
               "limit programs (op `eval`): whole programs whose operands sit at and beyond the 8/16-bit boundaries (jump targets around 32768 and beyond 65535, local / argument / "
               "captured-variable counts around 255, literal sizes around 255/256/65535, constant indices beyond 255) run through the real scanner, parser, compiler and VM; the expected "
               "result is computed by the generator; beyond a boundary the outcome must be the correct result or a compile error, never a wrong run"]
EXHAUSTIVE = False
HARNESS_TIMEOUT = 900


def nontrivial(c):
    return " dec=[" in c.impl or (c.line.startswith(("eval ", "core ")) and c.impl.startswith(("ok", "cerr", "code=")))


def spec_override(c):
    e = (c.extra or {}).get("expect")
    return e if e else c.spec


def model_skip(c):
    if c.line.startswith("core "):
        a = [x for x in c.impl.split(" ") if not x.startswith("last=")]
        b = [x for x in c.model.split(" ") if not x.startswith("last=")]
        return a == b
    return c.line.startswith("eval ")


def canon(s):
    return "cerr" if s.startswith("cerr") else s


def classify(c):
    return (c.extra or {}).get("name")


def hx(s):
    return s.encode("utf-8").hex()


def limit_programs(thorough):
    """-> [(name, source, verdict)]; verdicts in the oracle language of vlib.judge_spec"""
    out = []
    ok = lambda final, obs: f"ok {final} obs=a[{','.join('i:%d' % o for o in obs)}] sp=0"

    def exact(name, src, final, obs):
        out.append((name, src, "eq " + ok(final, obs)))

    def ok_or_rejected(name, src, final, obs):
        out.append((name, src, "oneof " + ok(final, obs) + " || cerr*"))
    pad = lambda n: "acc = acc + 1;\n" * n
    # --- jump targets: below 32768, between 32768 and 65535 (every kind of jump), beyond 65535
    tail = ("if acc > 0 { push(obs, 1); } else { push(obs, 2); }\npush(obs, 3);\nlet i = 0;\nwhile i < 3 { i = i + 1; if i == 2 { continue; } push(obs, 10 + i); }\n"
            "loop { i = i + 1; if i > 5 { break; } }\npush(obs, i);\npush(obs, match acc { 0 => 7, _ => 8 });\npush(obs, if acc == 0 { 4 } else { 5 });\n"
            "push(obs, (acc > 0) && (acc > 1));\nacc\n")
    for n in (100, 2900, 3100, 5000):
        exact(f"jump-target-after-{n}-statements", "let obs = [];\nlet acc = 0;\n" + pad(n) + tail.replace("push(obs, (acc > 0) && (acc > 1));\n", ""), f"i:{n}", [1, 3, 11, 13, 6, 8, 5])
    # the same inside one function body
    exact("jump-target-in-function-body", "let obs = [];\nfn f(acc) {\n" + pad(3100) + "if acc > 0 { push(obs, 1); } else { push(obs, 2); }\nlet i = 0;\nwhile i < 2 { i = i + 1; }\nreturn acc + i;\n}\nf(0)\n",
          "i:3102", [1])
    # a forward jump across more than 65535 bytes / a backward jump of a loop longer than 65535 bytes
    big = 6100
    ok_or_rejected("if-branch-longer-than-65535-bytes", "let obs = [];\nlet acc = 0;\nif acc == 0 {\n" + pad(big) + "} else { push(obs, 2); }\npush(obs, 3);\nacc\n", f"i:{big}", [3])
    ok_or_rejected("loop-body-longer-than-65535-bytes", "let obs = [];\nlet acc = 0;\nlet k = 0;\nwhile k < 2 {\nk = k + 1;\n" + pad(big) + "}\npush(obs, k);\nacc\n", f"i:{2 * big}", [2])
    # --- locals of one function
    for n in (200, 255, 256, 257, 300):
        body = "".join(f"let l{j} = {j};\n" for j in range(n))
        src = f"let obs = [];\nfn f() {{\n{body}return l0 + l{n - 1} + l{n // 2};\n}}\nf()\n"
        (exact if n <= 255 else ok_or_rejected)(f"locals-{n}", src, f"i:{n - 1 + n // 2}", [])
    # --- call arguments / parameters
    for n in (200, 255, 256, 300):
        params = ", ".join(f"p{j}" for j in range(n))
        args = ", ".join(str(j) for j in range(n))
        src = f"let obs = [];\nfn f({params}) {{ p0 + p{n - 1} + p{n // 2} }}\nf({args})\n"
        (exact if n <= 255 else ok_or_rejected)(f"arguments-{n}", src, f"i:{n - 1 + n // 2}", [])
    # --- captured variables of one closure
    for n in (200, 255, 256, 257, 300):
        lets = "".join(f"let c{j} = {j};\n" for j in range(n))
        uses = " + ".join(f"c{j}" for j in range(n))
        src = f"let obs = [];\nfn mk() {{\n{lets}return fn() {{ {uses} }};\n}}\nlet k = mk();\nk()\n"
        (exact if n <= 255 else ok_or_rejected)(f"captures-{n}", src, f"i:{n * (n - 1) // 2}", [])
    # --- literal sizes: arrays and maps (operand = element count / 2 x pair count); constant indices beyond 255
    for n in (127, 128, 255, 256, 257, 1000, 3000):
        src = f"let obs = [];\nlet a = [{', '.join(str(j) for j in range(n))}];\npush(obs, len(a));\npush(obs, a[{n - 1}]);\na[{n // 2}]\n"
        exact(f"array-literal-{n}", src, f"i:{n // 2}", [n, n - 1])
    for n in (100, 127, 128, 129, 200, 256, 1000, 1500):
        src = f"let obs = [];\nlet m = map {{{', '.join(f'{j}: {j + 1}' for j in range(n))}}};\npush(obs, len(m));\npush(obs, m[{n - 1}]);\nm[0]\n"
        exact(f"map-literal-{n}-pairs", src, "i:1", [n, n])
    if True:
        # operands beyond 16 bits: constants, globals, literal sizes (affordable since the harness runs with
        # glibc's mmap threshold raised: the compiler clones its instruction buffer on every emit)
        ok_or_rejected("closure-constant-index-65536", "let obs = [];\nfn ff() { 4 }\n" + "".join(f"{j};\n" for j in range(65536)) + "fn gg() { 5 }\npush(obs, ff());\ngg()\n", "i:5", [4])
        ok_or_rejected("array-literal-65536", f"let obs = [];\nlet a = [{', '.join('1' for _ in range(65536))}];\nlen(a)\n", "i:65536", [])
        ok_or_rejected("map-literal-32768-pairs", f"let obs = [];\nlet m = map {{{', '.join(f'{j}: 1' for j in range(32768))}}};\nlen(m)\n", "i:32768", [])
        exact("constants-65000", "let obs = [];\n" + "".join(f"{j};\n" for j in range(65000)) + "push(obs, 7);\n65000\n", "i:65000", [7])
        ok_or_rejected("constants-65600", "let obs = [];\n" + "".join(f"{j};\n" for j in range(65600)) + "push(obs, 7);\n65600\n", "i:65600", [7])
        ok_or_rejected("globals-65600", "let obs = [];\n" + "".join(f"let g{j} = {j % 7};\n" for j in range(65600)) + "g65599\n", f"i:{65599 % 7}", [])
    return out


def cases(ctx):
    global EXHAUSTIVE
    out = []
    b16 = [0, 1, 2, 127, 128, 255, 256, 257, 511, 512, 4095, 4096, 32767, 32768, 65534, 65535]
    over = [65536, 65537, 131071, 1 << 32, (1 << 64) - 1]
    if ctx.thorough():
        vals16 = list(range(65536))
        EXHAUSTIVE = True
    else:
        vals16 = sorted(set(b16 + list(range(0, 65536, 97)) + [ctx.rng.randrange(65536) for _ in range(300)]))
    vals8 = list(range(256))
    # every opcode byte, every arity 0..3 with boundary values
    for b in range(256):
        out.append(Case(f"enc {b}", ("arity0",)))
        for v in b16 + over:
            out.append(Case(f"enc {b} {v}", ("boundary",)))
        out.append(Case(f"enc {b} 1 2", ("arity2",)))
        out.append(Case(f"enc {b} 300 300 7", ("arity3",)))
    # exhaustive operand sweep for real opcodes (0..47): one operand, then two for Closure
    for b in range(0, 49):
        for v in vals16:
            out.append(Case(f"enc {b} {v}", ("sweep16",)))
    for v in vals8:
        for w in (0, 1, 255, 256, 65535):
            out.append(Case(f"enc 34 {w} {v}", ("closure",)))
    for v in (vals16 if ctx.thorough() else vals16[::7]):
        for w in (0, 255, 256):
            out.append(Case(f"enc 34 {v} {w}", ("closure",)))
    # spread the limit programs over the shards (the big ones take seconds each)
    lim = limit_programs(ctx.thorough())
    step = max(1, len(out) // (len(lim) + 1))
    for k, (name, src, verdict) in enumerate(lim):
        out.insert(min(len(out), (k + 1) * step + k), Case("eval " + hx(src), ("limit-program",), extra={"expect": verdict, "name": "limit " + name}))
    # whole programs of the core fragment around the 16-bit jump boundary: the functional compiler with its overflow
    # check (Core.compileChecked, theorem compile_lossless_or_rejected) must be byte-exact with the real compiler where
    # it accepts, and reject exactly where the real compiler rejects
    pad = lambda n: "acc = acc + 1;\n" * n
    csrcs = []
    for n in (10, 2900, 3100, 5900, 5950, 5955, 5960, 6100):
        csrcs.append(("while-body-%d" % n, "let acc = 0;\nlet k = 0;\nwhile k < 2 {\nk = k + 1;\n" + pad(n) + "}\nacc\n"))
        csrcs.append(("block-then-loop-%d" % n, "let acc = 0;\n{\n" + pad(n) + "}\nlet k = 0;\nwhile k < 3 { k = k + 1; acc = acc + k; }\nacc\n"))
    lines = vlib.lang_lines(ctx, [s2 for _, s2 in csrcs], op="core")
    for (name, s2), l in zip(csrcs, lines):
        out.append(Case(l, ("core-limit",), extra={"name": "core " + name}))
    return out
