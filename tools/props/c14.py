"""C14 — bytecode operands are encoded losslessly or the program is rejected."""
from vlib import Case

RULE = ("op `enc <byte> <operands>`: definitions::make, lookup and read_operands on the real code vs the Lean model; "
        "the spec demands decode(encode(operands)) = operands whenever every operand fits its declared width; "
        "distinct = distinct (opcode byte, operand list); non-trivial = the opcode has a DEFINITIONS row and code was produced")
ASSUMPTIONS = ["operands are usize values; the harness passes them to make() unchanged"]
EXHAUSTIVE = False


def nontrivial(c):
    return " dec=[" in c.impl


def cases(ctx):
    global EXHAUSTIVE
    out = []
    b16 = [0, 1, 2, 127, 128, 255, 256, 257, 511, 512, 4095, 4096, 32767, 32768, 65534, 65535]
    over = [65536, 65537, 131071, 1 << 32, (1 << 64) - 1]
    if ctx.thorough():
        vals16 = list(range(65536))
        EXHAUSTIVE = True
    else:
        vals16 = sorted(set(b16 + list(range(0, 65536, 97)) + [ctx.rng.randrange(65536) for _ in range(300)]))
    vals8 = list(range(256))
    # every opcode byte, every arity 0..3 with boundary values
    for b in range(256):
        out.append(Case(f"enc {b}", ("arity0",)))
        for v in b16 + over:
            out.append(Case(f"enc {b} {v}", ("boundary",)))
        out.append(Case(f"enc {b} 1 2", ("arity2",)))
        out.append(Case(f"enc {b} 300 300 7", ("arity3",)))
    # exhaustive operand sweep for real opcodes (0..47): one operand, then two for Closure
    for b in range(0, 49):
        for v in vals16:
            out.append(Case(f"enc {b} {v}", ("sweep16",)))
    for v in vals8:
        for w in (0, 1, 255, 256, 65535):
            out.append(Case(f"enc 34 {w} {v}", ("closure",)))
    for v in (vals16 if ctx.thorough() else vals16[::7]):
        for w in (0, 255, 256):
            out.append(Case(f"enc 34 {v} {w}", ("closure",)))
    return out
