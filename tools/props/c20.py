"""C20 — filter mode emits exactly the selected packets with correct per-packet state."""
import concurrent.futures as cf
import json
import os
import struct
import subprocess

from vlib import Case, run_parallel

RULE = ("end-to-end through the real binary (dev + release profiles): random pcap streams (0-40 packets, both magics, varied snaplen/linktype/version/thiszone/sigfigs) piped to "
        "generated filter programs (patterns over NP/PL/WL/TSS/TSU and globals, actions updating globals and filter-local variables, several filters, action-less and pattern-less "
        "filters, with/without an end filter), with and without -s; compared with FilterSpec (Lean): which packets are written, in which order and how often, that the output "
        "global header equals the input's, what the program prints (stdout under -s, stderr otherwise) incl. NP in the end filter; plus fixed programs with a filter that fails at run time "
        "on packet k (in an action and in a pattern; on the first packet; after action-less filters that already selected the packet), judged against the stream-loop model of "
        "Props/C20.lean computed by the generator: the packets written before the failure stay written (incl. the failing packet's own earlier selections), nothing later runs, "
        "the end filter still runs once with NP = k; fixed programs with a filter whose RESULT is not a boolean on some packets (pop_filter_frame error, a bare `break`): the "
        "rest of that packet's filters are skipped, what was selected on it stays written, the stream goes on, `end` sees NP = number of packets — also followed by a real failure; "
        "programs whose `end` filter reads PL/WL/TSS/TSU are generated too (outside the specification: judged no-panic only); every case line carries what is needed to re-run it "
        "(profile, program text, input bytes, fixed expectation), so `./check --replay` works; byte level: stdout without -s is compared byte for byte with FilterOut.filterOutput (Lean, driver op `filterout`) applied to the input "
        "bytes and the selection read off the output — header, records, order and multiplicity as the model of Props/C20Bytes.lean has them — incl. streams cut inside their last record "
        "(the complete records are the packets; the reader stops silently); non-trivial = at least one packet selected or printed")
ASSUMPTIONS = ["packet *field* reads/assignments inside filters are covered by C15-C17; FilterSpec treats packets as their four pcap header numbers",
               "after a runtime error inside a filter, and for a filter whose result is not a boolean, FilterSpec is silent; both paths are judged on fixed programs against the stream loop of Props/C20.lean (Ans/pstep/onPacket/streamLoop), mirrored in stream_loop() below",
               "inside `end` only NP is specified; PL, WL, TSS, TSU there are whatever the implementation left (FilterSpec: unc)",
               "each packet's payload carries its index so that output records can be mapped back to input packets"]
BINARY_PROFILES = ["dev", "release"]
MAGIC_US, MAGIC_NS = 0xA1B2C3D4, 0xA1B23C4D


def hx(s):
    return s.encode("utf-8").hex()


# ---- everything needed to run a case is in its line (so that a replay file, which keeps only lines, can be re-run):
#   filter S=<0|1> P=<profile> SRC=<hex program text> D=<hex input bytes> [X=<hex json: fixed expectation>] K=<ts:us:cap:wire,…> @@ <ast>
# the Lean driver (FilterDrv.run) reads S=, K= and the ast and ignores the other tokens.
_INFO = {}


def make_line(skip, prof, src, data, k, ast, expect=None):
    x = f" X={json.dumps(expect, sort_keys=True).encode('utf-8').hex()}" if expect is not None else ""
    return f"filter S={1 if skip else 0} P={prof} SRC={hx(src)} D={data.hex() or '-'}{x} K={k} @@ {ast}"


def records_of(data):
    """the complete records of an input stream (what `next_packet` delivers), as byte strings"""
    recs, pos = [], 24
    while pos + 16 <= len(data):
        cap = struct.unpack("<I", data[pos + 8 : pos + 12])[0]
        if pos + 16 + cap > len(data):
            break
        recs.append(data[pos : pos + 16 + cap])
        pos += 16 + cap
    return recs


def info(c):
    """profile, program, input and fixed expectation of a case, from its line"""
    i = _INFO.get(c.line)
    if i is None:
        head = c.line.split(" @@ ")[0].split(" ")
        tok = {t.split("=", 1)[0]: t.split("=", 1)[1] for t in head if "=" in t}
        data = bytes.fromhex(tok.get("D", "").replace("-", ""))
        i = {"skip": tok.get("S") == "1", "prof": tok.get("P", "dev"), "src": bytes.fromhex(tok.get("SRC", "")).decode("utf-8"),
             "data": data, "hdr": data[:24], "recs": records_of(data)}
        if "X" in tok:
            i.update(json.loads(bytes.fromhex(tok["X"]).decode("utf-8")))
            i["fail"] = True
        _INFO[c.line] = i
    return i


def nontrivial(c):
    return c.impl.startswith("sel=") and not c.impl.startswith("sel= hdr=t out= err= ")


def classify(c):
    want = dict(t.split("=", 1) for t in c.spec.split(" ")[1:] if "=" in t)
    got = dict(t.split("=", 1) for t in c.impl.split(" ") if "=" in t)
    for k in ("hdr", "sel", "out", "err"):
        if want.get(k) != got.get(k):
            return "filter " + k
    return "filter"


def model_skip(c):
    return True


PATTERNS = ["NP < {a}", "NP % 2 == 0", "NP == {a}", "PL <= {b}", "PL > {b}", "WL != PL", "TSS >= {t}", "TSU < 500000", "NP > {a} && PL > {b}", "NP == {a} || WL > {b}",
            "true", "false", "cnt < {a}", "NP * 2 > cnt", "!(NP == {a})", "PL + WL > {c}"]
ACTIONS = ["cnt = cnt + 1;", "total = total + PL;", "let loc = NP * 2; cnt = cnt + loc;", "if PL > {b} {{ big = big + 1; }} else {{ cnt = cnt + 1; }}",
           "eprintln(\"p {{}} {{}}\", NP, PL);", "last = NP;", "let i = 0; while i < 2 {{ i = i + 1; total = total + i; }}"]


def program(rng, npk):
    lines = ["let cnt = 0;", "let total = 0;", "let big = 0;", "let last = 0;"]
    a, b, c, t = rng.randint(0, max(1, npk)), rng.choice([0, 1, 59, 60, 64, 100]), rng.randint(0, 300), 1_600_000_000 + rng.randint(0, 40)
    nf = rng.randint(1, 4)
    for _ in range(nf):
        pat = rng.choice(PATTERNS).format(a=a, b=b, c=c, t=t)
        r = rng.random()
        if r < 0.45:
            lines.append(f"@ {pat}")
        elif r < 0.85:
            lines.append(f"@ {pat} {{ {rng.choice(ACTIONS).format(a=a, b=b)} }}")
        else:
            lines.append(f"@ {{ {rng.choice(ACTIONS).format(a=a, b=b)} }}")
        if rng.random() < 0.2:
            lines.append(f"fn helper{len(lines)}(x) {{ x + 1 }}")
    r = rng.random()
    if r < 0.08:
        # `end` reading a packet variable: the statement fixes only NP there (the code leaves the last packet's TSS/TSU and
        # null in PL/WL) — FilterSpec is silent (unc), the case is judged no-panic only
        lines.append("@ end { eprintln(\"end {} {} {}\", NP, cnt, %s); }" % rng.choice(["TSS", "TSU", "PL", "WL", "TSS + TSU"]))
    elif r < 0.6:
        lines.append("@ end { eprintln(\"end {} {} {} {} {}\", NP, cnt, total, big, last); }")
    return "\n".join(lines) + "\n"


END_READS_PROGRAMS = [
    "let cnt = 0;\n@ PL >= 0 { cnt = cnt + 1; }\n@ NP == 2\n@ end { eprintln(\"end {} {} {} {}\", NP, cnt, TSS, TSU); }\n",
    "@ true\n@ end { eprintln(\"end {} {} {}\", NP, PL, WL); }\n",
]


def truncate(rng, hdr, pkts):
    """the stream cut inside its last record (1 … len-1 bytes of it are there): that record is not a packet"""
    *_, last = pkts[-1]
    body = b"".join(r for *_, r in pkts[:-1])
    return hdr, pkts[:-1], hdr + body + last[: rng.randint(1, len(last) - 1)]


def stream(rng):
    magic = rng.choice([MAGIC_US, MAGIC_NS])
    # small snaplens make caplen == snaplen (and min(cap, snaplen) below) ordinary: a capture taken with `-s 60`
    snaplen = rng.choice([65535, 65535, 262144, 1500, 4096, 60, 64, 100, 14])
    hdr = struct.pack("<IHHiIII", magic, rng.choice([2, 2, 3]), rng.choice([4, 4, 0]), rng.choice([0, 0, -3600]), rng.choice([0, 0, 6]), snaplen, rng.choice([1, 1, 101, 113]))
    n = rng.choice([0, 1, 2, 3, 5, 8, 13, 40])
    pkts, body = [], b""
    for i in range(n):
        cap = rng.choice([0, 1, 14, 59, 60, 64, 100, 300])
        cap = min(cap, snaplen)
        wire = cap + rng.choice([0, 0, 4, 100])
        ts, tu = 1_600_000_000 + i, rng.randint(0, 999_999)
        payload = (struct.pack(">I", i + 1) * (cap // 4 + 1))[:cap]
        rec = struct.pack("<IIII", ts, tu, cap, wire) + payload
        pkts.append((ts, tu, cap, wire, rec))
        body += rec
    return hdr, pkts, hdr + body


LONG_PROGRAMS = [
    # filters with locals over a long stream: every filter run must give its stack slots back
    "let cnt = 0;\nlet total = 0;\n@ true { let a1 = NP; let a2 = PL; let a3 = a1 + a2; total = total + a3; }\n@ NP % 500 == 0\n@ end { eprintln(\"end {} {}\", NP, total); }\n",
    "let cnt = 0;\n@ PL >= 0 { let a = 1; let b = 2; let c = 3; let d = a + b + c; cnt = cnt + d; }\n@ NP > 1498\n@ end { eprintln(\"end {} {}\", NP, cnt); }\n",
    "let cnt = 0;\n@ NP % 2 == 0 { cnt = cnt + 1; }\n@ NP % 700 == 1\n@ end { eprintln(\"end {} {}\", NP, cnt); }\n",
]


def long_stream(rng, n):
    hdr = struct.pack("<IHHiIII", MAGIC_US, 2, 4, 0, 0, 65535, 1)
    pkts, body = [], b""
    for i in range(n):
        cap = rng.choice([0, 4, 14])
        payload = (struct.pack(">I", i + 1) * 4)[:cap]
        rec = struct.pack("<IIII", 1_600_000_000 + i, i % 1000000, cap, cap) + payload
        pkts.append((1_600_000_000 + i, i % 1000000, cap, cap, rec))
        body += rec
    return hdr, pkts, hdr + body


# ---- the failing path: a runtime error in a filter stops the stream.  Each filter is given with its meaning
# (np, caplen) -> True (selects) / False / None (fails); `end` as a function of (NP seen by end, packets read without failure).
FAILING_PROGRAMS = [
    # the packet the failing action runs on has already been selected by the filter before it
    ("@ true\n@ NP == 3 { 1 / 0; }\n@ NP >= 2\n@ end { eprintln(\"end {}\", NP); }\n",
     [lambda np, pl: True, lambda np, pl: None if np == 3 else False, lambda np, pl: np >= 2], lambda npe: f"end {npe}\n"),
    # failure on the very first packet, before anything is selected; no end filter
    ("@ NP == 1 { 1 / 0; }\n@ true\n",
     [lambda np, pl: None if np == 1 else False, lambda np, pl: True], None),
    # a counting action, an action-less filter, then an index error on packet 4; one more action-less filter that must not run on it
    ("let c = 0;\n@ true { c = c + 1; }\n@ NP % 2 == 0\n@ NP == 4 { let x = [1]; x[5]; }\n@ true\n@ end { eprintln(\"end {} {}\", NP, c); }\n",
     [lambda np, pl: False, lambda np, pl: np % 2 == 0, lambda np, pl: None if np == 4 else False, lambda np, pl: True], lambda npe: f"end {npe} {npe}\n"),
    # the failure is in a pattern (division by zero when NP == 3)
    ("@ true\n@ 1 / (3 - NP) > 0\n@ true\n@ end { eprintln(\"end {}\", NP); }\n",
     [lambda np, pl: True, lambda np, pl: None if np == 3 else int(1 / (3 - np)) > 0, lambda np, pl: True], lambda npe: f"end {npe}\n"),
]


SKIP = "skipRest"

# ---- a filter whose RESULT is not a boolean: `pop_filter_frame` fails, the bare `break` leaves only the per-packet loop.
# Meaning of a filter: True / False / None (fails: `break 'out`) / SKIP (`Ans.skipRest`); `end` as a function of (NP, packets read).
NONBOOL_PROGRAMS = [
    # on packet 2 the second filter yields 7: packet 2 keeps the selection of the first filter, the third does not run on it, the stream goes on
    ("@ true\n@ if NP == 2 { 7 } else { false }\n@ true\n@ end { eprintln(\"end {}\", NP); }\n",
     [lambda np, pl: True, lambda np, pl: SKIP if np == 2 else False, lambda np, pl: True], lambda npe, n: f"end {npe}\n"),
    # every packet: nothing is ever selected, every packet is counted
    ("@ 5\n@ true\n@ end { eprintln(\"end {}\", NP); }\n",
     [lambda np, pl: SKIP, lambda np, pl: True], lambda npe, n: f"end {npe}\n"),
    # every other packet, a string; the state the actions keep shows which filters ran: the last action is skipped on packets 2, 4, 6
    ("let c = 0;\n@ true { c = c + 1; }\n@ if NP % 2 == 0 { \"s\" } else { true }\n@ NP > 2\n@ true { c = c + 10; }\n@ end { eprintln(\"end {} {}\", NP, c); }\n",
     [lambda np, pl: False, lambda np, pl: SKIP if np % 2 == 0 else True, lambda np, pl: np > 2, lambda np, pl: False],
     lambda npe, n: f"end {npe} {n + 10 * ((n + 1) // 2)}\n"),
    # both kinds in one run: null as a result on packet 2 (the stream goes on), a division by zero in an action on packet 4 (the stream stops)
    ("@ true\n@ if NP == 2 { null } else { false }\n@ NP == 4 { 1 / 0; }\n@ true\n@ end { eprintln(\"end {}\", NP); }\n",
     [lambda np, pl: True, lambda np, pl: SKIP if np == 2 else False, lambda np, pl: None if np == 4 else False, lambda np, pl: True],
     lambda npe, n: f"end {npe}\n"),
]


def stream_loop(filters, pkts):
    """streamLoop/onPacket/pstep of lean/P2sh/Props/C20.lean:
    (selected numbers in output order, NP for `end`, failed?, number of non-boolean results)"""
    sel, count, skips = [], 1, 0
    for (_, _, cap, _, _) in pkts:
        for f in filters:
            r = f(count, cap)
            if r is None:
                return sel, count, True, skips      # Ans.fail: what was selected so far stays; NP stays at this packet
            if r == SKIP:
                skips += 1                           # Ans.skipRest: the rest of this packet's filters do not run …
                break
            if r:
                sel.append(count)
        count += 1                                   # … and the stream goes on
    return sel, count - 1, False, skips


def failing_cases(ctx, asts_of):
    out = []
    items = []
    for src, filters, end in FAILING_PROGRAMS:
        hdr, pkts, data = long_stream(ctx.rng, 6)
        items.append((src, filters, (lambda npe, n, end=end: end(npe)) if end else None, hdr, pkts, data, "failing-filter"))
    for src, filters, end in NONBOOL_PROGRAMS:
        hdr, pkts, data = long_stream(ctx.rng, 6)
        items.append((src, filters, end, hdr, pkts, data, "nonboolean-result"))
    asts = asts_of([s for s, *_ in items])
    for src, filters, end, hdr, pkts, data, tag in items:
        sel, npe, failed, skips = stream_loop(filters, pkts)
        k = ",".join(f"{a}:{b}:{c}:{d}" for a, b, c, d, _ in pkts)
        expect = {"expect_sel": sel, "expect_rterrs": skips + (1 if failed else 0), "expect_nonbool": skips, "expect_end": end(npe, len(pkts)) if end else None}
        for prof in ("dev", "release"):
            out.append(Case(make_line(False, prof, src, data, k, asts.get(src, "(perr)"), expect), (tag, prof), extra={"src": src}))
    return out


def spec_override(c):
    e = info(c)
    if e.get("fail"):
        return "m sel=" + ",".join(map(str, e["expect_sel"])) + " hdr=t out="
    return c.spec


def judge(c):
    e = info(c)
    if not e.get("fail") or not c.impl.startswith("sel="):
        return True
    got = dict(t.split("=", 1) for t in c.impl.split(" ") if "=" in t)
    try:
        err = bytes.fromhex(got.get("err", "")).decode("utf-8", "replace")
    except ValueError:
        return False
    if err.count("Runtime error") != e["expect_rterrs"] or err.count("filter expression must evaluate to a boolean") != e["expect_nonbool"]:
        return False      # one message per non-boolean result (each ends one packet's filters), one for the failure that ends the stream
    end = e["expect_end"]
    if end is None:
        return "end " not in err
    return err.endswith(end) and err.count("end ") == 1      # the end filter ran exactly once, after the failure, with NP at the failing packet


def cases(ctx):
    rng = ctx.rng
    items = []
    for _ in range(ctx.scale(150, 8000)):
        hdr, pkts, data = stream(rng)
        cut = bool(pkts) and rng.random() < 0.12
        if cut:
            hdr, pkts, data = truncate(rng, hdr, pkts)
        src = program(rng, len(pkts))
        skip = rng.random() < 0.35
        items.append((src, hdr, pkts, data, skip, cut))
    for k, src in enumerate(LONG_PROGRAMS):
        hdr, pkts, data = long_stream(rng, 1500)
        items.append((src, hdr, pkts, data, k % 2 == 0, False))
    for k, src in enumerate(END_READS_PROGRAMS):
        hdr, pkts, data = long_stream(rng, 3)
        items.append((src, hdr, pkts, data, k % 2 == 1, False))
    asts = {}
    if ctx.harness:
        outs = run_parallel(ctx.harness, ["parse " + hx(s) for s, *_ in items], timeout=60)
        for (s, *_), o in zip(items, outs):
            i = o.find("(prog")
            asts[s] = o[i:] if (o.startswith("ast ") and " errs=0 " in o[:i]) else "(perr)"
    def asts_of(srcs):
        res = {}
        if ctx.harness:
            outs = run_parallel(ctx.harness, ["parse " + hx(s) for s in srcs], timeout=60)
            for s, o in zip(srcs, outs):
                i = o.find("(prog")
                res[s] = o[i:] if (o.startswith("ast ") and " errs=0 " in o[:i]) else "(perr)"
        return res
    out = failing_cases(ctx, asts_of)
    for src, hdr, pkts, data, skip, cut in items:
        k = ",".join(f"{a}:{b}:{c}:{d}" for a, b, c, d, _ in pkts)
        reads = any(v in src.split("@ end")[-1] for v in ("TSS", "TSU", "PL", "WL")) if "@ end" in src else False
        for prof in ("dev", "release"):
            out.append(Case(make_line(skip, prof, src, data, k, asts.get(src, "(perr)")),
                            ("skip-pcap" if skip else "pcap-out", prof) + (("truncated-input",) if cut else ()) + (("end-reads-packet-vars",) if reads else ()), extra={"src": src}))
    return out


def run_one(ctx, scratch, idx, c, raw=None):
    e = info(c)
    exe = ctx.p2sh.get(e["prof"])
    if not exe:
        return "NOHARNESS"
    path = os.path.join(scratch, f"f{idx}.p2")
    with open(path, "w", encoding="utf-8") as f:
        f.write(e["src"])
    try:
        p = subprocess.run([exe] + (["-s"] if e["skip"] else []) + [path], input=e["data"], stdout=subprocess.PIPE, stderr=subprocess.PIPE, timeout=30)
    except subprocess.TimeoutExpired:
        return "HANG"
    err = p.stderr.decode("utf-8", "replace")
    if "panicked" in err:
        return "PANIC"
    if p.returncode != 0:
        return f"ABORT({p.returncode})"
    if ("Runtime error" in err and not e.get("fail")) or "compile error" in err or "parse errors" in err:
        return "rterr-or-cerr " + hx(err[:80])
    out = p.stdout
    if e["skip"]:
        return f"sel= hdr=t out={out.hex()} err={hx(err)}"
    hdr = e["hdr"]
    hdr_ok = out[:24] == hdr
    recs = e["recs"]
    sel, pos, bad = [], 24, False
    while pos < len(out):
        if pos + 16 > len(out):
            bad = True
            break
        cap = struct.unpack("<I", out[pos + 8 : pos + 12])[0]
        rec = out[pos : pos + 16 + cap]
        pos += 16 + cap
        cands = [i + 1 for i, r in enumerate(recs) if r == rec]
        if not cands:
            bad = True
            break
        sel.append(cands[0])      # timestamps are unique per packet: exactly one candidate
    if bad:
        return f"sel=garbled hdr={'t' if hdr_ok else 'f'} out= err={hx(err)}"
    if raw is not None:
        raw[idx] = (e["data"].hex(), tuple(sel), out)
    return f"sel={','.join(map(str, sel))} hdr={'t' if hdr_ok else 'f'} out= err={hx(err)}"


def byte_level(ctx, raw, outs):
    """stdout of every pcap-writing run against FilterOut.filterOutput (lean/P2sh/Model/FilterOut.lean; theorems in
    Props/C20Bytes.lean) computed by the driver from the input bytes and the selection read off that stdout: the 24 header
    bytes, then exactly the selected records, in that order, that often, nothing else.  A difference replaces the
    selection token (so the case fails its verdict and is classified `filter sel`)."""
    if not getattr(ctx, "driver", None) or not raw:
        return outs
    keys = sorted({(d, s) for d, s, _ in raw.values()})
    lines = [f"filterout {d} {','.join(map(str, s)) if s else '-'}" for d, s in keys]
    model = {}
    for k, o in zip(keys, run_parallel(ctx.driver, lines, timeout=300, label="filterout")):
        m = o.split(" ## ")[0].strip()
        model[k] = b"" if m == "-" else (bytes.fromhex(m) if all(ch in "0123456789abcdef" for ch in m) and len(m) % 2 == 0 else None)
    for idx, (d, s, out) in raw.items():
        want = model.get((d, s))
        if want is None or want != out:
            tag = "no-model" if want is None else "bytes-differ"
            outs[idx] = f"sel={tag}:" + outs[idx][len("sel="):]
    return outs


def run_impl(ctx, cases):
    scratch = ctx.mkscratch()
    raw = {}
    with cf.ThreadPoolExecutor(max_workers=16) as ex:
        outs = list(ex.map(lambda ic: run_one(ctx, scratch, ic[0], ic[1], raw), enumerate(cases)))
    return byte_level(ctx, raw, outs)
