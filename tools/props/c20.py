"""C20 — filter mode emits exactly the selected packets with correct per-packet state."""
import concurrent.futures as cf
import os
import struct
import subprocess

from vlib import Case, run_parallel

RULE = ("end-to-end through the real binary (dev + release profiles): random pcap streams (0-40 packets, both magics, varied snaplen/linktype/version/thiszone/sigfigs) piped to "
        "generated filter programs (patterns over NP/PL/WL/TSS/TSU and globals, actions updating globals and filter-local variables, several filters, action-less and pattern-less "
        "filters, with/without an end filter), with and without -s; compared with FilterSpec (Lean): which packets are written, in which order and how often, that the output "
        "global header equals the input's, what the program prints (stdout under -s, stderr otherwise) incl. NP in the end filter; non-trivial = at least one packet selected or printed")
ASSUMPTIONS = ["packet *field* reads/assignments inside filters are covered by C15-C17; FilterSpec treats packets as their four pcap header numbers",
               "after a runtime error inside a filter the statement leaves the behaviour open (the oracle is silent)",
               "each packet's payload carries its index so that output records can be mapped back to input packets"]
BINARY_PROFILES = ["dev", "release"]
MAGIC_US, MAGIC_NS = 0xA1B2C3D4, 0xA1B23C4D


def hx(s):
    return s.encode("utf-8").hex()


def nontrivial(c):
    return c.impl.startswith("sel=") and not c.impl.startswith("sel= hdr=t out= err= ")


def classify(c):
    want = dict(t.split("=", 1) for t in c.spec.split(" ")[1:] if "=" in t)
    got = dict(t.split("=", 1) for t in c.impl.split(" ") if "=" in t)
    for k in ("hdr", "sel", "out", "err"):
        if want.get(k) != got.get(k):
            return "filter " + k
    return "filter"


def model_skip(c):
    return True


PATTERNS = ["NP < {a}", "NP % 2 == 0", "NP == {a}", "PL <= {b}", "PL > {b}", "WL != PL", "TSS >= {t}", "TSU < 500000", "NP > {a} && PL > {b}", "NP == {a} || WL > {b}",
            "true", "false", "cnt < {a}", "NP * 2 > cnt", "!(NP == {a})", "PL + WL > {c}"]
ACTIONS = ["cnt = cnt + 1;", "total = total + PL;", "let loc = NP * 2; cnt = cnt + loc;", "if PL > {b} {{ big = big + 1; }} else {{ cnt = cnt + 1; }}",
           "eprintln(\"p {{}} {{}}\", NP, PL);", "last = NP;", "let i = 0; while i < 2 {{ i = i + 1; total = total + i; }}"]


def program(rng, npk):
    lines = ["let cnt = 0;", "let total = 0;", "let big = 0;", "let last = 0;"]
    a, b, c, t = rng.randint(0, max(1, npk)), rng.choice([0, 1, 59, 60, 64, 100]), rng.randint(0, 300), 1_600_000_000 + rng.randint(0, 40)
    nf = rng.randint(1, 4)
    for _ in range(nf):
        pat = rng.choice(PATTERNS).format(a=a, b=b, c=c, t=t)
        r = rng.random()
        if r < 0.45:
            lines.append(f"@ {pat}")
        elif r < 0.85:
            lines.append(f"@ {pat} {{ {rng.choice(ACTIONS).format(a=a, b=b)} }}")
        else:
            lines.append(f"@ {{ {rng.choice(ACTIONS).format(a=a, b=b)} }}")
        if rng.random() < 0.2:
            lines.append(f"fn helper{len(lines)}(x) {{ x + 1 }}")
    if rng.random() < 0.6:
        lines.append("@ end { eprintln(\"end {} {} {} {} {}\", NP, cnt, total, big, last); }")
    return "\n".join(lines) + "\n"


def stream(rng):
    magic = rng.choice([MAGIC_US, MAGIC_NS])
    snaplen = rng.choice([65535, 65535, 262144, 1500, 4096])
    hdr = struct.pack("<IHHiIII", magic, rng.choice([2, 2, 3]), rng.choice([4, 4, 0]), rng.choice([0, 0, -3600]), rng.choice([0, 0, 6]), snaplen, rng.choice([1, 1, 101, 113]))
    n = rng.choice([0, 1, 2, 3, 5, 8, 13, 40])
    pkts, body = [], b""
    for i in range(n):
        cap = rng.choice([0, 1, 14, 59, 60, 64, 100, 300])
        cap = min(cap, snaplen)
        wire = cap + rng.choice([0, 0, 4, 100])
        ts, tu = 1_600_000_000 + i, rng.randint(0, 999_999)
        payload = (struct.pack(">I", i + 1) * (cap // 4 + 1))[:cap]
        rec = struct.pack("<IIII", ts, tu, cap, wire) + payload
        pkts.append((ts, tu, cap, wire, rec))
        body += rec
    return hdr, pkts, hdr + body


LONG_PROGRAMS = [
    # filters with locals over a long stream: every filter run must give its stack slots back
    "let cnt = 0;\nlet total = 0;\n@ true { let a1 = NP; let a2 = PL; let a3 = a1 + a2; total = total + a3; }\n@ NP % 500 == 0\n@ end { eprintln(\"end {} {}\", NP, total); }\n",
    "let cnt = 0;\n@ PL >= 0 { let a = 1; let b = 2; let c = 3; let d = a + b + c; cnt = cnt + d; }\n@ NP > 1498\n@ end { eprintln(\"end {} {}\", NP, cnt); }\n",
    "let cnt = 0;\n@ NP % 2 == 0 { cnt = cnt + 1; }\n@ NP % 700 == 1\n@ end { eprintln(\"end {} {}\", NP, cnt); }\n",
]


def long_stream(rng, n):
    hdr = struct.pack("<IHHiIII", MAGIC_US, 2, 4, 0, 0, 65535, 1)
    pkts, body = [], b""
    for i in range(n):
        cap = rng.choice([0, 4, 14])
        payload = (struct.pack(">I", i + 1) * 4)[:cap]
        rec = struct.pack("<IIII", 1_600_000_000 + i, i % 1000000, cap, cap) + payload
        pkts.append((1_600_000_000 + i, i % 1000000, cap, cap, rec))
        body += rec
    return hdr, pkts, hdr + body


def cases(ctx):
    rng = ctx.rng
    items = []
    for _ in range(ctx.scale(150, 8000)):
        hdr, pkts, data = stream(rng)
        src = program(rng, len(pkts))
        skip = rng.random() < 0.35
        items.append((src, hdr, pkts, data, skip))
    for k, src in enumerate(LONG_PROGRAMS):
        hdr, pkts, data = long_stream(rng, 1500)
        items.append((src, hdr, pkts, data, k % 2 == 0))
    asts = {}
    if ctx.harness:
        outs = run_parallel(ctx.harness, ["parse " + hx(s) for s, *_ in items], timeout=60)
        for (s, *_), o in zip(items, outs):
            i = o.find("(prog")
            asts[s] = o[i:] if (o.startswith("ast ") and " errs=0 " in o[:i]) else "(perr)"
    out = []
    for src, hdr, pkts, data, skip in items:
        k = ",".join(f"{a}:{b}:{c}:{d}" for a, b, c, d, _ in pkts)
        line = f"filter S={1 if skip else 0} K={k} @@ {asts.get(src, '(perr)')}"
        for prof in ("dev", "release"):
            out.append(Case(line, ("skip-pcap" if skip else "pcap-out", prof), extra={"src": src, "hdr": hdr.hex(), "data": data.hex(), "recs": [r.hex() for *_, r in pkts], "skip": skip, "prof": prof}))
    return out


def run_one(ctx, scratch, idx, c):
    e = c.extra
    exe = ctx.p2sh.get(e["prof"])
    if not exe:
        return "NOHARNESS"
    path = os.path.join(scratch, f"f{idx}.p2")
    with open(path, "w", encoding="utf-8") as f:
        f.write(e["src"])
    try:
        p = subprocess.run([exe] + (["-s"] if e["skip"] else []) + [path], input=bytes.fromhex(e["data"]), stdout=subprocess.PIPE, stderr=subprocess.PIPE, timeout=30)
    except subprocess.TimeoutExpired:
        return "HANG"
    err = p.stderr.decode("utf-8", "replace")
    if "panicked" in err:
        return "PANIC"
    if p.returncode != 0:
        return f"ABORT({p.returncode})"
    if "Runtime error" in err or "compile error" in err or "parse errors" in err:
        return "rterr-or-cerr " + hx(err[:80])
    out = p.stdout
    if e["skip"]:
        return f"sel= hdr=t out={out.hex()} err={hx(err)}"
    hdr = bytes.fromhex(e["hdr"])
    hdr_ok = out[:24] == hdr
    recs = [bytes.fromhex(r) for r in e["recs"]]
    sel, pos, bad = [], 24, False
    while pos < len(out):
        if pos + 16 > len(out):
            bad = True
            break
        cap = struct.unpack("<I", out[pos + 8 : pos + 12])[0]
        rec = out[pos : pos + 16 + cap]
        pos += 16 + cap
        cands = [i + 1 for i, r in enumerate(recs) if r == rec]
        if not cands:
            bad = True
            break
        sel.append(cands[0])      # timestamps are unique per packet: exactly one candidate
    if bad:
        return f"sel=garbled hdr={'t' if hdr_ok else 'f'} out= err={hx(err)}"
    return f"sel={','.join(map(str, sel))} hdr={'t' if hdr_ok else 'f'} out= err={hx(err)}"


def run_impl(ctx, cases):
    scratch = ctx.mkscratch()
    with cf.ThreadPoolExecutor(max_workers=16) as ex:
        return list(ex.map(lambda ic: run_one(ctx, scratch, ic[0], ic[1]), enumerate(cases)))
