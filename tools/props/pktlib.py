"""Shared by C15–C18: frame builders, access scripts, the judge for the `psteps` / `addr-*` verdicts of the Lean
driver (`P2sh/Driver/PktDrv.lean`), and the classifier that labels a failure with the key of a known finding.

Verdicts (second half of a driver line):
  psteps <alt> || <alt> … @@ <hints>     one alternative must match position-wise; an entry is
                                          `-` (unconstrained) · `!rterr` · `!obj` (not a layer object) · `alt:<a>|<b>|…` · literal text
  addr-std <bytes> | addr-bad | addr-any  op `addr`: accepted with this value (and its displayed text parses back to it) ·
                                          rejected · nothing demanded except the round trip of whatever was accepted
`hints` (one per step, from the model) say where the cached layer objects sit; they are used ONLY to name a failure.

A failure is described by *atoms* (`W:tcp-urgent-dropped`, `read:tcp.flags:whole-word`, …).  `classify` returns the
first atom that is not a known finding of the property (so anything new is reported), else the first atom.
All the defects these atoms were first written for are repaired in /repo (known_findings.json: status fixed), so today
every atom is reported as a violation; the named atoms only make the class of a regression readable.
"""
import re

import vlib
import wire
from vlib import Case

# ------------------------------------------------------------------ verdict language

def spec_override(c):
    c.extra = dict(c.extra or {})
    c.extra["spec"] = c.spec
    if c.spec.startswith(("psteps ", "addr-")):
        return "any"
    return c.spec


def parse_psteps(spec):
    body = spec[len("psteps "):]
    hints = []
    if " @@ " in body:
        body, h = body.rsplit(" @@ ", 1)
        hints = h.split(";")
    alts = [a.split(";") for a in body.split(" || ")]
    return alts, hints


def step_ok(want, got):
    if want == "-":
        return True
    if want == "!rterr":
        return not got.startswith(("rterr", "PANIC"))
    if want == "!obj":
        # "an X object if the type field says X": with another type field, whatever comes back is not a layer object
        return not got.startswith(("ok O:", "PANIC"))
    if want.startswith("alt:"):
        return got in want[4:].split("|")
    return want == got


def script_of(line):
    return line.split(" ")[2].split(";") if line.startswith("pkt ") else []


def relevant(step, focus):
    """focus: which positions a property judges (W = serialisations, G = reads, S = assignments)"""
    return step[0] in focus or (step[0] == "R" and "W" in focus)


def failing_positions(spec, out, steps, focus):
    """positions where `out` violates the best alternative: the one that agrees with `out` on most accept/refuse decisions
    of the assignments (that is what tells the alternatives apart), then the one `out` follows longest, then the one with
    the fewest violations; None = shape mismatch"""
    alts, hints = parse_psteps(spec)
    got = out.split(";")
    best = None
    for a in alts:
        if len(a) != len(got):
            continue
        bad = [i for i, (w, g) in enumerate(zip(a, got)) if relevant(steps[i], focus) and not step_ok(w, g)]
        rank = (sum(1 for i in bad if steps[i][0] == "S"), -(bad[0] if bad else len(got) + 1), len(bad))
        if best is None or rank < best[2]:
            best = (bad, a, rank)
    if best is None:
        return None, None, hints
    return best[0], best[1], hints


def addr_ok(spec, out):
    if spec == "addr-bad":
        return out == "reject"
    t = out.split(" ")
    if spec.startswith("addr-std "):
        want = spec.split(" ")[1]
        return len(t) == 4 and t[0] == "ok" and t[1] == want and t[3] == "rt=" + want
    if spec == "addr-any":
        return out == "reject" or (len(t) == 4 and t[0] == "ok" and t[3] == "rt=" + t[1])
    return True


def satisfied(line, spec, out, focus):
    if spec.startswith("addr-"):
        return addr_ok(spec, out)
    if not spec.startswith("psteps "):
        return True
    steps = script_of(line)
    bad, _, _ = failing_positions(spec, out, steps, focus)
    return bad is not None and not bad


# ------------------------------------------------------------------ atoms

def _hint_chain(h):
    """'packet@0>eth@0>ipv4/ihl=6@14>tcp/doff=5@38' -> [(kind, {attrs}, start)]"""
    out = []
    for part in h.split(">"):
        if "@" not in part:
            continue
        k, s = part.rsplit("@", 1)
        attrs = {}
        if "/" in k:
            k, a = k.split("/", 1)
            for kv in a.split(","):
                x, y = kv.split("=")
                attrs[x] = int(y)
        out.append((k, attrs, int(s)))
    return out


def explain_write(exp, act, chain, sets=()):
    """Name the way the serialised bytes `act` differ from the expected bytes `exp` when the difference is one of the
    serialisation defects p2sh had before commits aefd4e7 / d83dd30 / 3d62d14 / 3aaa561 (so that a regression is reported
    under a telling class): replay how each cached layer of `chain` would write itself with such a defect.
    Returns the set of atoms, or None."""
    exp = bytes.fromhex(exp)
    act = bytes.fromhex(act)
    if len(exp) < 16 or not chain or chain[0][0] != "packet":
        return None
    frame = exp[16:]
    fixed = {"eth": 14, "vlan": 4, "ipv4": 20, "ipv6": 40, "tcp": 20, "udp": 8}
    setk = {(k, p) for k, p in sets}
    # every subset of the old defects that the layers of the chain could exhibit
    cands = []
    for kind, attrs, start in chain[1:]:
        if kind == "tcp":
            cands.append("W:tcp-urgent-dropped")
        if kind == "ipv4" and attrs.get("off", start + 20) != start + 20:
            cands.append("W:ipv4-options-dropped")
        if kind == "err" and start < len(frame):
            cands.append("W:error-object-swallows-rest")
    for mask in range(1, 1 << len(cands)):
        on = {c for i, c in enumerate(cands) if mask >> i & 1}
        out = bytearray(exp[:16])
        loose = {}
        done = False
        for i, (kind, attrs, start) in enumerate(chain[1:], 1):
            if kind == "err":
                if "W:error-object-swallows-rest" not in on:
                    out += frame[start:]
                done = True
                break
            if kind not in fixed:
                out = None
                break
            pay = attrs.get("off", start + fixed[kind])
            if kind == "tcp" and setk & {("tcp", "dataoff"), ("tcp", "len"), ("tcp", "flags")}:
                loose[len(out) + 12] = "W:tcp-dataoff-and-flags-share-one-word"
            if kind == "ipv6" and ("ipv6", "flowlabel") in setk:
                loose[len(out) + 1] = "W:ipv6-flowlabel-spills-into-trafficclass"
            if kind == "tcp" and "W:tcp-urgent-dropped" in on:
                out += frame[start:start + 18] + frame[start + 20:pay]
            elif kind == "ipv4" and "W:ipv4-options-dropped" in on:
                out += frame[start:start + 20]
            else:
                out += frame[start:pay]
            if i == len(chain) - 1 or kind in ("tcp", "udp"):
                out += frame[pay:]
                done = True
                break
        if out is None or not done or len(out) != len(act):
            continue
        atoms = set(on)
        ok = True
        for j, (x, y) in enumerate(zip(out, act)):
            if x != y:
                if j not in loose:
                    ok = False
                    break
                atoms.add(loose[j])
        if ok:
            return atoms
    # no structural defect: only the bytes a setter may fail to write back
    return None


def _split_hint(h):
    """'<loc>|<chain>' -> (loc chain (0/1 element), cache chain)"""
    loc, _, chain = h.partition("|")
    return _hint_chain(loc), _hint_chain(chain)


def poisoned(chain, dispatch):
    """the cached objects are not the layers the type fields select (a named getter parsed something else earlier)"""
    want = dispatch.split(">")
    for i, (kind, _, start) in enumerate(chain):
        if i >= len(want):
            return True
        w = want[i]
        if w == "free":
            return False
        if w == "null":
            return True
        if w.startswith("err:"):
            # a truncated layer: the error object, or the layer object itself when the code accepts the truncated header
            if not (kind == "err" and w.endswith(f"@{start}") or w == f"err:{kind}@{start}"):
                return True
            continue
        if w != f"{kind}@{start}":
            return True
    return False


def _ival(tok):
    m = re.fullmatch(r"ok i:(-?\d+)", tok)
    return int(m.group(1)) if m else None


def _frame_bytes(line):
    tok = line.split(" ")[1]
    if tok == "-":
        return b""
    return bytes.fromhex(tok.rsplit(".", 1)[-1])


def _alts(want):
    return want[4:].split("|") if want.startswith("alt:") else [want]


def _addr_atoms(line, spec, out):
    kind = line.split(" ")[1]
    text = bytes.fromhex(line.split(" ")[2]).decode("utf-8", "replace")
    return [_addr_atom(kind, text, spec.split(" ")[0], out)]


def _addr_atom(kind, text, verdict, out):
    """verdict: addr-std / addr-bad / addr-any; out: implementation result (`reject…`/`rterr` = refused)"""
    refused = out.startswith(("reject", "rterr"))
    if verdict == "addr-std" and refused:
        if kind == "v6" and (text.startswith("::") or text.endswith("::")):
            return "addr:v6:leading-or-trailing-compression-rejected"
        return f"addr:{kind}:standard-form-rejected"
    if verdict == "addr-bad" and not refused:
        if kind == "v6" and text == "":
            return "addr:v6:empty-text-read-as-all-zero"
        if kind == "v6" and "::" not in text and (text.startswith(":") or text.endswith(":")):
            return "addr:v6:lone-colon-at-an-end-read-as-compression"
        return f"addr:{kind}:malformed-accepted"
    if verdict == "addr-std":
        return f"addr:{kind}:wrong-value"
    return f"addr:{kind}:display-does-not-parse-back"


ADDR_KIND = {("eth", "src"): "mac", ("eth", "dst"): "mac", ("ipv4", "src"): "v4", ("ipv4", "dst"): "v4", ("ipv6", "src"): "v6", ("ipv6", "dst"): "v6"}


def atoms_of(line, spec, out, focus):
    """atoms describing how `out` fails `spec` (empty list = satisfied)"""
    if spec.startswith("addr-"):
        return [] if addr_ok(spec, out) else _addr_atoms(line, spec, out)
    if not spec.startswith("psteps "):
        return []
    steps = script_of(line)
    bad, alt, hints = failing_positions(spec, out, steps, focus)
    if bad is None:
        return ["shape:step-count"]
    if not bad:
        return []
    got = out.split(";")
    frame = _frame_bytes(line)
    atoms = []
    reparse_broken = False      # an R wrote bytes that differ from the expected ones: later reads see another packet
    reparsed = False
    sets = []                   # targets assigned so far: (kind, prop)
    broken = set()              # targets whose assignment itself went wrong: what follows on them is a consequence
    dispatch = hints[len(steps)] if len(hints) > len(steps) else "free"
    for i, st in enumerate(steps):
        loc, chain = _split_hint(hints[i] if i < len(hints) else "|")
        if st[0] == "S":
            sets.append(((loc[0][0] if loc else "?"), st[1:].split("=", 1)[0].split(".")[-1]))
        if st == "R":
            reparsed = True
        if i not in bad:
            continue
        want, g = alt[i], got[i]
        if st[0] in "WR":
            if broken:
                if st == "R":
                    reparse_broken = True
                continue
            ex = None
            if want.startswith("ok ") and g.startswith("ok "):
                ex = explain_write(want[3:], g[3:], chain, sets)
            if st == "R":
                reparse_broken = True
            atoms.extend(sorted(ex) if ex else ["W:unexplained"])
            continue
        path = st[1:].split("=", 1)[0].split(".")
        prop = path[-1]
        kind, attrs, start = loc[0] if loc else ("?", {}, 0)
        if reparse_broken:
            continue            # a consequence of the serialisation failure already reported at the R step
        if st[0] == "G":
            if (kind, prop) in broken:
                continue
            if not sets and not reparsed and poisoned(chain, dispatch):
                a = "read:layer:cached-inner-of-another-kind"
            elif g == "PANIC":
                a = "read:ipv4:options-beyond-capture-panic" if (prop == "ipv4" or path[0].startswith("$")) and want == "ok E:packet" else f"read:{kind}.{prop}:panic"
            elif g.startswith("rterr") and "vlan" in path and path[path.index("vlan") + 1: path.index("vlan") + 2] == ["ipv6"]:
                a = "read:vlan.ipv6:no-such-property"
            elif g.startswith("rterr") and path[0].startswith("$") and ">vlan@" in ">" + dispatch and ">ipv6@" in dispatch.replace("err:", ""):
                a = "read:vlan.ipv6:no-such-property"
            elif kind == "tcp" and prop == "flags" and _ival(g) is not None and any(_ival(w) is not None and _ival(w) % 256 == _ival(g) % 256 for w in _alts(want)):
                a = "read:tcp.flags:whole-word"
            elif kind == "tcp" and prop == "payload" and not reparsed and g == "ok " + wire.a(*[wire.b(x) for x in frame[start + 20:]]):
                a = "read:tcp.payload:offset-fixed-at-20"
            elif want == "ok E:packet" and g == "ok O:tcp":
                a = "read:tcp:options-beyond-capture-accepted"
            elif (kind, prop) in sets or (kind == "tcp" and prop in ("dataoff", "len") and {("tcp", "dataoff"), ("tcp", "len")} & set(sets)):
                a = f"set:{kind}.{prop}" + (":lost-after-reparse" if reparsed else ":read-back")
            else:
                a = f"read:{kind}.{prop}" + (":after-reparse" if reparsed else "")
        else:
            k, p = sets[-1]
            val = st.split("=", 1)[1]
            a = None
            if g.startswith("rterr") and "vlan" in path and path[path.index("vlan") + 1: path.index("vlan") + 2] == ["ipv6"]:
                a = "read:vlan.ipv6:no-such-property"
            if (k, p) in ADDR_KIND and val.startswith("s:"):
                text = bytes.fromhex(val[2:]).decode("utf-8", "replace")
                if want == "!rterr" and g.startswith("rterr"):
                    a = "set:" + _addr_atom(ADDR_KIND[(k, p)], text, "addr-std", g)
                elif want == "rterr" and not g.startswith("rterr"):
                    a = "set:" + _addr_atom(ADDR_KIND[(k, p)], text, "addr-bad", g)
            if a is None:
                if want == "!rterr":
                    a = f"set:{k}.{p}:rejected"
                elif want == "rterr":
                    a = f"set:{k}.{p}:accepted-invalid"
                else:
                    a = f"set:{k}.{p}"
            broken.add((k, p))
        atoms.append(a)
    seen, res = set(), []
    for a in atoms:
        if a not in seen:
            seen.add(a)
            res.append(a)
    return res


def make_hooks(prop, focus):
    """spec_override / judge / classify for one property"""
    known_cache = {}

    def known():
        if "k" not in known_cache:
            known_cache["k"] = {k["key"] for k in vlib.load_known() if k.get("property") == prop and k.get("status") == "known"}
        return known_cache["k"]

    def spec(c):
        return (c.extra or {}).get("spec", c.spec)

    def judge(c):
        return satisfied(c.line, spec(c), c.impl, focus)

    def classify(c):
        atoms = atoms_of(c.line, spec(c), c.impl, focus)
        if not atoms:
            return None
        for a in atoms:
            if a not in known():
                return a
        return atoms[0]

    return spec_override, judge, classify


canon = wire.canon_rterr

# ------------------------------------------------------------------ witnesses

def witness_cases(prop):
    """the witness line of every finding of the property, repaired ones included (they are the regression inputs):
    exercised on every run, whatever the generators draw"""
    return [Case(k["witness"], ("witness", k["key"])) for k in vlib.load_known()
            if k.get("property") == prop and k.get("status") in ("known", "fixed") and k.get("witness", "").startswith(("pkt ", "addr "))]


def with_witnesses(ctx, cases):
    return witness_cases(ctx.prop) + list(cases)


# ------------------------------------------------------------------ frames

def rb(rng, n):
    return bytes(rng.getrandbits(8) for _ in range(n))


class L:
    """one layer of a frame under construction"""

    def __init__(self, kind, **kw):
        self.kind = kind
        self.kw = kw


def build(layers, rng, payload=None):
    """bytes of the frame made of `layers` (outermost first) with random field contents; type fields are set so that
    dispatch follows the list"""
    ET = {"vlan": 0x8100, "ipv4": 0x0800, "ipv6": 0x86DD}
    PR = {"tcp": 6, "udp": 17, "ipv6": 41}
    if payload is None:
        payload = rb(rng, rng.choice([0, 1, 4, 11, 26]))
    body = payload
    nxt = None
    for lay in reversed(layers):
        k, kw = lay.kind, lay.kw
        if k == "eth":
            et = kw.get("etype", ET.get(nxt, 0x0806 if nxt is None else 0x88B5))
            h = rb(rng, 12) + et.to_bytes(2, "big")
        elif k == "vlan":
            et = kw.get("etype", ET.get(nxt, 0x0806))
            h = rb(rng, 2) + et.to_bytes(2, "big")
        elif k == "ipv4":
            ihl = kw.get("ihl", 5)
            optlen = kw.get("optlen", max(0, ihl * 4 - 20))
            proto = kw.get("proto", PR.get(nxt, 1))
            totlen = kw.get("totlen", min(65535, 20 + optlen + len(body)))
            h = bytes([(kw.get("version", 4) << 4) | ihl, rng.getrandbits(8)]) + totlen.to_bytes(2, "big") + rb(rng, 5) + bytes([proto]) + rb(rng, 10) + rb(rng, optlen)
        elif k == "ipv6":
            nh = kw.get("nh", PR.get(nxt, 59) if nxt != "ipv6" else 41)
            plen = kw.get("plen", min(65535, len(body)))
            h = bytes([0x60 | rng.getrandbits(4)]) + rb(rng, 3) + plen.to_bytes(2, "big") + bytes([nh]) + rb(rng, 33)
        elif k == "tcp":
            doff = kw.get("doff", 5)
            optlen = kw.get("optlen", max(0, doff * 4 - 20))
            h = rb(rng, 12) + bytes([(doff << 4) | rng.getrandbits(4)]) + rb(rng, 7) + rb(rng, optlen)
        elif k == "udp":
            ln = kw.get("len", min(65535, 8 + len(body)))
            h = rb(rng, 4) + ln.to_bytes(2, "big") + rb(rng, 2)
        elif k == "raw":
            h = rb(rng, kw.get("n", 20))
        else:
            raise ValueError(k)
        body = h + body
        nxt = k if k != "raw" else None
    return body


def starts(layers, frame):
    """start offset of each layer, following the lengths the headers announce"""
    out = []
    off = 0
    for lay in layers:
        out.append((lay.kind, off))
        k = lay.kind
        if k == "eth":
            off += 14
        elif k == "vlan":
            off += 4
        elif k == "ipv4":
            off += 4 * (frame[off] & 15) if off < len(frame) else 20
        elif k == "ipv6":
            off += 40
        elif k == "tcp":
            off += 4 * (frame[off + 12] >> 4) if off + 12 < len(frame) else 20
        elif k == "udp":
            off += 8
        else:
            off += lay.kw.get("n", 20)
    return out


PROPS = {
    "packet": ["sec", "usec", "nsec", "caplen", "wirelen", "payload", "eth"],
    "eth": ["src", "dst", "type", "payload", "vlan", "ipv4", "ipv6"],
    "vlan": ["id", "priority", "dei", "type", "payload", "vlan", "ipv4"],
    "ipv4": ["version", "ihl", "totlen", "id", "dscp", "ecn", "flags", "fragoff", "ttl", "proto", "checksum", "src", "dst", "payload", "tcp", "udp", "ipv6"],
    "ipv6": ["version", "trafficclass", "flowlabel", "len", "nextheader", "hoplimit", "src", "dst", "payload", "tcp", "udp"],
    "tcp": ["srcport", "dstport", "seq", "ack", "dataoff", "len", "flags", "winsize", "checksum", "urgent", "payload"],
    "udp": ["srcport", "dstport", "len", "checksum", "payload"],
}
LAYER_PROPS = ["eth", "vlan", "ipv4", "ipv6", "tcp", "udp"]
ALL_NAMES = sorted({p for ps in PROPS.values() for p in ps} | {"magic", "major", "minor", "thiszone", "sigfigs", "snaplen", "linktype"})

# writable scalar fields: (layer, prop, width, kind)
WRITABLE = [
    ("packet", "sec", 32, "int"), ("packet", "usec", 32, "int"), ("packet", "caplen", 32, "int"), ("packet", "wirelen", 32, "int"),
    ("eth", "src", 48, "mac"), ("eth", "dst", 48, "mac"), ("eth", "type", 16, "int"),
    ("vlan", "priority", 3, "int"), ("vlan", "dei", 1, "bool"), ("vlan", "id", 12, "int"), ("vlan", "type", 16, "int"),
    ("ipv4", "ihl", 4, "int"), ("ipv4", "dscp", 6, "int"), ("ipv4", "ecn", 2, "int"), ("ipv4", "totlen", 16, "int"), ("ipv4", "id", 16, "int"),
    ("ipv4", "flags", 3, "int"), ("ipv4", "fragoff", 13, "int"), ("ipv4", "ttl", 8, "int"), ("ipv4", "proto", 8, "int"), ("ipv4", "checksum", 16, "int"),
    ("ipv4", "src", 32, "v4"), ("ipv4", "dst", 32, "v4"),
    ("ipv6", "trafficclass", 8, "int"), ("ipv6", "flowlabel", 20, "int"), ("ipv6", "len", 16, "int"), ("ipv6", "nextheader", 8, "int"), ("ipv6", "hoplimit", 8, "int"),
    ("ipv6", "src", 128, "v6"), ("ipv6", "dst", 128, "v6"),
    ("tcp", "srcport", 16, "int"), ("tcp", "dstport", 16, "int"), ("tcp", "seq", 32, "int"), ("tcp", "ack", 32, "int"), ("tcp", "dataoff", 4, "int"),
    ("tcp", "len", 4, "int"), ("tcp", "flags", 8, "int"), ("tcp", "winsize", 16, "int"), ("tcp", "checksum", 16, "int"), ("tcp", "urgent", 16, "int"),
    ("udp", "srcport", 16, "int"), ("udp", "dstport", 16, "int"), ("udp", "len", 16, "int"), ("udp", "checksum", 16, "int"),
]
# readable numeric fields with their bit position: (layer, prop, bit offset, width)
FIELDS = [
    ("eth", "type", 96, 16),
    ("vlan", "priority", 0, 3), ("vlan", "dei", 3, 1), ("vlan", "id", 4, 12), ("vlan", "type", 16, 16),
    ("ipv4", "version", 0, 4), ("ipv4", "ihl", 4, 4), ("ipv4", "dscp", 8, 6), ("ipv4", "ecn", 14, 2), ("ipv4", "totlen", 16, 16), ("ipv4", "id", 32, 16),
    ("ipv4", "flags", 48, 3), ("ipv4", "fragoff", 51, 13), ("ipv4", "ttl", 64, 8), ("ipv4", "proto", 72, 8), ("ipv4", "checksum", 80, 16),
    ("ipv6", "version", 0, 4), ("ipv6", "trafficclass", 4, 8), ("ipv6", "flowlabel", 12, 20), ("ipv6", "len", 32, 16), ("ipv6", "nextheader", 48, 8), ("ipv6", "hoplimit", 56, 8),
    ("tcp", "srcport", 0, 16), ("tcp", "dstport", 16, 16), ("tcp", "seq", 32, 32), ("tcp", "ack", 64, 32), ("tcp", "dataoff", 96, 4), ("tcp", "flags", 104, 8),
    ("tcp", "winsize", 112, 16), ("tcp", "checksum", 128, 16), ("tcp", "urgent", 144, 16),
    ("udp", "srcport", 0, 16), ("udp", "dstport", 16, 16), ("udp", "len", 32, 16), ("udp", "checksum", 48, 16),
]

# frame shapes: name -> list of layers
def shapes():
    s = {
        "eth-arp": [L("eth", etype=0x0806), L("raw", n=28)],
        "eth-ipv4-tcp": [L("eth"), L("ipv4"), L("tcp")],
        "eth-ipv4-udp": [L("eth"), L("ipv4"), L("udp")],
        "eth-ipv4-icmp": [L("eth"), L("ipv4", proto=1), L("raw", n=8)],
        "eth-ipv6-tcp": [L("eth"), L("ipv6"), L("tcp")],
        "eth-ipv6-udp": [L("eth"), L("ipv6"), L("udp")],
        "eth-ipv6-icmp6": [L("eth"), L("ipv6", nh=58), L("raw", n=8)],
        "eth-vlan-ipv4-udp": [L("eth"), L("vlan"), L("ipv4"), L("udp")],
        "eth-vlan-ipv4-tcp": [L("eth"), L("vlan"), L("ipv4"), L("tcp")],
        "eth-vlan-vlan-ipv4-udp": [L("eth"), L("vlan"), L("vlan"), L("ipv4"), L("udp")],
        "eth-vlan-vlan-vlan-ipv4-tcp": [L("eth"), L("vlan"), L("vlan"), L("vlan"), L("ipv4"), L("tcp")],
        "eth-vlan-ipv6-udp": [L("eth"), L("vlan"), L("ipv6"), L("udp")],
        "eth-vlan-arp": [L("eth"), L("vlan", etype=0x0806), L("raw", n=28)],
        "eth-ipv4-ipv6-udp": [L("eth"), L("ipv4"), L("ipv6"), L("udp")],
        "eth-ipv4-ipv6-tcp": [L("eth"), L("ipv4"), L("ipv6"), L("tcp")],
        "eth-qinq9100": [L("eth", etype=0x9100), L("raw", n=30)],
    }
    for ihl in range(16):
        s[f"eth-ipv4(ihl={ihl})-udp"] = [L("eth"), L("ipv4", ihl=ihl), L("udp")]
        if ihl in (0, 4, 6, 15):
            s[f"eth-ipv4(ihl={ihl})-tcp"] = [L("eth"), L("ipv4", ihl=ihl), L("tcp")]
    for doff in range(16):
        s[f"eth-ipv4-tcp(doff={doff})"] = [L("eth"), L("ipv4"), L("tcp", doff=doff)]
        if doff in (0, 6, 15):
            s[f"eth-ipv6-tcp(doff={doff})"] = [L("eth"), L("ipv6"), L("tcp", doff=doff)]
    # length fields that disagree with the captured bytes (padding / trailers, short or oversized announcements)
    for ln in (0, 7, 8, 9, 12, 65535):
        s[f"eth-ipv4-udp(len={ln})"] = [L("eth"), L("ipv4"), L("udp", len=ln)]
    s["eth-ipv6-udp(len=8)"] = [L("eth"), L("ipv6"), L("udp", len=8)]
    s["eth-vlan-ipv4-udp(len=9)"] = [L("eth"), L("vlan"), L("ipv4"), L("udp", len=9)]
    for tl in (0, 19, 20, 28, 30, 65535):
        s[f"eth-ipv4(totlen={tl})-udp"] = [L("eth"), L("ipv4", totlen=tl), L("udp")]
    for tl in (20, 40, 65535):
        s[f"eth-ipv4(totlen={tl})-tcp"] = [L("eth"), L("ipv4", totlen=tl), L("tcp")]
    for pl in (0, 8, 21, 65535):
        s[f"eth-ipv6(plen={pl})-tcp"] = [L("eth"), L("ipv6", plen=pl), L("tcp")]
    s["eth-ipv6(plen=3)-udp"] = [L("eth"), L("ipv6", plen=3), L("udp")]
    return s


def with_trailer(frame, rng):
    """the frame followed by bytes no length field accounts for (Ethernet padding, a trailer)"""
    return frame + rb(rng, rng.choice([1, 2, 6, 18, 22]))


def path_of(layers, upto=None):
    """named path to layer index `upto` (default: innermost non-raw layer)"""
    names = [l.kind for l in layers if l.kind != "raw"]
    if upto is not None:
        names = names[:upto + 1]
    return names


def full_read_script(layers):
    """every property of every layer along the dispatch path, then W"""
    steps = []
    names = path_of(layers)
    for p in PROPS["packet"]:
        if p != "eth":
            steps.append("G" + p)
    for i, k in enumerate(names):
        base = ".".join(names[: i + 1])
        steps.append("G" + base)
        for p in PROPS[k]:
            if p not in LAYER_PROPS:
                steps.append(f"G{base}.{p}")
    steps.append("W")
    return steps


def dollar_script():
    return [f"G${n}" for n in range(12)] + ["W"]


def random_read_script(rng, layers, n=8):
    """random reads, names may disagree with the type fields"""
    steps = []
    for _ in range(rng.randint(1, n)):
        r = rng.random()
        if r < 0.25:
            path = [f"${rng.randint(0, 11)}"]
        else:
            path = []
            cur = "packet"
            depth = rng.randint(1, 6)
            for _ in range(depth):
                opts = [p for p in PROPS[cur] if p in LAYER_PROPS]
                if not opts:
                    break
                # mostly the right name
                p = rng.choice(opts)
                path.append(p)
                cur = p
        if rng.random() < 0.6:
            last = path[-1]
            kind = last if last in PROPS else None
            path.append(rng.choice(PROPS[kind]) if kind else rng.choice(ALL_NAMES))
        steps.append("G" + ".".join(path))
        if rng.random() < 0.15:
            steps.append("W")
    steps.append("W")
    return steps


def frame_tok(frame, hdr=None):
    if hdr is None:
        return frame.hex() if frame else "-"
    return ".".join(str(x) for x in hdr) + "." + frame.hex()


def pkt_line(frame, steps, hdr=None):
    return f"pkt {frame_tok(frame, hdr)} " + ";".join(steps)


def set_bits(frame, bit_off, width, value):
    n = int.from_bytes(frame, "big")
    total = len(frame) * 8
    shift = total - bit_off - width
    mask = ((1 << width) - 1) << shift
    n = (n & ~mask) | ((value & ((1 << width) - 1)) << shift)
    return n.to_bytes(len(frame), "big")
