"""C05 — conditionals, match and loops follow their documented control flow."""
import itertools

import gen_lang
from props import c02
from vlib import Case, lang_lines, vmrun_lines

RULE = ("op `eval`: (1) exhaustive scrutinee x pattern tables over small integer/char/byte/string/bool domains incl. range boundaries (a..b excludes b, a..=b includes it), "
        "first-matching-arm and no-arm-matches-null cases, every pair of pattern kinds for the rejection rule; (2) if/else-if/else chains over the truthiness representatives; "
        "(3) generated nestings of if/match/labelled loops with every break/continue target; oracle = P2sh.Ref / P2sh.Static; non-trivial = oracle-constrained outcome")
ASSUMPTIONS = c02.ASSUMPTIONS + ["a scrutinee of a different kind than a *range* pattern is left unconstrained (statement: 'containing it'); under an equality pattern both sides agree on 'no match'"]
HARNESS_TIMEOUT = 20
canon = c02.canon
nontrivial = c02.nontrivial
classify = c02.classify
model_skip = c02.model_skip


def lit(kind, v):
    if kind == "int":
        return str(v)
    if kind == "char":
        return "'" + v + "'"
    if kind == "byte":
        return "b'" + v + "'"
    if kind == "str":
        return '"' + v + '"'
    if kind == "bool":
        return "true" if v else "false"
    return "null"


DOMS = {
    "int": list(range(-2, 7)),
    "char": list("abcdef"),
    "byte": list("abcdef"),
    "str": ["", "a", "b", "ab", "bé"],
    "bool": [True, False],
}


def scrut(kind, v):
    if kind == "int" and v < 0:
        return f"({v})"
    return lit(kind, v)


def pat_lit(kind, v):
    if kind == "int" and v < 0:
        return None  # negative literals are not patterns
    return lit(kind, v)


def table_programs(ctx):
    out = []
    for kind, dom in DOMS.items():
        pats = []
        for v in dom:
            p = pat_lit(kind, v)
            if p:
                pats.append(p)
        if kind != "bool":
            pos = [v for v in dom if pat_lit(kind, v)]
            for a, b in itertools.product(pos, pos):
                if kind == "str" and (a == "" or b == ""):
                    pass
                pats.append(f"{pat_lit(kind, a)}..{pat_lit(kind, b)}")
                pats.append(f"{pat_lit(kind, a)}..={pat_lit(kind, b)}")
        # one program per pattern: every scrutinee of the domain against it, with and without default
        for p in pats:
            body = ["let obs = [];"]
            for v in dom:
                body.append(f"push(obs, match {scrut(kind, v)} {{ {p} => 1 }});")
                body.append(f"push(obs, match {scrut(kind, v)} {{ {p} => 1, _ => 2 }});")
            body.append("0")
            out.append(("table", "\n".join(body) + "\n"))
        # first matching arm wins / alternatives
        for p1, p2 in itertools.islice(itertools.product(pats, pats), 0, None, max(1, len(pats) * len(pats) // ctx.scale(150, 3000))):
            body = ["let obs = [];"]
            for v in dom:
                body.append(f"push(obs, match {scrut(kind, v)} {{ {p1} => 1, {p2} => 2 }});")
                body.append(f"push(obs, match {scrut(kind, v)} {{ {p1} | {p2} => 3, _ => 4 }});")
            body.append("0")
            out.append(("two-arms", "\n".join(body) + "\n"))
    # null / other-kind scrutinee under equality patterns
    for kind in DOMS:
        p = pat_lit(kind, DOMS[kind][-1] if kind != "int" else 3)
        out.append(("cross-kind", f"let obs = [];\npush(obs, match null {{ {p} => 1 }});\npush(obs, match [1] {{ {p} => 1, _ => 2 }});\n0\n"))
    # rejection rule: every pair of pattern kinds
    kinds = list(DOMS.keys())
    reps = {"int": ["1", "1..3"], "char": ["'a'", "'a'..'c'"], "byte": ["b'a'", "b'a'..=b'c'"], "str": ['"a"', '"a".."c"'], "bool": ["true"]}
    for k1, k2 in itertools.product(kinds, kinds):
        for p1 in reps[k1]:
            for p2 in reps[k2]:
                out.append(("kind-pair", f"let obs = [];\npush(obs, 1);\nmatch 1 {{ {p1} => 1, {p2} => 2, _ => 3 }}\n"))
                out.append(("kind-pair", f"let obs = [];\nmatch 1 {{ {p1} | {p2} => 1 }}\n"))
    # scrutinee evaluated once; value of the chosen arm's final expression statement
    out.append(("once", "let obs = [];\nfn s() { push(obs, 7); 2 }\npush(obs, match s() { 1 => 10, 2 => { push(obs, 8); 20 }, 3 => 30 });\npush(obs, match s() { 5 => 1 });\npush(obs, match 2 { 2 => { let q = 1; } });\n0\n"))
    return out


TRUTHY = ["true", "false", "0", "1", "(-1)", "0.0", "1.5", "null", "'a'", "b'a'", '""', '"a"', "[]", "[0]", "map {}", "map {1: 2}", "len", "fn() { 1 }"]


def chain_programs():
    out = []
    for a, b in itertools.product(TRUTHY, TRUTHY):
        src = ("let obs = [];\n"
               f"push(obs, if {a} {{ 1 }} else if {b} {{ 2 }} else {{ 3 }});\n"
               f"push(obs, if {a} {{ 1 }});\n"
               f"push(obs, if {a} {{ let z = 1; }} else {{ 5 }});\n"
               f"if {a} {{ push(obs, 10); }} else if {b} {{ push(obs, 20); }}\n"
               "0\n")
        out.append(("if-chain", src))
    # the value a branch / arm yields, for every kind of final statement of its body
    finals = ["7", "x = 5", "x = 5;", "a[0] = 9", "let z = 1;", "{ 8 }", "f(3)", "x = x + 1; x", "push(obs, 100); x = 6", "if x > 0 { x = 4 }", "", "null", "x == 1"]
    for fin in finals:
        for cond in ("true", "false"):
            src = ("let obs = [];\nlet x = 1;\nlet a = [0];\nfn f(n) { n + 1 }\n"
                   f"push(obs, if {cond} {{ {fin} }} else {{ 3 }});\npush(obs, x);\n"
                   f"push(obs, if !{cond} {{ 3 }} else {{ {fin} }});\n"
                   f"push(obs, if false {{ 1 }} else if {cond} {{ {fin} }} else {{ 3 }});\n"
                   f"push(obs, match x {{ 1 => {{ {fin} }}, _ => {{ {fin} }} }});\n"
                   f"let r = if {cond} {{ {fin} }};\npush(obs, r);\npush(obs, a[0]);\nx\n")
            out.append(("branch-final", src))
    return out


def loop_programs(rng, n):
    out = []
    for _ in range(n):
        depth = rng.randint(1, 3)
        labels = []
        lines = ["let obs = [];"]
        ind = ""
        counters = []
        for d in range(depth):
            c = f"c{d}"
            lab = f"L{d}" if rng.random() < 0.7 else None
            labels.append(lab)
            counters.append(c)
            lines.append(f"{ind}let {c} = 0;")
            head = (f"{lab}: " if lab else "")
            if rng.random() < 0.5:
                lines.append(f"{ind}{head}while {c} < {rng.randint(1, 4)} {{")
                lines.append(f"{ind}  {c} = {c} + 1;")
            else:
                lines.append(f"{ind}{head}loop {{")
                lines.append(f"{ind}  {c} = {c} + 1;")
                lines.append(f"{ind}  if {c} > {rng.randint(1, 4)} {{ break; }}")
            ind += "  "
            lines.append(f"{ind}push(obs, {' * 10 + '.join(counters)});")
            for _ in range(rng.randint(0, 2)):
                cond = f"{rng.choice(counters)} == {rng.randint(1, 3)}"
                kind = rng.choice(["break", "continue"])
                labs = [l for l in labels if l]
                tgt = (" " + rng.choice(labs)) if labs and rng.random() < 0.6 else ""
                form = rng.random()
                if form < 0.5:
                    lines.append(f"{ind}if {cond} {{ {kind}{tgt}; }}")
                elif form < 0.8:
                    lines.append(f"{ind}match {rng.choice(counters)} {{ {rng.randint(1, 3)} => {{ {kind}{tgt}; }}, _ => {{ push(obs, 99); }} }}")
                else:
                    lines.append(f"{ind}if {cond} {{ push(obs, 77); }} else if {rng.choice(counters)} > 2 {{ {kind}{tgt}; }}")
        for d in range(depth):
            ind = ind[:-2]
            lines.append(f"{ind}  push(obs, {100 + d});")
            lines.append(f"{ind}}}")
        # the loop nest is the LAST statement of the program in part of the cases: a `break` out of it then jumps to the
        # very end of the code (a target equal to the code length)
        if rng.random() < 0.6:
            lines.append("0")
        out.append(("loops", "\n".join(lines) + "\n"))
    return out


TAIL_LOOPS = [
    "let obs = [];\nloop { push(obs, 1); break; }\n",
    "let obs = [];\nlet i = 0;\nloop { i = i + 1; push(obs, i); if i > 2 { break; } }\n",
    "let obs = [];\nlet i = 0;\nout: loop { i = i + 1; loop { push(obs, i); break out; } }\n",
    "let obs = [];\nlet i = 0;\nwhile true { i = i + 1; if i == 3 { push(obs, i); break; } }\n",
    "let obs = [];\nlet i = 0;\na: while i < 5 { i = i + 1; b: loop { if i == 2 { break a; } break b; } push(obs, i); }\n",
    "let obs = [];\nfn f() { loop { push(obs, 7); break; } }\nf();\nloop { break; }\n",
    "let obs = [];\nlet i = 0;\nloop { i = i + 1; match i { 3 => { break; }, _ => { push(obs, i); } } }\n",
    "let obs = [];\nif true { loop { push(obs, 2); break; } }\n",
    "let obs = [];\n{ loop { push(obs, 3); break; } }\n",
]


def core_match_programs(ctx):
    """the scrutinee x pattern tables once more in the core fragment (lean/P2sh/Core: theorems match_first_arm,
    match_none_is_null, match_compiled): every result goes to a global; op `core` compares the functional compiler's
    bytes, line table and constants, its machine and the reference evaluation with the real compiler and VM"""
    out = []
    for kind, dom in DOMS.items():
        pats = [pat_lit(kind, v) for v in dom if pat_lit(kind, v)]
        if kind != "bool":
            pos = [v for v in dom if pat_lit(kind, v)]
            for a, b in itertools.product(pos, pos):
                pats.append(f"{pat_lit(kind, a)}..{pat_lit(kind, b)}")
                pats.append(f"{pat_lit(kind, a)}..={pat_lit(kind, b)}")
        for p in pats:
            body = []
            for i, v in enumerate(dom):
                body.append(f"let a{i} = match {scrut(kind, v)} {{ {p} => 1 }};")
                body.append(f"let b{i} = match {scrut(kind, v)} {{ {p} => {{ 1 }} _ => 2 }};")
            out.append("\n".join(body) + "\n")
        for p1, p2 in itertools.islice(itertools.product(pats, pats), 0, None, max(1, len(pats) * len(pats) // ctx.scale(100, 2000))):
            body = []
            for i, v in enumerate(dom):
                body.append(f"let a{i} = match {scrut(kind, v)} {{ {p1} => 1, {p2} => 2 }};")
                body.append(f"let b{i} = match {scrut(kind, v)} {{ {p1} | {p2} => 3, _ => 4 }};")
            out.append("\n".join(body) + "\n")
    # the scrutinee is evaluated once (its assignment happens once); a scrutinee of another kind
    out.append("let x = 0;\nlet r = match (x = x + 1) { 0 => 10, 1 => 11, 2 => 12 };\nlet s = match (x = x + 1) { 5 => 1 };\nx\n")
    out.append("let r = match null { 1 => 2 };\nlet s = match true { 1 => 2, _ => 3 };\nlet t = match \"a\" { 1..3 => 2 };\n")
    for k in range(ctx.scale(600, 20000)):
        src = c02.core_program(ctx.rng, typed=(k % 2 == 0))
        if "match" in src or "break" in src or "continue" in src:
            out.append(src)
    return out


def cases(ctx):
    rng = ctx.rng
    progs = table_programs(ctx) + chain_programs() + loop_programs(rng, ctx.scale(1500, 60000)) + [("tail-loop", s) for s in TAIL_LOOPS]
    for s in gen_lang.programs(rng, ctx.scale(500, 30000), max_stmts=8):
        progs.append(("generated", s))
    srcs = [s for _, s in progs]
    lines = lang_lines(ctx, srcs)
    out = [Case(l, (t,), extra={"src": s}) for l, (t, s) in zip(lines, progs)]
    # translation validation: Bcv (the verified bytecode verifier) on the real bytecode of every program; the VM model runs it
    vl = vmrun_lines(ctx, srcs, static=[t == "generated" for t, _ in progs])
    out += [Case(l, (t, "vm"), extra={"src": s}) for l, (t, s) in zip(vl, progs)]
    csrcs = core_match_programs(ctx)
    cl = lang_lines(ctx, csrcs, op="core")
    out += [Case(l, ("core-match",), extra={"src": s}) for l, s in zip(cl, csrcs)]
    return out
