#!/usr/bin/env python3
"""Writes MANIFEST.json from tools/manifest_data.py (kept as data so it is always valid JSON)."""
import json
import os
import subprocess
import sys

HERE = os.path.dirname(os.path.abspath(__file__))
sys.path.insert(0, HERE)
from manifest_data import CHECKS, NOT_APPLICABLE, NOTES  # noqa: E402

hooks = subprocess.run(["git", "-C", "/repo", "log", "--format=%H %s", "--grep=^verif hook"], capture_output=True, text=True).stdout.split("\n")
hook_commits = [h.split(" ")[0] for h in hooks if h.strip()]
m = {
    "version": 1,
    "setup_cmd": "./check --setup",
    "hooks": {
        "guard": "verif_hooks",
        "enable": "cargo feature: `cargo build --features verif_hooks` for the p2sh binary; the in-process harness (verif/harness) includes /repo/src/*/mod.rs by #[path] and enables a feature of the same name",
        "baseline_off_cmd": "cd /repo && cargo test --workspace --no-fail-fast --offline",
        "source_commits": hook_commits,
        "add_only": True,
    },
    "engines": [
        {"name": "lean", "path": "lean/", "serves_properties": [c["property_id"] for c in CHECKS], "kind_free_text": "Lean 4 project: generated tables (Gen), hand models (Model), executable specs (Spec), theorems (Props), correspondence driver (Main.lean)"},
        {"name": "translator", "path": "extract/translate.py", "serves_properties": [c["property_id"] for c in CHECKS], "kind_free_text": "regenerates lean/P2sh/Gen/*.lean from /repo on every run"},
        {"name": "harness", "path": "harness/", "serves_properties": [c["property_id"] for c in CHECKS], "kind_free_text": "Rust line-protocol harness running the real p2sh code in-process (catch_unwind per case)"},
        {"name": "check", "path": "check", "serves_properties": [c["property_id"] for c in CHECKS], "kind_free_text": "python driver: translator, lake build + axiom audit, cargo builds, differential run model/spec vs implementation, known findings, replay, evidence"},
    ],
    "checks": [],
    "notes": NOTES,
    "not_applicable": NOT_APPLICABLE,
}
_obl = json.load(open(os.path.join(os.path.dirname(HERE), "obligations.json")))
for c in CHECKS:
    pid = c["property_id"]
    has_thm = bool(_obl.get(pid, {}).get("theorems"))
    m["checks"].append({
        "property_id": pid,
        "quick_cmd": f"./check {pid} --tier quick",
        "thorough_cmd": f"./check {pid} --tier thorough",
        "evidence_file": f"evidence/{pid}.json",
        "replay_cmd_template": "./check --replay {path}",
        "engine": "check",
        "level_claimed": {"category": "proof" if has_thm else "exploration", "text": c["text"] if has_thm else ("(no closed theorem for this property yet: claimed as exploration — model/spec correspondence and oracle search — until one lands) " + c["text"]), "design_ref": c.get("design_ref", "DESIGN.md §6 " + pid)},
        "level_note": c["note"],
        "technique": c["technique"],
    })
with open(os.path.join(os.path.dirname(HERE), "MANIFEST.json"), "w") as f:
    json.dump(m, f, indent=1, ensure_ascii=False)
    f.write("\n")
print("MANIFEST.json written:", len(m["checks"]), "checks,", len(NOT_APPLICABLE), "not_applicable")
