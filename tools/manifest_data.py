"""Data for MANIFEST.json (see gen_manifest.py)."""

NOTES = ("Technique family: machine-checked proof in Lean 4. Every check regenerates the table modules from /repo, rebuilds the property's "
         "theorem modules (lake) and audits their axioms, rebuilds the Rust harness from /repo's working tree, and runs the model+spec "
         "(Lean driver) and the real code on the same generated inputs. See DESIGN.md.")

_ALL = ["C%02d" % i for i in range(1, 25)]

CHECKS = [
    {
        "property_id": "C14",
        "technique": "Lean 4 theorems over translator-generated opcode tables + differential correspondence of make/read_operands",
        "text": ("Kernel-checked theorems: decode(encode)=id for every opcode and every operand list that fits the declared widths (unbounded, by induction on the "
                 "width list), the VM's inline operand reads equal the DEFINITIONS layout for every opcode, From<u8> inverts the discriminant. The tables the "
                 "theorems quantify over are regenerated from the Rust source on every run; make/lookup/read_operands are hand-modelled and compared with the "
                 "real functions on every opcode byte and an operand sweep (exhaustive over all 16-bit values in the thorough tier)."),
        "note": ("Trusted: Lean kernel; axioms propext/Classical.choice/Quot.sound; the translator; the correspondence harness. The compiler half of C14 "
                 "(programs needing wider operands are rejected) is stated over the compiler model and listed under open obligations until closed."),
    },
]

_claimed = {c["property_id"] for c in CHECKS}
NOT_APPLICABLE = [
    {"property_id": p, "reason": "not yet claimed in this revision: model slice, theorem and correspondence engine still being built (technique applies; see DESIGN.md §6)"}
    for p in _ALL if p not in _claimed
]
