"""Data for MANIFEST.json (see gen_manifest.py)."""

NOTES = ("Technique family: machine-checked proof in Lean 4. Every check regenerates the table modules from /repo (translator), rebuilds the property's "
         "theorem modules (lake) and audits their axioms (#print axioms; sorry/axiom/native_decide grep), rebuilds the Rust harness / the p2sh binary from /repo's "
         "working tree, and runs the Lean model+spec (driver) and the real code on the same generated inputs. A broken proof, table or correspondence without a failing "
         "input is reported as `VIOLATION … no-failing-input-found`. See DESIGN.md; defects repaired in /repo and known findings are in known_findings.json.")

_ALL = ["C%02d" % i for i in range(1, 25)]
_COMMON = ("Trusted: Lean 4.33 kernel; axioms propext/Classical.choice/Quot.sound only; the translator; the correspondence harness and generators; the hand-written "
           "models are tied to the code by differential runs only. ")


def _c(pid, technique, text, note):
    return {"property_id": pid, "technique": technique, "text": text, "note": _COMMON + note}


CHECKS = [
    _c("C01", "Lean theorems on the scanner model (total: no panic, no fuel exhaustion, ends with Eof, for every input) tied token-by-token to the real scanner + bounded-exhaustive no-panic/no-hang run of scan→parse→compile",
       "Kernel-checked for every input string: the scanner model (every index/slice of src/scanner/mod.rs a checked access that yields `panic`, every loop with fuel) never panics, every inner loop leaves at its "
       "Rust exit condition, every call of next_token strictly advances the cursor, the token stream is finite and ends with the only Eof, line numbers are monotone and bounded by the newlines of the input. "
       "The model is compared with the real scanner on all strings of length ≤3 (≤4 thorough) over a 31-character alphabet, token soup and programs; scan→parse→compile runs in-process under catch_unwind + "
       "watchdog on ≈250k texts (short strings, token sequences ≤3 over all token kinds, ≤5 over a core, mutated programs, nesting to 64). The keyword / single / twin-character tables the model uses are regenerated from the source on every run.",
       "Also kernel-checked on the parser model (Model/Parser.lean, compared with the real parser on every case by ops pexpr / pprog): for EVERY token list the parser ends — no fuel exhaustion with the fuel 2·len+O(1) — because every continuing token has an infix function (a fact re-proved against the generated rule table on every run: the seeded hang C01-m1 breaks it), and the text-level parse_program_text_total (scan then parse ends for every source string; constructs outside the model — labels, filters, match — are `skip`). Open: compile_no_panic beyond the core fragment (exhaustive search)."),
    _c("C02", "Lean reference semantics (big-step evaluator + static resolver) as executable spec/oracle; Lean VM model run on the real compiler's bytecode; differential run",
       "P2sh.Ref / P2sh.Static are the specification written from the property (evaluation order, lexical scoping, closures by value, globals by reference, static faults). Every generated "
       "program is run by the real pipeline and judged against the Lean reference (final value, observation array, runtime error + line, compile error + line, stack height 0). "
       "Independently the Lean VM model executes the REAL compiler's bytecode for every program and must agree with the real VM (value, observations, error line, stack height).",
       "Kernel-checked for the core fragment (literals, all operators with the right-to-left < and <=, && ||, if/else expressions, global let and assignment, blocks, while loops): Core.compile_correct / sound_all / "
       "compile_sound_core — every terminating run of the reference evaluation is reproduced by the compiled code from the empty stack back to the empty stack; the functional compiler is byte-exact with the real compiler "
       "(op `core`, and `core2` for the REPL's carried state). The fragment now also has match expressions, loop / labelled break / continue, statement-level if and FIRST-ORDER FUNCTIONS (Core/Fn: parameters, locals, return and implicit return, recursion; compile_sound_functions, call_correct, program_correct_fn — a call evaluates callee and arguments left to right, checks the arity, runs the body in a fresh frame and leaves exactly one value with the caller's stack restored, also on return from nested loops). Outside the fragment (closures capturing locals, nested function definitions, arrays, maps) the three-way differential run and the bytecode verifier decide."),
    _c("C03", "Lean theorems over translator-generated PARSE_RULES/Precedence tables vs the documented table + min/full parenthesisation differential run",
       "Kernel-checked: every operator token's rule has the documented rank and associativity, the Pratt loop tests `<` for left and `≤` for right associativity, prefix operands parse at "
       "Unary, every token with precedence has an infix parser. The run renders every tree minimally (documented table) and fully parenthesised: the real parser must yield the same AST and "
       "the reference semantics of the fully parenthesised tree is the oracle for the minimal text.",
       "Also kernel-checked on a model of the Pratt expression parser (Model/Parser.lean: parse_expression's prefix/infix loop over tokens, every rank and associativity read from the generated rule table; compared with the real parser on every case by op pexpr): "
       "parse_renderMin — for every expression tree over literals, identifiers, the 18 binary operators, unary ! - ~, assignment, ranges, index and call, parsing the minimally parenthesised rendering gives back the tree (and parse_renderFull). Also the text-level statement: parse_text_renderMin — scanning (scanner model) and parsing the TEXT of the minimal rendering gives back the tree, for every tree whose atoms are scannable."),
    _c("C04", "Lean theorems on the symbol-table model (tied step-by-step to the real SymbolTable) + scope-skeleton differential run against the lexical reference",
       "Kernel-checked on the symbol-table model: the innermost binding wins, a block's binding is forgotten exactly when the block ends (store restored), every name resolves after the block "
       "as before it, a name bound nowhere does not resolve. The model is compared with the real SymbolTable on random define/resolve/leave_block/enter/leave sequences; enumerated scope "
       "skeletons (blocks, shadowing, siblings, nested functions, closures called later; uses before/inside/after) run through the real pipeline against P2sh.Ref/P2sh.Static.",
       "Also kernel-checked: resolve_agrees — a model of the compiler's use of the symbol table (Model/Resolver.lean: the same define / resolve / leave_block / enter / leave / function-name / parameter / free-symbol calls in the same order as compile_statement & co.; compared with the real compiler's name instructions and Closure operands on every case by op resolve) implements lexical scoping for the whole language: every identifier occurrence resolves to the binding the lexical reference (Spec/Lexical.lean) picks, undefined iff unbound, and every symbol captured before a Closure instruction is the visible local / parameter / own name of an enclosing function (closure_captures_visible). Run-time copying of the captured values: reference semantics + VM model on real bytecode."),
    _c("C05", "Lean theorems on the range/equality tests of the match template + exhaustive scrutinee×pattern tables against the reference semantics",
       "Kernel-checked for all 64-bit operands: the two-comparison test the match template performs is interval membership (a..b excludes b, a..=b includes it); equality patterns use the negation "
       "of ==. Exhaustive tables (int/char/byte/string/bool domains, all ranges in the window, two-arm programs, kind pairs for the rejection rule), if/else-if chains over truthiness "
       "representatives, and generated nestings of if/match/labelled loops run through the real pipeline against P2sh.Ref/P2sh.Static.",
       "Also kernel-checked at the bytecode level (core fragment, byte-exact with the real compiler): while / loop leave exactly when the condition is falsey or a break executes; break and continue, plain or labelled, leave / restart the innermost or the named enclosing loop (break_leaves_named_loop, continue_restarts_named_loop, …); a match evaluates its scrutinee once, runs the first matching arm and no other, yields null when none matches (match_first_arm, match_none_is_null, match_compiled); if/else evaluates exactly one branch. "
       "Open: mixed_arms_rejected as a theorem; match arms with multi-statement bodies."),
    _c("C06", "Lean theorem falsey_table (is_falsey = documented table for every value) + exhaustive differential run of is_falsey / ! on the real code",
       "Kernel-checked: Object::is_falsey as modelled equals the documented falsey table for every value of every kind; ! yields true exactly on it and never fails. Compared with the real "
       "is_falsey and Bang opcode on representatives of every kind and random values; the if/while/&&/|| positions are exercised through the language-level engine (C02/C05).",
       "Open: and_sem / or_sem template lemmas."),
    _c("C07", "operand-stack height of the real VM after every generated program (hook VM::verif_sp) against the reference semantics; long loops beyond STACK_SIZE",
       "Statement shapes incl. empty match arms, branches ending in nested blocks, break/continue in every position; the real VM's height after the run must be 0 and 5000-iteration loops must "
       "not overflow. The reference semantics supplies values and control flow (break/continue leaving an expression).",
       "Kernel-checked for the core fragment (let, expression statements, blocks, while loops): every statement's code runs from any stack back to the same stack, a loop leaves with the stack it entered with whatever the number of iterations (loop_constant_stack). "
       "TRANSLATION VALIDATION for everything beyond the fragment: a bytecode verifier (Model/Bcv.lean: operand ranges + abstract stack heights with equal heights at joins, end of main at height 0) is run on EVERY real compiled program of every run (op vmrun), and Bcv.sound_heights / loop_constant_stack (kernel-checked against the VM model, no assumption left) make its verdict a theorem about that program: along every execution sp = bp + numLocals + the computed height, any two visits of an instruction see the same height — functions, closures, match, break included. "
       "Known finding K1 (break/continue with pending operands leaks a slot) is exactly what the verifier rejects (height mismatch at the join) and is listed in known_findings.json; break/continue in statement position are proved balanced (break_continue_balanced)."),
    _c("C08", "Lean theorems (no operator application panics; /0 and %0 are errors) + no-panic oracle over operators, builtins, format strings and programs in-process",
       "Kernel-checked: for every operator and every pair of values the model raises no panic (the only excluded request: repetition beyond 16 MiB), unary operators likewise, /0 and %0 are runtime "
       "errors. ≈130k cases run under catch_unwind + watchdog: every operator × kind pair × boundary values, every in-process-safe builtin × arities × kinds, format strings incl. malformed, "
       "programs with deep/unbounded recursion, wide frames, absurd shift/repeat/precision arguments.",
       "Also kernel-checked: builtins_no_panic (no builtin model can panic, for any name and argument list; format_answers), and vm_safe — on every program the bytecode verifier accepts (Bcv.checkProgram, run on every real compiled program of every run through op vmrun) no execution of the VM model panics except with the memory exclusion's `capacity overflow`: invariant = checked code in every frame + stack heights as computed + store typing (closures carry enough captured values), preserved by every step. "
       "Engine 5 runs filter programs with packet input end to end. Known findings: native recursion over deeply nested / self-containing values."),
    _c("C09", "Lean theorems (model of the operator opcodes meets Spec.Ops) + exhaustive kind-pair/boundary differential run against the real VM",
       "Kernel-checked: integer + - * / % and unary - ~ equal exact integer arithmetic reduced modulo 2^64 for all operands, /0 and %0 are runtime errors for every numeric kind, no operator "
       "application panics, the error rows (arrays under non-+, booleans under ordering, negative repetition), integer relational consistency with ==. Spec.Ops is the oracle for every "
       "operator × every ordered pair of operand kinds × boundary pools + random 64-bit operands through the real VM.",
       "binary_spec is the whole table: every operator x every pair of operand values (shifts modulo 64, bytes modulo 2^8, integer/byte mixes, float rows incl. the IEEE order laws proved on Lean's Float model, string/char order and concatenation, repetition, element-wise array equality). "
       "One hypothesis remains: the property's own memory exclusion (hugeRepeat). (For float / int and float % int the specification tests the integer divisor itself, as the statement's 'division or modulo by zero' reads.)"),
    _c("C10", "Lean refinement proof (hash-table model refines an association list under ==) + differential run on a real HMap",
       "Kernel-checked: keys equal under == feed the same byte stream to the hasher (unconditionally: the IEEE fact 'doubles that compare equal have the same bits once -0.0 is normalised' is proved from Lean's Float model — floatLaw, via injectivity of the binary64 unpacking), hence get/insert equal the association-list spec, "
       "the pairwise law, and refinement for every sequence of inserts and lookups. The real `impl Hash` is observed with a recording Hasher; a real HMap is driven through insert/get/contains/len, m[k], m[k]=v.",
       "Assumes std HashMap finds an entry iff hashes are equal and keys ==; SipHash collision-free on distinct streams."),
    _c("C11", "Lean theorems (UTF-8, chars/join, len round trips; arity contract) + every builtin × arity × kind differential run through the real VM",
       "Kernel-checked: decode_utf8(encode_utf8 s) = s, len(encode_utf8 s) = len s, join(chars s) = s for every string; is_error total; one-argument builtins reject every other arity with an error. "
       "Spec.Builtins (from the documentation) is the oracle for 23 pure builtins × arity 0..4 × kinds × boundary/random values (scalar-value boundaries, invalid UTF-8 classes, sort on every comparability class).",
       "Also kernel-checked: builtin_contract_final — for all 23 documented pure builtins and every argument list the model returns what the documentation-derived specification prescribes (value, mutation, error), the only exclusion being the recorded findings; int(str(n)) = n for every 64-bit integer; sort returns a sorted permutation for arrays of one kind. float(str x) is not modelled (tested only)."),
    _c("C12", "Lean theorems on the format state-machine model + grammar-derived differential run against the reference renderer",
       "Kernel-checked: literal text renders as itself for every brace-free string (model and reference parser), the print family returns the byte length written (+1 for ln), a missing argument is an error. "
       "Spec.Format (documented grammar) is the oracle for all one-item strings over index/fill/justify/width/radix sets × argument lists, random multi-item strings, malformed specifiers (no-crash).",
       "Also kernel-checked: format_refines — for every grammar-derived format string (printer renderText of well-formed item lists; parse_renderText shows the reference parser reads it back) and every argument list, "
       "the model of format_buf returns exactly the text the reference renderer prescribes, and an error where it prescribes one. No width condition (model and reference renderer both go silent above width 100000); fewer than 2^64 arguments."),
    _c("C13", "generated failing constructs on known lines (independent of the scanner) + reference semantics predicting `rterr <line>`; Lean lemma make_lines_aligned",
       "One failing construct per program on a random line after random filler (comments, blank lines, definitions, loops, functions), inside/outside functions and closures, LF and CRLF; the reported "
       "line must equal the line computed from the text layout, and the reference semantics must predict the same line. Kernel-checked: make() emits exactly one line entry per code byte.",
       "Also kernel-checked for the core fragment: fail_line / fail_line_program — if the reference evaluation fails at a construct on line L, the compiled code runs to a stuck instruction whose entry in the per-byte line table (what the VM reports) is L, also in the n-th iteration of a loop; the functional line table is compared byte for byte with the real compiler's `lines` on every core program (op core). Outside the fragment (calls, index, builtins, match) the reference semantics decides on generated programs."),
    _c("C14", "Lean theorems over translator-generated opcode tables + differential correspondence of make/read_operands",
       "Kernel-checked: decode(encode)=id for every opcode and operand list that fits the declared widths (unbounded), the VM's inline operand reads equal the DEFINITIONS layout, From<u8> inverts the "
       "discriminant. Tables regenerated from the Rust source on every run; make/lookup/read_operands compared on every opcode byte and an operand sweep.",
       "The compiler's overflow check (fix fea076a) is exercised by limit programs (locals, arguments, captures, jump distance; constants/globals in the thorough tier). Open: compile_rejects_overflow as a theorem on the compiler model."),
    _c("C15", "Lean theorems on the packet model (parse / cache / serialise of every header) + differential run of the real GetProp/Dollar/serialiser on frames truncated at every byte offset",
       "Kernel-checked: for every header kind (pcap record, Ethernet, VLAN, IPv4 with options, IPv6, UDP, TCP with options) serialising the parsed header gives back its bytes; the serialiser walks the cache tree faithfully; "
       "reads_preserve_bytes: for every frame (truncated and malformed inner headers included) and every script of reads and re-parses, each serialisation equals record header ++ captured bytes. "
       "The real code (PcapPacket built through the verif_new hook, reads through GetProp / Dollar, Vec<u8>::from(&PcapPacket)) is run on every frame shape truncated at every offset x three script families and compared with the model and the specification.",
       "The link type is assumed to be Ethernet. Seven defects found by this slice were repaired in /repo (see known_findings.json); their witnesses run as regression inputs."),
    _c("C16", "Lean theorems tying every getter to the RFC bit layout table (translator-generated property table) + differential run with field sweeps",
       "Kernel-checked: the property enum agrees with the generated table; every numeric getter of every layer returns the RFC bit slice of the header bytes (getter_is_slice, tcp.flags included), record-header getters the little-endian words, "
       "MAC / IPv4 text is the reference rendering, the payload starts after the header length the header announces, a header running past the capture is an error object, $n and the named layer properties descend into the layer the type field selects (VLAN → IPv6 included) and yield null on a mismatch. "
       "Field sweeps embed every value of a field in random surrounding bytes; Spec/Rfc.lean (layout table, dispatch table, reference printers) is the oracle.",
       "Also kernel-checked: v6_text_is_reference (structural, not by enumeration), dollar_n ($n descends n layers, for every frame and n up to MAX_PROTO_DEPTH; beyond it a runtime error). Below a malformed header the specification is silent."),
    _c("C17", "Lean theorems on the setters (set/get, frame, invalid values, serialise-and-re-parse identities) + differential run of assignment scripts",
       "Kernel-checked: an assignment changes exactly its field (set_frame), reading it back yields the value (set_get_in_range), out-of-range and wrong-kind values are refused or reduced to the field's width (set_checked_invalid, set_cast_invalid, set_wrong_kind, set_version_refused), "
       "and the assigned header survives serialisation and re-parsing for every header kind (udp/pcap/vlan/eth/ipv4/ipv6/tcp _reparse, options included). Assignment scripts over every settable property x boundary / invalid values run through the real SetProp code and are judged byte-exactly against the RFC bit ranges.",
       "Also kernel-checked: set_bytes_local (after assigning a numeric field the serialised header is the old one with exactly the RFC bit range replaced), and the address setters composed with the round trips (assign the text of a, serialise, re-parse, read: the text of a). After a structural assignment (type fields, lengths) nothing is demanded of the layers below."),
    _c("C18", "Lean theorems on the address parsers/printers (round trips for all addresses, acceptance of every `::` placement, rejection classes) + exhaustive shape run",
       "Kernel-checked: parse(print a) = a for every MAC, IPv4 and IPv6 address; every IPv6 text with one `::` at any position (leading and trailing included), at most 7 groups in all, any digit count and case is accepted with the reference value (v6_accepts_all); "
       "texts with the wrong number of groups, out-of-range or malformed groups are rejected. The real parsers run on all 36 (position, length) shapes of `::`, both cases, 1-4 digits, and on malformed texts; the reference parsers of Spec/Rfc.lean are the oracle.",
       "Also kernel-checked: the model parsers accept every text the reference parsers of the specification call standard, with the same value (mac/v4/v6_reference_standard)."),
    _c("C19", "Lean theorems on the pcap reader/writer model and on the specification's codec + differential run of the real pcap_open/read/write on generated, truncated and corrupted files",
       "Kernel-checked: the little-endian global/record header codecs invert each other; pcap_read_all on the encoding of a well-formed file returns its records; repeated read_next returns them in order, then null; "
       "read_all(f, n) returns min(n, remaining) and leaves the rest; a file cut inside record k+1 yields exactly k records then null, a corrupt record header after k records yields those k then an error object; "
       "written packets (caplen <= 65535) read back identically; no run of the model panics; the specification's decoder (the oracle) inverts its encoder. The real code is run on random files "
       "(both magics, snaplens, sizes around the 4096/8192 buffer edges), truncation at every offset, header corruption, interleaved read/write scripts, and judged against the spec decoder.",
       "Known finding: a packet longer than 65535 bytes cannot be read back from a file written by pcap_open(.., \"w\") (fixed snaplen in the header written first). std's read_exact/BufReader/BufWriter are assumed to behave as a cursor over the file's bytes."),
    _c("C21", "Lean theorems over an abstract reader (any chunking schedule) and the open-mode table + end-to-end runs of the binary on files and paced pipes",
       "Kernel-checked for every conforming source (pipes fed in any chunks, BufReader over any conforming source), handle and call sequence: what the calls consumed, in order, followed by what the source still "
       "holds is the original content (nothing duplicated, reordered or skipped); read(f) / read_to_string consume everything that remains, read(f, n) stops short only at end of input, read_line returns exactly the next line; "
       "open's flags realise the documented r/w/a/x table; after a normal end, a flush or exit the file holds what the open left plus exactly the bytes written. The binary is run on files of sizes around the buffer edges, "
       "on stdin pipes written in paced chunks, over mixed call sequences, and on the mode table with existing/missing files.",
       "The OS (read/write/open syscalls, the page cache) is a parameter of the model: a `Source` that returns between 1 and n bytes until its end. Timing of pipe chunks in the end-to-end run is best-effort (sleep-paced writer)."),
    _c("C22", "Lean theorems over a fault-oracle model of the eleven I/O builtins + end-to-end runs of the binary against failing targets (/dev/full, closed pipes, directories, permissions)",
       "Kernel-checked: whatever the oracle answering the builtin's OS calls, the handle state and the arguments, if some OS call fails the builtin returns Ok(error object) for that failure and the script continues "
       "(is_error true), for open, read, read_line, read_to_string, write, flush, pcap_open, pcap_read_next, pcap_read_all, pcap_write, pcap_stream. The binary is run against targets that make the OS call fail "
       "(ENOENT, EEXIST, EISDIR, EACCES, ENOSPC on /dev/full, EPIPE, invalid UTF-8) and must report an error object and go on.",
       "Which OS calls a builtin makes is read off the source by hand (phases in Model/IoFaults.lean) and tied by the end-to-end run only; the set of failures that can be provoked in the sandbox is limited to the targets above."),
    _c("C20", "Lean theorems on the stream-loop model + end-to-end differential run of the binary (dev+release) against FilterSpec",
       "Kernel-checked on the run_filters model (filters abstract): selected numbers are packet indices, written in input order, the end filter sees the packet count. FilterSpec (reference semantics + "
       "NP/PL/WL/TSS/TSU) is the oracle for random pcap streams × generated filter programs, with and without -s: which packets are written, order, multiplicity, output header = input header, program output.",
       "Also kernel-checked: stream_loop_refines — the executable specification (FilterSpec.run, the oracle of the end-to-end engine, filters evaluated by the reference semantics) IS the stream loop: per packet in order, per filter in source order, multiplicity preserved (a packet selected by k action-less filters appears k times, consecutively), only action-less filters select, the end filter runs exactly once with NP = number of packets. Packet field access inside filters is C15–C17's."),
    _c("C23", "Lean theorems on the REPL state-carrying model + end-to-end histories through the real run_prompt (scripted-line hook) against the folded reference semantics",
       "Kernel-checked: a rejected line leaves the carried state unchanged, histories compose (state after ls1++ls2 = fold), rejected lines can be skipped. Random histories (definitions, redefinitions, "
       "functions, parse/compile errors incl. inside function bodies, runtime failures) run through the real loop; per-line program output and diagnostics class must equal ReplSpec.",
       "Also kernel-checked at the compiler/VM level for the core fragment (accepted_lines_compose): a second line compiled at byte 0 in the carried state (constants appended to the pool, globals kept) ends with the globals of the one program line1 ++ line2; "
       "the functional compiler is byte-exact with Compiler::new_with_state on generated line pairs (op core2). Known finding: names defined by the unexecuted tail of a line that failed at run time are already bound. Open: the same for lines defining functions."),
    _c("C24", "Lean theorems on the model of main/CliArgs/run_buf + end-to-end runs of the binary in script, -c and shebang modes",
       "Kernel-checked: -c prints exactly the script's output plus the final value's line (only when the program ran to its end with a non-null value), diagnostics ⇒ nothing printed, argv per mode. "
       "Generated programs × argument vectors × {file, -c, #! file}: stdout relation, argv as seen by the program, shebang-insensitivity (line numbers shifted), the gate.",
       "Also kernel-checked on the scanner model: a leading `#!` line (any `#` or `//` comment line) changes nothing but the line numbers — scan(\"#!…\\n\" ++ s) is scan(s) with every line + 1 (shebang_is_comment, by an offset-simulation lemma for the whole scanner). clap's grouping of the command line is assumed."),
]

_claimed = {c["property_id"] for c in CHECKS}
_PENDING = {
    "C15": "slice under construction in this revision (packet model, Rfc spec, pkt op); technique applies — see DESIGN.md §6 C15",
    "C16": "slice under construction in this revision (packet model, Rfc spec, pkt op); technique applies — see DESIGN.md §6 C16",
    "C17": "slice under construction in this revision (packet model, Rfc spec, pkt op); technique applies — see DESIGN.md §6 C17",
    "C18": "slice under construction in this revision (address parsers model/spec, addr op); technique applies — see DESIGN.md §6 C18",
    "C19": "slice under construction in this revision (pcap file model/spec, pcap op); technique applies — see DESIGN.md §6 C19",
    "C21": "slice under construction in this revision (abstract-reader model, end-to-end file engine); technique applies — see DESIGN.md §6 C21",
    "C22": "slice under construction in this revision (fault-oracle model, end-to-end failing-target engine); technique applies — see DESIGN.md §6 C22",
}
NOT_APPLICABLE = [{"property_id": p, "reason": _PENDING.get(p, "not yet claimed in this revision")} for p in _ALL if p not in _claimed]
