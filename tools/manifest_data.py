"""Data for MANIFEST.json (see gen_manifest.py)."""

NOTES = ("Technique family: machine-checked proof in Lean 4. Every check regenerates the table modules from /repo, rebuilds the property's "
         "theorem modules (lake) and audits their axioms, rebuilds the Rust harness from /repo's working tree, and runs the model+spec "
         "(Lean driver) and the real code on the same generated inputs. See DESIGN.md.")

_ALL = ["C%02d" % i for i in range(1, 25)]

CHECKS = [
    {
        "property_id": "C14",
        "technique": "Lean 4 theorems over translator-generated opcode tables + differential correspondence of make/read_operands",
        "text": ("Kernel-checked theorems: decode(encode)=id for every opcode and every operand list that fits the declared widths (unbounded, by induction on the "
                 "width list), the VM's inline operand reads equal the DEFINITIONS layout for every opcode, From<u8> inverts the discriminant. The tables the "
                 "theorems quantify over are regenerated from the Rust source on every run; make/lookup/read_operands are hand-modelled and compared with the "
                 "real functions on every opcode byte and an operand sweep (exhaustive over all 16-bit values in the thorough tier)."),
        "note": ("Trusted: Lean kernel; axioms propext/Classical.choice/Quot.sound; the translator; the correspondence harness. The compiler half of C14 "
                 "(programs needing wider operands are rejected) is stated over the compiler model and listed under open obligations until closed."),
    },
]

CHECKS += [
    {
        "property_id": "C09",
        "technique": "Lean 4 theorems (model of the operator opcodes meets Spec.Ops) + exhaustive kind-pair/boundary differential run against the real VM",
        "text": ("Kernel-checked: integer + - * / % and unary - ~ equal exact integer arithmetic reduced modulo 2^64 for all operands (via Int64.toInt lemmas), "
                 "/0 and %0 are runtime errors for every numeric kind, no operator application panics for any pair of values (by cases over all kinds), the error rows "
                 "(arrays under non-+, booleans under ordering, negative repetition) and integer relational consistency with ==. Spec.Ops is executable and is the oracle "
                 "for the differential run: every operator x every ordered pair of operand kinds x boundary pools, plus random 64-bit operands, through the real VM."),
        "note": ("Full table theorem binary_spec is open: shifts and byte arithmetic are covered by the exhaustive oracle run, not yet by a theorem. Float results are "
                 "'the IEEE primitive applied to the converted operands' (Lean Float is opaque to the kernel; IEEE primitives trusted). The model of ops is hand-written, tied by correspondence."),
    },
    {
        "property_id": "C06",
        "technique": "Lean 4 theorem falsey_table (is_falsey = documented table for every value) + exhaustive differential run of is_falsey / ! on the real code",
        "text": ("Kernel-checked: Object::is_falsey as modelled equals the documented falsey table for every value of every kind, hence ! yields true exactly on it and never fails. "
                 "The model is compared with the real is_falsey and the real Bang opcode on representatives of every kind (zero/non-zero, empty/non-empty, NaN, -0.0, nested containers, "
                 "closures, builtins, handles, error objects) and random values."),
        "note": "The && / || code templates and the if/while/filter positions are open obligations until the compiler/VM model lands; they are then checked through the language-level engine.",
    },
    {
        "property_id": "C10",
        "technique": "Lean 4 refinement proof (hash-table model refines an association list under ==) + differential run on a real HMap",
        "text": ("Kernel-checked: keys equal under == feed the same byte stream to the hasher (all values; uses one IEEE fact as hypothesis, none for float-free keys), hence get/insert of the "
                 "hash-table model equal the association-list spec for every table and key, the pairwise law, and refinement for every sequence of inserts and lookups. The byte stream "
                 "of the real `impl Hash` is observed with a recording Hasher and compared with the model; a real HMap is driven through insert/get/contains/len and m[k], m[k]=v."),
        "note": ("Assumes std HashMap finds an entry iff hashes are equal and keys ==, SipHash collision-free on distinct streams; FloatLaw (equal doubles have equal normalised bits) is a hypothesis. "
                 "Integer keys beyond 2^53 mixed with floats are unconstrained in sequences (== not transitive)."),
    },
]

_claimed = {c["property_id"] for c in CHECKS}
NOT_APPLICABLE = [
    {"property_id": p, "reason": "not yet claimed in this revision: model slice, theorem and correspondence engine still being built (technique applies; see DESIGN.md §6)"}
    for p in _ALL if p not in _claimed
]
